#!/bin/sh
# Build the MIR fact exporter offline (nightly, rustc_private, no dependencies).
set -e
cd "$(dirname "$0")/driver"
CARGO_NET_OFFLINE=true cargo build --release --offline
test -x target/release/drv
