#!/bin/sh
# usage: tools/try_patch.sh <patch.diff> <PROP> [<PROP>...]
# Applies the patch to a scratch copy of /repo's working tree (outside /repo and /verif), runs the given checks against
# the copy (VERIF_REPO), prints their summary lines and removes the copy.  Never touches /repo.
set -e
P=$(realpath "$1"); shift
D=$(mktemp -d /var/tmp/rarena-mut-XXXXXX)
trap 'rm -rf "$D"' EXIT
rsync -a --exclude target --exclude .git /repo/ "$D/"
( cd "$D" && patch -p1 -s < "$P" )
cd "$(dirname "$0")/.."
for prop in "$@"; do
  VERIF_REPO="$D" VERIF_NO_EVIDENCE=1 VERIF_FACTS_CACHE="$D/.facts-cache" ./check "$prop" 2>&1 | grep -E "^  violation|^BROKEN|^KNOWN|tier=|^self-test" | cut -c1-220
done
