#!/bin/sh
# usage: tools/with_patch.sh <patch.diff> <command...>   - runs the command with VERIF_REPO pointing at a patched scratch copy of /repo (removed afterwards)
set -e
P=$(realpath "$1"); shift
D=$(mktemp -d /var/tmp/rarena-mut-XXXXXX)
trap 'rm -rf "$D"' EXIT
rsync -a --exclude target --exclude .git /repo/ "$D/"
( cd "$D" && patch -p1 -s < "$P" )
cd "$(dirname "$0")/.."
VERIF_REPO="$D" VERIF_NO_EVIDENCE=1 VERIF_FACTS_CACHE="$D/.facts-cache" "$@"
