#!/usr/bin/env python3
"""tools/battery.py [regex]  - the thorough tier's self-test for every line of mutants/expect.tsv (or those whose patch / property matches the regex), one
scratch copy per patch shared by its properties, quick configuration only.  Prints every expectation that is not met; exit 1 if there is one."""
import os, re, sys, shutil, subprocess, tempfile, concurrent.futures
VERIF = os.path.dirname(os.path.dirname(os.path.abspath(__file__)))
REPO = os.environ.get("VERIF_REPO", "/repo")
flt = re.compile(sys.argv[1]) if len(sys.argv) > 1 else None
by_patch = {}
for line in open(os.path.join(VERIF, "mutants", "expect.tsv")):
    line = line.rstrip("\n")
    if not line or line.startswith("#"):
        continue
    p, prop, exp = line.split("\t")
    if flt and not (flt.search(p) or flt.search(prop)):
        continue
    by_patch.setdefault(p, []).append((prop, exp))


def run(item):
    patch, exps = item
    tmp = tempfile.mkdtemp(prefix="rarena-battery-", dir="/var/tmp")
    out = []
    try:
        subprocess.run(["rsync", "-a", "--exclude", "target", "--exclude", ".git", REPO + "/", tmp + "/"], check=True)
        p = subprocess.run(["patch", "-p1", "-s", "--no-backup-if-mismatch", "-i", os.path.join(VERIF, patch)], cwd=tmp, stdout=subprocess.PIPE, stderr=subprocess.STDOUT, text=True)
        if p.returncode != 0:
            return [(patch, "*", "NOAPPLY", [])]
        env = dict(os.environ, VERIF_REPO=tmp, VERIF_NO_EVIDENCE="1", VERIF_TIER="quick", VERIF_SELFTEST_CHILD="1", VERIF_FACTS_CACHE=os.path.join(tmp, ".facts-cache"))
        for prop, exp in exps:
            r = subprocess.run([os.path.join(VERIF, "check"), prop, "--tier", "quick"], cwd=VERIF, env=env, stdout=subprocess.PIPE, stderr=subprocess.STDOUT, text=True)
            keys = re.findall(r"^  violation (.+)$", r.stdout, re.M)
            broken = re.findall(r"^BROKEN: (.*)", r.stdout, re.M)
            ok = (not keys and not broken) if exp == "SILENT" else any(re.search(exp, k) for k in keys)
            if not ok:
                out.append((patch, prop, exp, keys[:5] + [b[:160] for b in broken[:2]]))
    finally:
        shutil.rmtree(tmp, ignore_errors=True)
    return out


bad = 0
with concurrent.futures.ThreadPoolExecutor(max_workers=int(os.environ.get("JOBS", "12"))) as ex:
    for res in ex.map(run, sorted(by_patch.items())):
        for patch, prop, exp, keys in res:
            bad += 1
            print("FAILED %s %s expected %s got %s" % (patch, prop, exp, keys), flush=True)
print("battery: %d patches, %d expectations, %d not met" % (len(by_patch), sum(len(v) for v in by_patch.values()), bad))
sys.exit(1 if bad else 0)
