#!/usr/bin/env python3
"""Writes analysis/names.json: the parameter and captured-variable names of every crate function on the current /repo tree.
The evaluator names `param` / `upvar` atoms from this table (by function path and position), so that the rules - which spell atoms like
("param", 1, "size") - are insensitive to a later renaming of a parameter or of a captured local.  Regenerate only together with the rules."""
import json, os, sys
VERIF = os.path.dirname(os.path.dirname(os.path.abspath(__file__)))
sys.path.insert(0, os.path.join(VERIF, "analysis"))
import export, facts as F
out = {"params": {}, "upvars": {}, "adts": [], "locals": {}}
for cfg in ("memmap", "std", "alloc", "memmap-tracing"):
    fpath = export.export(cfg)
    fx = F.Facts(fpath)
    with open(fpath) as fh:
        raw = json.loads(F.canonical_closure_numbers(fh.read()))
    for rb in raw["bodies"]:
        if not rb["file"].startswith("/"):
            out["locals"][rb["path"]] = sorted(set(out["locals"].get(rb["path"], [])) | set(F.local_names(rb)))
    out["adts"] = sorted(set(out["adts"]) | set(fx.adts))
    for b in fx.own:
        names = [b.locals[i + 1]["name"] or "arg%d" % i for i in range(b.nargs)]
        out["params"].setdefault(b.path, names)
        ups = {}
        for u in getattr(b, "upvars", []) or []:
            fi = [p for p in u["place"]["proj"] if isinstance(p, dict) and "f" in p]
            if fi:
                ups[str(fi[0]["i"])] = u["name"]
        if ups:
            out["upvars"].setdefault(b.path, ups)
json.dump(out, open(os.path.join(VERIF, "analysis", "names.json"), "w"), indent=0, sort_keys=True)
print("functions:", len(out["params"]), "closures with captures:", len(out["upvars"]))
