#!/bin/bash
# usage: tools/confirm_seed.sh <seeded/dir> [cargo feature args for the demo, e.g. "--features memmap"]
# Confirms a seeded change in a scratch worktree of /repo (outside /repo and /verif): demo passes without the patch;
# with the patch the crate builds, the existing suite passes (both feature sets) and the demo fails. Removes the worktree.
set -u
S=$(realpath "$1"); FE="${2:-}"
W=$(mktemp -d /tmp/confirm-XXXXXX); rmdir "$W"
git -C /repo worktree add --detach "$W" HEAD -q || exit 2
trap 'git -C /repo worktree remove --force "$W" >/dev/null 2>&1; rm -rf "$W"' EXIT
cd "$W"
DEMO=$(ls "$S"/*.rs | head -1); NAME=$(basename "$DEMO" .rs)
mkdir -p rarena-allocator/tests; cp "$DEMO" rarena-allocator/tests/
if [ -f "$S/demo_cmd.txt" ]; then DEMO_CMD=$(cat "$S/demo_cmd.txt"); fi
run_demo() { if [ -n "${DEMO_CMD:-}" ]; then timeout 1800 bash -c "$DEMO_CMD" 2>&1 | grep -E "^test result|panicked|FAILED|Data race|Undefined Behavior|error(\[|:)" | head -5; return ${PIPESTATUS[0]}; fi; timeout 600 cargo test -p rarena-allocator --offline $FE --test "$NAME" ${DEMO_ARGS:-} 2>&1 | grep -E "^test result|panicked|FAILED|error(\[|:)" | head -5; return ${PIPESTATUS[0]}; }
echo "== demo WITHOUT patch"; run_demo; A=$?
git apply "$S/patch.diff" || { echo "PATCH DOES NOT APPLY"; exit 2; }
mv rarena-allocator/tests/"$NAME".rs /tmp/"$NAME".$$.rs   # the existing suite is run without the demonstration
echo "== suite WITH patch (default features)"; timeout 900 cargo test --workspace --offline 2>&1 | grep -E "^test result: .*[1-9][0-9]* passed|FAILED|^error" | head -4; B=${PIPESTATUS[0]}
echo "== suite WITH patch (memmap)"; timeout 900 cargo test --workspace --offline --features memmap 2>&1 | grep -E "^test result: .*[1-9][0-9]* passed|FAILED|^error" | head -4; C=${PIPESTATUS[0]}
mv /tmp/"$NAME".$$.rs rarena-allocator/tests/"$NAME".rs
echo "== demo WITH patch"; run_demo; D=$?
echo "RESULT demo_without=$A suite_default=$B suite_memmap=$C demo_with=$D"
if [ $A -eq 0 ] && [ $B -eq 0 ] && [ $C -eq 0 ] && [ $D -ne 0 ]; then echo CONFIRMED; exit 0; else echo NOT-CONFIRMED; exit 1; fi
