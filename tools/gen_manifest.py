#!/usr/bin/env python3
"""Regenerates MANIFEST.json from the table below (run after adding rules for a property)."""
import json, os, sys, glob, re
VERIF = os.path.dirname(os.path.dirname(os.path.abspath(__file__)))

P = {
 "C01": ("Decides, for all paths of both flavours, the per-operation extent lemmas (bump, release, pop, drop, writer set) whose conjunction preserves the disjointness invariant, and that the four range accessors of all four handle types return the Meta fields those lemmas speak about (A1); the induction over histories is a written argument (DESIGN Appendix A.1), not checked.",
         "MIR + std models; arithmetic over Z with overflow as separate obligations (C04); frame: node words written only by list code.", "3.C01",
         "affine value numbering + dominance over MIR (extent lemmas)"),
 "C02": ("Decides the CAS protocol clauses P1-P7 (success edges dominate hand-out, expected-value discipline, header before link, node word outside accessible ranges, frozen marked words, search coherence) and P8, the re-use (ABA) safety of the two-step pop: no version bits, no reclamation scheme, no re-validation - reported as a known finding with a gdb-forced double hand-out. Does not decide linearizability; necessary, not sufficient.",
         "Schedules are not explored; P8 is a structural necessary condition, the demonstrating schedule was forced with gdb by a hunting sub-agent.", "3.C02", "CAS-protocol dominance and term rules over MIR"),
 "C03": ("Decides capacity and alignment terms on every Ok path (fresh and recycled, zero-size) with generic T symbolic, i.e. for all layouts, and that capacity() / offset() of every handle report those terms (C01-A1).",
         "alignUp axioms (align_offset saturates at u32::MAX, C04-E6a); map backings: offset and maximum alignment are validated against the page alignment (A6, A7).", "3.C03", "affine value numbering + order prover (alignment/capacity terms)"),
 "C04": ("Decides read-only guard first, capacity guard dominance, no effect before any Err (single-thread projection), checked arithmetic on request sizes, enumerated panic sites, and that every Add/Sub/Mul and every narrowing cast of a type size reachable from the allocation entry points is bounded by guards / type widths or by a named arena invariant. Does not decide 'state exactly as before' beyond absence of effects.",
         "Arena invariants named in ARITH_JUSTIFIED (list / Meta extents below cap) are taken from C01 / C03 / C10.", "3.C04", "taint of request sizes to arithmetic sites + effect/dominance rules + order prover (Fourier-Motzkin) on every arithmetic site"),
 "C05": ("Decides the persistence discipline (state only in the in-file header, offsets only, reopen writes only above the stored cursor, caches derived from the file, the open functions refuse a stored cursor only when it is outside [data_offset, mapped length], and Options::open sizes / reports as created only a file it has just created). Does not decide equality of observations across reopen over histories.",
         "OS page cache and memmap2 semantics.", "3.C05", "who-writes / provenance / effect rules over MIR"),
 "C06": ("Decides the order of persistent writes inside each operation (incl. clear: unpublish before wipe; creation: header before identification bytes), that reopen validates the stored cursor and re-zeroes above it, that a file arena keeps header and identification block in the file whatever the unify option says (clear), that an existing file is never re-sized before validation; reports the unrecoverable mark window. Does not decide crash behaviour over crash points x histories.",
         "Program order = persistence order for a killed process (shared mapping).", "3.C06", "write-ordering dominance rules + recovery reachability (call graph)"),
 "C07": ("Decides that every loop cycle carries a progress token (a wait on a marker counts only if the cycle re-reads the link it followed), that every marker completes or undoes its mark, that the marker value is unambiguous, and that a pop unlinks only from a word known to be linked (the pessimistic pop does not: known finding T6). Does not decide termination under fairness in general.",
         "Failed CAS => another thread progressed; list finite (C10).", "3.C07", "loop classification + mark/unlink pairing on CAS outcome edges"),
 "C08": ("Decides that every returned alloc_bytes buffer is zeroed over exactly its accessible extent on all paths, all backends.",
         "ptr::write_bytes model; exclusivity from C01/C02.", "3.C08", "must-pass-through (clear after last extent store) + term rule on Meta::clear"),
 "C09": ("Decides size-check-before-map, validation-dominates-writes, completeness of the validator against the writer's offsets, read-only constructor flags, ro-guard coverage of the safe mutating API, the open-function dispatch table, checked offset / length arithmetic on the open path (no underflow, no u64 overflow, no narrowing of a mapping longer than u32::MAX), and that Options::open calls set_len / reports `created` only with the evidence that the file is new on every path.",
         "File::set_len extension only; user-requested truncate(true) out of scope.", "3.C09", "dominance on validation outcome edges + effect summaries + constant rules"),
 "C10": ("Decides the policy structure (comparators, head-pop/first-fit, fail-iff guards, remainder threshold and policy, None arm, insertion loop shape) and that cursor-lowering operations keep the list below the cursor (F7: rewind does not - known finding). Well-formedness at quiescent points follows from C01's invariant by a written argument (Appendix A.2).",
         "-", "3.C10", "comparator/guard term rules + sibling agreement"),
 "C11": ("Decides agreement of guarded-effect summaries of paired sync/unsync functions under the single-thread projection of sync (guard sets compared syntactically after canonicalisation, then by mutual implication of the exact path-condition DNFs); tolerated differences listed by key.",
         "CAS = compare + store on one thread; failed pop is effect-free (C04-E3).", "3.C11", "sibling comparison of guarded-effect summaries"),
 "C12": ("Decides the minimal memory orderings per protocol role and acquire-before-unmount; each requirement has a written racy counter-execution (Appendix A.3); harmless sites unconstrained; the crate's own unsafe Send / Sync impls bound every type parameter of the handle (also a compile-fail witness).",
         "C11 memory model reasoning is by hand; stale-reader hazard excluded (see C02).", "3.C12", "memory-ordering lattice per protocol role (data-flow roles)"),
 "C13": ("Decides drop/detach/to_owned pairing on every path (incl. zero-sized values), the refcount discipline, who may construct/free, no double drop of owned fields, truncate only on an exclusively owned arena, and lifetime witnesses. refs() = live values follows by Rust's drop-exactly-once.",
         "No mem::forget of arenas by the user is assumed for 'released exactly once'.", "3.C13", "path-count dataflow on Drop/to_owned + who-may-call + compile-fail witnesses"),
 "C14": ("Decides guard-before-write for every writer, converter agreement for all 120 put/get bodies, align_to/put_aligned/set_len/varint terms (the aligned pointer lies inside the buffer, a zero-sized put does not use the buffer position), for symbolic len/capacity/T.",
         "dbutils::leb128 trusted.", "3.C14", "guard dominance + affine terms + resolved-callee agreement over macro-generated families"),
 "C15": ("Decides guards, slice terms and converters of all arena-level readers incl. overflow of offset + SIZE and the error kind of a varint cut off by allocated().",
         "dbutils::leb128 trusted.", "3.C15", "guard dominance + taint to arithmetic + resolved-callee agreement"),
 "C16": ("Decides agreement of the layout formula sites, constructor write sets, accessor provenance, backend independence, the range locked by lock_meta. Byte equality across backends over histories is a consequence, not checked.",
         "bitflags constants from the crate's own definitions.", "3.C16", "term agreement across sibling formula sites + provenance"),
 "C17": ("Decides per-path clamp terms and must-store of rewind, overflow-freedom of the Current arm, the terms written by clear, and that a release after clear / rewind (a range above the cursor) has no effect.",
         "0 <= data_offset <= cap.", "3.C17", "must-pass-through + clamp terms + taint"),
 "C18": ("Decides ro guard, floor, copy length, cap/ptr refresh, absence of header effects, exclusivity (refs() == 1), the u32 bound of the request, failure atomicity of the file arm and the copy-on-write mode (recorded by every open wrapper as its mapping function says, stored by the constructor, consulted before any re-map).",
         "Re-map failure paths not judged.", "3.C18", "dominance + term + effect rules on truncate"),
 "C19": ("Decides that checksum feeds one hasher an ordered, gap-free, overlap-free cover of allocated_memory()[reserved..] for every length, page size and content: a symbolic consumed-position is propagated over the CFG with loop invariants checked at entry and over the back edge, exact product and div/mod arithmetic, and must equal data.len() at every return. Equality of the digest then rests on the streaming contract of Checksumer.",
         "Checksumer::update is a streaming fold (update(a); update(b) = update(a ++ b)); page_size() != 0; slice::chunks contract.", "3.C19", "position dataflow with checked loop invariants over MIR (ordered contiguous cover)"),
 "C20": ("Decides who writes discarded and by how much at each release class, accumulator = increments in discard_freelist, exit only on empty list, and that a release too small to become a segment is never linked (segment extent lemma).",
         "The counter wraps at 2^32: reported by D7 as a known finding (not repaired).", "3.C20", "who-writes + increment terms + dominance"),
}
NA = {
}

def main():
    rules_dir = os.path.join(VERIF, "analysis", "rules")
    claimed = sorted(re.match(r"c(\d+)\.py", f).group(0)[:-3].upper() for f in os.listdir(rules_dir) if re.match(r"c\d+\.py$", f))
    checks = []
    for pid in sorted(P):
        if pid not in claimed:
            continue
        text, note, ref, tech = P[pid]
        checks.append({
            "property_id": pid,
            "quick_cmd": "./check %s --tier quick" % pid,
            "thorough_cmd": "./check %s --tier thorough" % pid,
            "evidence_file": "/verif/evidence/%s.json" % pid,
            "replay_cmd_template": "./check %s --replay {path}" % pid,
            "engine": "rules",
            "level_claimed": {"category": "other", "text": text, "design_ref": "DESIGN.md " + ref},
            "level_note": note,
            "technique": "static analysis: " + tech,
        })
    na = [{"property_id": k, "reason": v} for k, v in sorted(NA.items())]
    for pid in sorted(P):
        if pid not in claimed:
            na.append({"property_id": pid, "reason": "not claimed yet: the static rules for this property are still being built (see DESIGN.md section 2.6); no other technique is substituted"})
    m = {
        "version": 1,
        "setup_cmd": "./setup.sh",
        "hooks": {"guard": "al8n_rarena_verif", "enable": "none needed: static analysis reads the tree as it is (the guard is unused)",
                  "baseline_off_cmd": "cd /repo && cargo test --workspace --no-fail-fast --offline", "source_commits": [], "add_only": True},
        "engines": [
            {"name": "mir-facts", "path": "driver/", "serves_properties": [c["property_id"] for c in checks], "kind_free_text": "rustc_private driver exporting type-checked, callee-resolved MIR of rarena-allocator as JSON facts (RUSTC_WORKSPACE_WRAPPER under cargo +nightly check)"},
            {"name": "rules", "path": "analysis/", "serves_properties": [c["property_id"] for c in checks], "kind_free_text": "Python rule engines over the facts: CFG/dominance, outcome edges, affine value numbering (sym.py), order prover (order.py), per-property rules (rules/)"},
        ],
        "checks": checks,
        "not_applicable": na,
        "notes": "Technique family: static analysis only. Nothing in a registered check executes the allocator, its tests, a model of it, or a solver. Exit 2 = machinery broken (missing anchor / count below floor). Repaired defects and known findings: known_findings.txt.",
    }
    with open(os.path.join(VERIF, "MANIFEST.json"), "w") as fh:
        json.dump(m, fh, indent=1)
    print("claimed:", [c["property_id"] for c in checks])

main()
