#!/bin/bash
# Re-bases every patch of mutants/expect.tsv onto /repo's current tree (same placement `patch` chooses today, which the self-test validates through the
# expected keys) so that later line shifts do not make a hunk with ambiguous context land in a sibling function.  Own mutants are rewritten in place; seeded
# patches keep their original patch.diff and get / refresh patch.rebased.diff (expect.tsv is pointed at it).
set -u
cd "$(dirname "$0")/.."
D=$(mktemp -d /var/tmp/refresh-XXXXXX); trap 'rm -rf "$D"' EXIT
rsync -a --exclude target --exclude .git /repo/ "$D/base/"
cut -f1 mutants/expect.tsv | grep -v '^#' | sort -u | while read -r p; do
  [ -z "$p" ] && continue
  rm -rf "$D/w"; cp -r "$D/base" "$D/w"
  if ! (cd "$D/w" && patch -p1 -s < "/verif/$p" >/dev/null 2>&1); then echo "NOAPPLY $p"; continue; fi
  find "$D/w" -name '*.orig' -delete
  out="$p"
  case "$p" in seeded/*/patch.diff) out="${p%patch.diff}patch.rebased.diff";; esac
  (cd "$D" && diff -U6 -r base w | sed 's#^--- base/#--- a/#; s#^+++ w/#+++ b/#; s#^diff -U6 -r base/\(.*\) w/.*#diff --git a/\1 b/\1#' > "/verif/$out") || true
  if [ "$out" != "$p" ]; then sed -i "s#^$p\t#$out\t#" mutants/expect.tsv; fi
done
