#!/bin/bash
# usage: tools/rebase_patch.sh <patch> <old-commit>   - re-bases a recorded patch that applied on <old-commit> of /repo onto /repo's HEAD with a
# cherry-pick in a scratch worktree (outside /repo and /verif, removed afterwards).  Prints REBASED or CONFLICT (with the conflicting hunks).
P=$(realpath "$1"); OLD=$2
D=$(mktemp -d /var/tmp/rb-XXXXXX); trap 'git -C /repo worktree remove --force "$D/w" 2>/dev/null; rm -rf "$D"' EXIT
git -C /repo worktree add -q --detach "$D/w" "$OLD" || exit 2
cd "$D/w"
patch -p1 -s < "$P" || { echo "NOAPPLY-ON-OLD $1"; exit 1; }
find . -name '*.orig' -delete
git commit -qam m
M=$(git rev-parse HEAD)
HEAD=$(git -C /repo rev-parse HEAD)
git checkout -q --detach "$HEAD"
if git cherry-pick "$M" >/dev/null 2>&1; then
  git diff "$HEAD" HEAD > "$P"; echo "REBASED $1"
else
  echo "CONFLICT $1"; git diff | head -${3:-80}; git cherry-pick --abort; exit 1
fi
