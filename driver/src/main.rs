// MIR fact exporter for the rarena static checks.
//
// Used as RUSTC_WORKSPACE_WRAPPER under `cargo +nightly check`: for the crate
// `rarena_allocator` (and only for it) it writes one JSON fact file (path in
// $FACTS_OUT) describing every MIR body, ADT and impl of the crate.  Nothing of
// the analysed crate is executed.
#![feature(rustc_private)]
#![feature(box_patterns)]
extern crate rustc_abi;
extern crate rustc_driver;
extern crate rustc_hir;
extern crate rustc_interface;
extern crate rustc_middle;
extern crate rustc_span;

use rustc_driver::Callbacks;
use rustc_hir::def::DefKind;
use rustc_hir::def_id::DefId;
use rustc_interface::interface::Compiler;
use rustc_middle::mir::*;
use rustc_middle::ty::{self, Instance, Ty, TyCtxt, TypeVisitableExt, TypingEnv};
use std::collections::BTreeMap;
use std::fmt::Write as _;

fn esc(s: &str) -> String {
    let mut o = String::with_capacity(s.len() + 2);
    o.push('"');
    for c in s.chars() {
        match c {
            '"' => o.push_str("\\\""),
            '\\' => o.push_str("\\\\"),
            '\n' => o.push_str("\\n"),
            c if (c as u32) < 0x20 => {
                let _ = write!(o, "\\u{:04x}", c as u32);
            }
            c => o.push(c),
        }
    }
    o.push('"');
    o
}

struct Cx<'tcx> {
    tcx: TyCtxt<'tcx>,
    // monomorphic types seen as generic args of calls -> (size, align)
    layouts: std::cell::RefCell<BTreeMap<String, (u64, u64)>>,
}

impl<'tcx> Cx<'tcx> {
    fn ty_str(&self, t: Ty<'tcx>) -> String {
        // closures print as {closure@file:line}; use the def path instead
        match t.kind() {
            ty::Closure(d, _) => format!("{{closure:{}}}", self.tcx.def_path_str(*d)),
            ty::Ref(_, inner, m) => format!("&{}{}", if m.is_mut() { "mut " } else { "" }, self.ty_str(*inner)),
            _ => t.to_string(),
        }
    }

    fn note_layout(&self, did: DefId, t: Ty<'tcx>) {
        if t.has_non_region_param() || t.has_aliases() {
            return;
        }
        let env = TypingEnv::post_analysis(self.tcx, did);
        if let Ok(l) = self.tcx.layout_of(env.as_query_input(t)) {
            self.layouts
                .borrow_mut()
                .insert(t.to_string(), (l.size.bytes(), l.align.abi.bytes()));
        }
    }

    fn place(&self, body: &Body<'tcx>, p: Place<'tcx>) -> String {
        let mut s = format!("{{\"l\":{},\"proj\":[", p.local.as_usize());
        let mut first = true;
        for (base, elem) in p.iter_projections() {
            if !first {
                s.push(',');
            }
            first = false;
            match elem {
                ProjectionElem::Deref => s.push_str("\"deref\""),
                ProjectionElem::Field(f, _) => {
                    let bty = base.ty(&body.local_decls, self.tcx);
                    let mut name = format!("{}", f.as_usize());
                    let mut adt = String::new();
                    if let ty::Adt(def, _) = bty.ty.kind() {
                        let vi = bty.variant_index.unwrap_or(rustc_abi::FIRST_VARIANT);
                        if let Some(v) = def.variants().get(vi) {
                            if let Some(fd) = v.fields.get(f) {
                                name = fd.name.to_string();
                            }
                        }
                        adt = self.tcx.def_path_str(def.did());
                    }
                    let _ = write!(s, "{{\"f\":{},\"i\":{},\"adt\":{}}}", esc(&name), f.as_usize(), esc(&adt));
                }
                ProjectionElem::Downcast(name, vi) => {
                    let n = name.map(|n| n.to_string()).unwrap_or_else(|| format!("{}", vi.as_usize()));
                    let _ = write!(s, "{{\"as\":{},\"vi\":{}}}", esc(&n), vi.as_usize());
                }
                ProjectionElem::Index(l) => {
                    let _ = write!(s, "{{\"idx\":{}}}", l.as_usize());
                }
                ProjectionElem::ConstantIndex { offset, from_end, .. } => {
                    let _ = write!(s, "{{\"cidx\":{},\"from_end\":{}}}", offset, from_end);
                }
                ProjectionElem::Subslice { from, to, from_end } => {
                    let _ = write!(s, "{{\"sub\":[{},{}],\"from_end\":{}}}", from, to, from_end);
                }
                other => {
                    let _ = write!(s, "{{\"other\":{}}}", esc(&format!("{:?}", other)));
                }
            }
        }
        s.push_str("]}");
        s
    }

    fn ref_scalar(&self, c: &ConstOperand<'tcx>, env: TypingEnv<'tcx>, inner: Ty<'tcx>) -> Option<u128> {
        let tcx = self.tcx;
        let val = c.const_.eval(tcx, env, c.span).ok()?;
        let ConstValue::Scalar(rustc_middle::mir::interpret::Scalar::Ptr(ptr, _)) = val else { return None };
        let (prov, offset) = ptr.into_raw_parts();
        let alloc = match tcx.global_alloc(prov.alloc_id()) {
            rustc_middle::mir::interpret::GlobalAlloc::Memory(a) => a,
            _ => return None,
        };
        let size = tcx.layout_of(env.as_query_input(inner)).ok()?.size.bytes_usize();
        if size == 0 || size > 16 {
            return None;
        }
        let start = offset.bytes_usize();
        let bytes = alloc.inner().inspect_with_uninit_and_ptr_outside_interpreter(start..start + size);
        let mut v: u128 = 0;
        for (i, b) in bytes.iter().enumerate() {
            v |= (*b as u128) << (8 * i);
        }
        Some(v)
    }

    fn operand(&self, body: &Body<'tcx>, did: DefId, o: &Operand<'tcx>) -> String {
        match o {
            Operand::Copy(p) => format!("{{\"copy\":{}}}", self.place(body, *p)),
            Operand::Move(p) => format!("{{\"move\":{}}}", self.place(body, *p)),
            Operand::Constant(c) => {
                let tcx = self.tcx;
                let ty = c.const_.ty();
                let mut int = String::from("null");
                let mut ref_int = String::from("null");
                let mut path = String::from("null");
                let mut fnp = String::from("null");
                if let ty::FnDef(fd, args) = ty.kind() {
                    fnp = esc(&format!(
                        "{}{}",
                        tcx.def_path_str(*fd),
                        if args.is_empty() {
                            String::new()
                        } else {
                            format!("::<{}>", args.iter().map(|a| a.to_string()).collect::<Vec<_>>().join(", "))
                        }
                    ));
                } else {
                    let env = TypingEnv::post_analysis(tcx, did);
                    if ty.is_integral() || ty.is_bool() || ty.is_char() {
                        if let Some(si) = c.const_.try_eval_scalar_int(tcx, env) {
                            int = format!("\"{}\"", si.to_bits_unchecked());
                        }
                    }
                    if let Const::Unevaluated(uv, _) = c.const_ {
                        path = esc(&tcx.def_path_str(uv.def));
                    }
                    // a promoted reference to a scalar (`x.cmp(&0)`): the value behind it
                    if let ty::Ref(_, inner, _) = ty.kind() {
                        if inner.is_integral() || inner.is_bool() {
                            ref_int = self.ref_scalar(c, env, *inner).map(|v| format!("\"{}\"", v)).unwrap_or_else(|| String::from("null"));
                        }
                    }
                }
                format!(
                    "{{\"const\":{{\"ty\":{},\"int\":{},\"ref_int\":{},\"path\":{},\"fn\":{},\"dbg\":{}}}}}",
                    esc(&self.ty_str(ty)),
                    int,
                    ref_int,
                    path,
                    fnp,
                    esc(&format!("{}", c.const_).chars().take(120).collect::<String>())
                )
            }
            #[allow(unreachable_patterns)]
            other => format!("{{\"other\":{}}}", esc(&format!("{:?}", other))),
        }
    }

    fn rvalue(&self, body: &Body<'tcx>, did: DefId, rv: &Rvalue<'tcx>) -> String {
        let tcx = self.tcx;
        match rv {
            Rvalue::Use(o, _) => format!("{{\"k\":\"use\",\"a\":{}}}", self.operand(body, did, o)),
            Rvalue::BinaryOp(op, box (a, b)) => format!(
                "{{\"k\":\"binop\",\"op\":{},\"a\":{},\"b\":{}}}",
                esc(&format!("{:?}", op)),
                self.operand(body, did, a),
                self.operand(body, did, b)
            ),
            Rvalue::UnaryOp(op, a) => {
                format!("{{\"k\":\"unop\",\"op\":{},\"a\":{}}}", esc(&format!("{:?}", op)), self.operand(body, did, a))
            }
            Rvalue::Cast(kind, a, ty) => format!(
                "{{\"k\":\"cast\",\"kind\":{},\"a\":{},\"ty\":{}}}",
                esc(&format!("{:?}", kind).split('(').next().unwrap_or("").to_string()),
                self.operand(body, did, a),
                esc(&self.ty_str(*ty))
            ),
            Rvalue::Ref(_, bk, p) => {
                format!("{{\"k\":\"ref\",\"mut\":{},\"p\":{}}}", matches!(bk, BorrowKind::Mut { .. }), self.place(body, *p))
            }
            Rvalue::RawPtr(_, p) => format!("{{\"k\":\"ref\",\"raw\":true,\"mut\":true,\"p\":{}}}", self.place(body, *p)),
            Rvalue::Discriminant(p) => format!("{{\"k\":\"discr\",\"p\":{}}}", self.place(body, *p)),
            Rvalue::CopyForDeref(p) => format!("{{\"k\":\"use\",\"a\":{{\"copy\":{}}}}}", self.place(body, *p)),
            Rvalue::Repeat(o, n) => {
                format!("{{\"k\":\"repeat\",\"a\":{},\"n\":{}}}", self.operand(body, did, o), esc(&format!("{}", n)))
            }
            Rvalue::Aggregate(box kind, ops) => {
                let k = match kind {
                    AggregateKind::Tuple => "\"tuple\"".to_string(),
                    AggregateKind::Array(_) => "\"array\"".to_string(),
                    AggregateKind::Adt(adid, vi, _, _, _) => {
                        let def = tcx.adt_def(*adid);
                        let v = def.variant(*vi);
                        let fields: Vec<String> = v.fields.iter().map(|f| esc(&f.name.to_string())).collect();
                        format!(
                            "{{\"adt\":{},\"variant\":{},\"vi\":{},\"fields\":[{}]}}",
                            esc(&tcx.def_path_str(*adid)),
                            esc(&v.name.to_string()),
                            vi.as_usize(),
                            fields.join(",")
                        )
                    }
                    AggregateKind::Closure(cd, _) => format!("{{\"closure\":{}}}", esc(&tcx.def_path_str(*cd))),
                    other => esc(&format!("{:?}", other)),
                };
                let os: Vec<String> = ops.iter().map(|o| self.operand(body, did, o)).collect();
                format!("{{\"k\":\"agg\",\"kind\":{},\"ops\":[{}]}}", k, os.join(","))
            }
            other => format!("{{\"k\":\"other\",\"dbg\":{}}}", esc(&format!("{:?}", other).chars().take(120).collect::<String>())),
        }
    }
}

struct Cb;
impl Callbacks for Cb {
    fn after_analysis<'tcx>(&mut self, _c: &Compiler, tcx: TyCtxt<'tcx>) -> rustc_driver::Compilation {
        let krate = tcx.crate_name(rustc_hir::def_id::LOCAL_CRATE);
        let want = std::env::var("FACTS_CRATE").unwrap_or_else(|_| "rarena_allocator".into());
        if krate.as_str() != want {
            return rustc_driver::Compilation::Continue;
        }
        let cx = Cx { tcx, layouts: Default::default() };
        let sm = tcx.sess.source_map();
        let mut out = String::new();
        let _ = write!(out, "{{\"crate\":{},\"rustc\":{},\n\"bodies\":[\n", esc(krate.as_str()), esc(&rustc_interface::util::rustc_version_str().unwrap_or("?").to_string()));
        let mut firstb = true;
        let mut nbodies = 0usize;
        for ldid in tcx.mir_keys(()) {
            let did = ldid.to_def_id();
            let kind = tcx.def_kind(did);
            if !matches!(kind, DefKind::Fn | DefKind::AssocFn | DefKind::Closure) {
                continue;
            }
            let body = tcx.optimized_mir(did);
            nbodies += 1;
            if !firstb {
                out.push_str(",\n");
            }
            firstb = false;
            let span = tcx.def_span(did);
            let loc = sm.lookup_char_pos(span.lo());
            let is_fn = matches!(kind, DefKind::Fn | DefKind::AssocFn);
            let vis = if is_fn { format!("{:?}", tcx.visibility(did)) } else { "closure".to_string() };
            let vis = if vis.contains("Public") { "pub".to_string() } else if vis == "closure" { vis } else { "restricted".to_string() };
            let is_unsafe = if is_fn { tcx.fn_sig(did).skip_binder().safety().is_unsafe() } else { false };
            // impl / trait container
            let mut impl_self = String::from("null");
            let mut impl_trait = String::from("null");
            let mut in_trait = String::from("null");
            if matches!(kind, DefKind::AssocFn) {
                let parent = tcx.parent(did);
                match tcx.def_kind(parent) {
                    DefKind::Impl { of_trait } => {
                        impl_self = esc(&tcx.type_of(parent).instantiate_identity().skip_norm_wip().to_string());
                        if of_trait {
                            let tr = tcx.impl_trait_ref(parent).instantiate_identity().skip_norm_wip();
                            impl_trait = esc(&tcx.def_path_str(tr.def_id));
                        }
                    }
                    DefKind::Trait => {
                        in_trait = esc(&tcx.def_path_str(parent));
                    }
                    _ => {}
                }
            }
            let mut names = vec![String::from("null"); body.local_decls.len()];
            let mut upvars: Vec<String> = vec![];
            for v in &body.var_debug_info {
                if let VarDebugInfoContents::Place(p) = v.value {
                    if p.projection.is_empty() {
                        names[p.local.as_usize()] = esc(&v.name.to_string());
                    } else {
                        upvars.push(format!("{{\"name\":{},\"place\":{}}}", esc(&v.name.to_string()), cx.place(body, p)));
                    }
                }
            }
            let locals: Vec<String> = body
                .local_decls
                .iter_enumerated()
                .map(|(l, d)| format!("{{\"ty\":{},\"name\":{}}}", esc(&cx.ty_str(d.ty)), names[l.as_usize()]))
                .collect();
            // the generic parameters in the order a call's generic arguments are listed (parent's first)
            let generics: Vec<String> = if matches!(kind, DefKind::Fn | DefKind::AssocFn) {
                ty::GenericArgs::identity_for_item(tcx, did).iter().map(|a| esc(&a.to_string())).collect()
            } else {
                vec![]
            };
            let parent_fn = if matches!(kind, DefKind::Closure) { esc(&tcx.def_path_str(tcx.typeck_root_def_id(did))) } else { "null".to_string() };
            let _ = write!(
                out,
                "{{\"path\":{},\"kind\":{},\"vis\":{},\"unsafe\":{},\"impl_self\":{},\"impl_trait\":{},\"in_trait\":{},\"parent_fn\":{},\"file\":{},\"line\":{},\"macro\":{},\"nargs\":{},\"generics\":[{}],\"locals\":[{}],\"upvars\":[{}],\"blocks\":[",
                esc(&tcx.def_path_str(did)),
                esc(&format!("{:?}", kind)),
                esc(&vis),
                is_unsafe,
                impl_self,
                impl_trait,
                in_trait,
                parent_fn,
                esc(&format!("{}", loc.file.name.prefer_local_unconditionally())),
                loc.line,
                span.from_expansion(),
                body.arg_count,
                generics.join(","),
                locals.join(","),
                upvars.join(",")
            );
            let mut fb = true;
            for bb in body.basic_blocks.iter() {
                if !fb {
                    out.push(',');
                }
                fb = false;
                let _ = write!(out, "{{\"cleanup\":{},\"stmts\":[", bb.is_cleanup);
                let mut fs = true;
                for st in &bb.statements {
                    let l = sm.lookup_char_pos(st.source_info.span.lo()).line;
                    let mac = st.source_info.span.from_expansion();
                    match &st.kind {
                        StatementKind::Assign(box (p, rv)) => {
                            if !fs {
                                out.push(',');
                            }
                            fs = false;
                            let _ = write!(out, "{{\"place\":{},\"rv\":{},\"line\":{},\"mac\":{}}}", cx.place(body, *p), cx.rvalue(body, did, rv), l, mac);
                        }
                        StatementKind::SetDiscriminant { place, variant_index } => {
                            if !fs {
                                out.push(',');
                            }
                            fs = false;
                            let _ = write!(out, "{{\"place\":{},\"rv\":{{\"k\":\"setdiscr\",\"vi\":{}}},\"line\":{},\"mac\":{}}}", cx.place(body, **place), variant_index.as_usize(), l, mac);
                        }
                        StatementKind::Intrinsic(box ni) => {
                            if !fs {
                                out.push(',');
                            }
                            fs = false;
                            let _ = write!(out, "{{\"place\":{{\"l\":0,\"proj\":[]}},\"rv\":{{\"k\":\"intrinsic\",\"dbg\":{}}},\"line\":{},\"mac\":{}}}", esc(&format!("{:?}", ni).chars().take(160).collect::<String>()), l, mac);
                        }
                        _ => {}
                    }
                }
                out.push_str("],\"term\":");
                let t = bb.terminator();
                let tl = sm.lookup_char_pos(t.source_info.span.lo()).line;
                let tmac = t.source_info.span.from_expansion();
                match &t.kind {
                    TerminatorKind::Goto { target } => {
                        let _ = write!(out, "{{\"k\":\"goto\",\"t\":{}}}", target.as_usize());
                    }
                    TerminatorKind::SwitchInt { discr, targets } => {
                        let arms: Vec<String> = targets.iter().map(|(v, t)| format!("[\"{}\",{}]", v, t.as_usize())).collect();
                        let _ = write!(
                            out,
                            "{{\"k\":\"switch\",\"op\":{},\"arms\":[{}],\"otherwise\":{},\"line\":{}}}",
                            cx.operand(body, did, discr),
                            arms.join(","),
                            targets.otherwise().as_usize(),
                            tl
                        );
                    }
                    TerminatorKind::Return => {
                        let _ = write!(out, "{{\"k\":\"ret\",\"line\":{}}}", tl);
                    }
                    TerminatorKind::Unreachable => out.push_str("{\"k\":\"unreachable\"}"),
                    TerminatorKind::Drop { place, target, .. } => {
                        let pty = place.ty(&body.local_decls, tcx).ty;
                        let _ = write!(out, "{{\"k\":\"drop\",\"p\":{},\"ty\":{},\"t\":{},\"line\":{}}}", cx.place(body, *place), esc(&cx.ty_str(pty)), target.as_usize(), tl);
                    }
                    TerminatorKind::Call { func, args, destination, target, .. } => {
                        let mut callee = String::from("null");
                        let mut resolved = String::from("null");
                        let mut substs = String::from("[]");
                        let mut self_ty = String::from("null");
                        if let Operand::Constant(c) = func {
                            if let ty::FnDef(fd, ga) = c.const_.ty().kind() {
                                callee = esc(&tcx.def_path_str(*fd));
                                substs = format!("[{}]", ga.iter().map(|a| match a.as_type() { Some(t) => esc(&cx.ty_str(t)), None => esc(&a.to_string()) }).collect::<Vec<_>>().join(","));
                                for a in ga.iter() {
                                    if let Some(t) = a.as_type() {
                                        cx.note_layout(did, t);
                                    }
                                }
                                if let Some(a0) = ga.iter().next().and_then(|a| a.as_type()) {
                                    self_ty = esc(&cx.ty_str(a0));
                                }
                                let env = TypingEnv::post_analysis(tcx, did);
                                if let Ok(Some(inst)) = Instance::try_resolve(tcx, env, *fd, ga) {
                                    resolved = esc(&tcx.def_path_str(inst.def_id()));
                                }
                            }
                        }
                        let fop = if callee == "null" { cx.operand(body, did, func) } else { "null".to_string() };
                        let a: Vec<String> = args.iter().map(|o| cx.operand(body, did, &o.node)).collect();
                        let _ = write!(
                            out,
                            "{{\"k\":\"call\",\"callee\":{},\"substs\":{},\"self_ty\":{},\"resolved\":{},\"fop\":{},\"args\":[{}],\"dest\":{},\"ret\":{},\"line\":{},\"mac\":{}}}",
                            callee,
                            substs,
                            self_ty,
                            resolved,
                            fop,
                            a.join(","),
                            cx.place(body, *destination),
                            target.map(|t| t.as_usize().to_string()).unwrap_or("null".into()),
                            tl,
                            tmac
                        );
                    }
                    TerminatorKind::Assert { cond, expected, msg, target, .. } => {
                        let mut ops = String::from("[]");
                        let k = match &**msg {
                            AssertKind::Overflow(op, a, b) => {
                                ops = format!("[{},{}]", cx.operand(body, did, a), cx.operand(body, did, b));
                                format!("overflow:{:?}", op)
                            }
                            AssertKind::OverflowNeg(a) => {
                                ops = format!("[{}]", cx.operand(body, did, a));
                                "overflow:Neg".to_string()
                            }
                            AssertKind::BoundsCheck { len, index } => {
                                ops = format!("[{},{}]", cx.operand(body, did, len), cx.operand(body, did, index));
                                "bounds".to_string()
                            }
                            AssertKind::DivisionByZero(_) => "div0".to_string(),
                            AssertKind::RemainderByZero(_) => "rem0".to_string(),
                            AssertKind::MisalignedPointerDereference { .. } => "misaligned".to_string(),
                            AssertKind::NullPointerDereference => "null".to_string(),
                            other => format!("{:?}", other).split('(').next().unwrap_or("other").to_string(),
                        };
                        let _ = write!(
                            out,
                            "{{\"k\":\"assert\",\"cond\":{},\"expected\":{},\"kind\":{},\"ops\":{},\"ok\":{},\"line\":{}}}",
                            cx.operand(body, did, cond),
                            expected,
                            esc(&k),
                            ops,
                            target.as_usize(),
                            tl
                        );
                    }
                    TerminatorKind::UnwindResume => out.push_str("{\"k\":\"resume\"}"),
                    other => {
                        let _ = write!(out, "{{\"k\":\"other\",\"dbg\":{}}}", esc(&format!("{:?}", other).chars().take(80).collect::<String>()));
                    }
                }
                out.push('}');
            }
            out.push_str("]}");
        }
        out.push_str("\n],\n\"adts\":[\n");
        // ADTs, impls
        let mut first = true;
        let mut impls = String::new();
        let mut first_impl = true;
        for id in tcx.hir_free_items() {
            let did = id.owner_id.to_def_id();
            match tcx.def_kind(did) {
                DefKind::Struct | DefKind::Enum | DefKind::Union => {
                    let def = tcx.adt_def(did);
                    if !first {
                        out.push_str(",\n");
                    }
                    first = false;
                    let repr = format!("{:?}", def.repr());
                    let mut vs: Vec<String> = vec![];
                    for (vi, v) in def.variants().iter_enumerated() {
                        let discr = if def.is_enum() { format!("\"{}\"", def.discriminant_for_variant(tcx, vi).val) } else { "null".to_string() };
                        let fs: Vec<String> = v
                            .fields
                            .iter()
                            .map(|f| {
                                let fty = tcx.type_of(f.did).instantiate_identity().skip_norm_wip();
                                format!("{{\"name\":{},\"ty\":{},\"pub\":{}}}", esc(&f.name.to_string()), esc(&fty.to_string()), tcx.visibility(f.did).is_public())
                            })
                            .collect();
                        vs.push(format!("{{\"name\":{},\"discr\":{},\"fields\":[{}]}}", esc(&v.name.to_string()), discr, fs.join(",")));
                    }
                    let loc = sm.lookup_char_pos(tcx.def_span(did).lo());
                    let _ = write!(
                        out,
                        "{{\"path\":{},\"kind\":{},\"repr\":{},\"pub\":{},\"has_drop\":{},\"file\":{},\"line\":{},\"variants\":[{}]}}",
                        esc(&tcx.def_path_str(did)),
                        esc(&format!("{:?}", tcx.def_kind(did))),
                        esc(&repr),
                        tcx.visibility(did).is_public(),
                        def.has_dtor(tcx),
                        esc(&format!("{}", loc.file.name.prefer_local_unconditionally())),
                        loc.line,
                        vs.join(",")
                    );
                }
                DefKind::Impl { of_trait } => {
                    if !first_impl {
                        impls.push_str(",\n");
                    }
                    first_impl = false;
                    let self_ty = tcx.type_of(did).instantiate_identity().skip_norm_wip().to_string();
                    let mut tr = String::from("null");
                    let mut is_unsafe = false;
                    let mut negative = false;
                    if of_trait {
                        let r = tcx.impl_trait_ref(did).instantiate_identity().skip_norm_wip();
                        tr = esc(&tcx.def_path_str(r.def_id));
                        let hdr = tcx.impl_trait_header(did);
                        is_unsafe = hdr.safety.is_unsafe();
                        negative = matches!(hdr.polarity, ty::ImplPolarity::Negative);
                    }
                    let items: Vec<String> = tcx.associated_item_def_ids(did).iter().map(|d| esc(&tcx.def_path_str(*d))).collect();
                    // the impl's own where-clauses / generic bounds (`T: Send`, `A: Allocator + Sync`, ...)
                    let preds: Vec<String> = tcx.predicates_of(did).predicates.iter().map(|(c, _)| esc(&format!("{:?}", c))).collect();
                    let loc = sm.lookup_char_pos(tcx.def_span(did).lo());
                    let _ = write!(
                        impls,
                        "{{\"self_ty\":{},\"trait\":{},\"unsafe\":{},\"negative\":{},\"preds\":[{}],\"macro\":{},\"file\":{},\"line\":{},\"items\":[{}]}}",
                        esc(&self_ty),
                        tr,
                        is_unsafe,
                        negative,
                        preds.join(","),
                        tcx.def_span(did).from_expansion(),
                        esc(&format!("{}", loc.file.name.prefer_local_unconditionally())),
                        loc.line,
                        items.join(",")
                    );
                }
                _ => {}
            }
        }
        out.push_str("\n],\n\"impls\":[\n");
        out.push_str(&impls);
        out.push_str("\n],\n\"layouts\":{");
        let lay = cx.layouts.borrow();
        let ls: Vec<String> = lay.iter().map(|(k, (s, a))| format!("{}:[{},{}]", esc(k), s, a)).collect();
        out.push_str(&ls.join(","));
        out.push_str("},\n\"ext_enums\":[");
        // enums of other crates that the crate's bodies hold in a local (their variant names give meaning to a discriminant test)
        {
            let mut seen: std::collections::BTreeMap<String, String> = Default::default();
            for ldid in tcx.mir_keys(()) {
                let did = ldid.to_def_id();
                if !matches!(tcx.def_kind(did), DefKind::Fn | DefKind::AssocFn | DefKind::Closure) {
                    continue;
                }
                let body = tcx.optimized_mir(did);
                for decl in body.local_decls.iter() {
                    for arg in decl.ty.walk() {
                        if let Some(t) = arg.as_type() {
                            if let ty::Adt(def, _) = t.kind() {
                                if def.is_enum() && !def.did().is_local() {
                                    let path = tcx.def_path_str(def.did());
                                    if seen.contains_key(&path) {
                                        continue;
                                    }
                                    let vs: Vec<String> = def
                                        .variants()
                                        .iter_enumerated()
                                        .map(|(vi, v)| format!("{{\"name\":{},\"discr\":\"{}\"}}", esc(&v.name.to_string()), def.discriminant_for_variant(tcx, vi).val))
                                        .collect();
                                    seen.insert(path.clone(), format!("{{\"path\":{},\"variants\":[{}]}}", esc(&path), vs.join(",")));
                                }
                            }
                        }
                    }
                }
            }
            let v: Vec<String> = seen.into_values().collect();
            out.push_str(&v.join(","));
        }
        let _ = write!(out, "],\n\"nbodies\":{}}}\n", nbodies);
        let path = std::env::var("FACTS_OUT").unwrap_or_else(|_| "/tmp/facts.json".into());
        std::fs::write(&path, out).unwrap();
        eprintln!("FACTS written {} ({} bodies)", path, nbodies);
        rustc_driver::Compilation::Continue
    }
}

fn main() {
    let mut args: Vec<String> = std::env::args().collect();
    args.remove(1);
    rustc_driver::run_compiler(&args, &mut Cb);
}
