//! Compile-fail witnesses for the type-level premises of the static rules.
//!
//! Every witness is a `compile_fail,E0xxx` doc-test that names the crate as an external user would, paired with a
//! `no_run` twin that differs only by the offending line - so a witness cannot pass merely because a path is wrong.
//! Nothing of the allocator is executed (`no_run` twins are only compiled).

/// W1 (C13: the arena outlives its borrowed handles) - a `BytesRefMut` cannot outlive the arena it borrows.
/// ```compile_fail,E0597
/// use rarena_allocator::{sync::Arena, Options, Allocator};
/// let b;
/// {
///   let arena = Options::new().with_capacity(100).alloc::<Arena>().unwrap();
///   b = arena.alloc_bytes(8).unwrap();
/// }
/// let _ = b.len();
/// ```
/// twin (the arena declared in the enclosing scope, so it is dropped after the handle):
/// ```no_run
/// use rarena_allocator::{sync::Arena, Options, Allocator};
/// let arena = Options::new().with_capacity(100).alloc::<Arena>().unwrap();
/// let b;
/// {
///   b = arena.alloc_bytes(8).unwrap();
/// }
/// let _ = b.len();
/// ```
pub struct W1;

/// W2 (C13) - the arena cannot be moved (e.g. dropped) while a borrowed typed handle is live.
/// ```compile_fail,E0505
/// use rarena_allocator::{sync::Arena, Options, Allocator, Buffer};
/// let arena = Options::new().with_capacity(100).alloc::<Arena>().unwrap();
/// let r = unsafe { arena.alloc::<u64>().unwrap() };
/// drop(arena);
/// let _ = r.capacity();
/// ```
/// twin:
/// ```no_run
/// use rarena_allocator::{sync::Arena, Options, Allocator, Buffer};
/// let arena = Options::new().with_capacity(100).alloc::<Arena>().unwrap();
/// let r = unsafe { arena.alloc::<u64>().unwrap() };
/// let _ = r.capacity();
/// drop(r);
/// drop(arena);
/// ```
pub struct W2;

/// W3 (C02 / C12: the plain-store flavour can never be shared) - `unsync::Arena` is neither `Send` nor `Sync`.
/// ```compile_fail,E0277
/// fn need_send<T: Send>() {}
/// need_send::<rarena_allocator::unsync::Arena>();
/// ```
/// ```compile_fail,E0277
/// fn need_sync<T: Sync>() {}
/// need_sync::<rarena_allocator::unsync::Arena>();
/// ```
/// twin (`sync::Arena` is both):
/// ```no_run
/// fn need_send<T: Send>() {}
/// fn need_sync<T: Sync>() {}
/// need_send::<rarena_allocator::sync::Arena>();
/// need_sync::<rarena_allocator::sync::Arena>();
/// ```
pub struct W3;

/// W4 (C02 / C12) - owned handles of the single-threaded flavour cannot cross threads either.
/// ```compile_fail,E0277
/// fn need_send<T: Send>() {}
/// need_send::<rarena_allocator::BytesMut<rarena_allocator::unsync::Arena>>();
/// ```
/// ```compile_fail,E0277
/// fn need_send<T: Send>() {}
/// need_send::<rarena_allocator::Owned<u64, rarena_allocator::unsync::Arena>>();
/// ```
/// twin:
/// ```no_run
/// fn need_send<T: Send>() {}
/// need_send::<rarena_allocator::BytesMut<rarena_allocator::sync::Arena>>();
/// need_send::<rarena_allocator::Owned<u64, rarena_allocator::sync::Arena>>();
/// ```
pub struct W4;

/// W5 (C18: truncate has exclusive access) - `truncate(&mut self)` cannot be called while a borrowed handle is live.
/// ```compile_fail,E0502
/// use rarena_allocator::{unsync::Arena, Options, Allocator};
/// let mut arena = Options::new().with_capacity(100).alloc::<Arena>().unwrap();
/// let b = arena.alloc_bytes(8).unwrap();
/// let _ = arena.truncate(200);
/// let _ = b.len();
/// ```
/// twin:
/// ```no_run
/// use rarena_allocator::{unsync::Arena, Options, Allocator};
/// let mut arena = Options::new().with_capacity(100).alloc::<Arena>().unwrap();
/// let b = arena.alloc_bytes(8).unwrap();
/// let _ = b.len();
/// drop(b);
/// let _ = arena.truncate(200);
/// ```
pub struct W5;

/// W6 (C13: exactly once) - handles are not `Clone`.
/// ```compile_fail,E0599
/// use rarena_allocator::{sync::Arena, Options, Allocator};
/// let arena = Options::new().with_capacity(100).alloc::<Arena>().unwrap();
/// let r = unsafe { arena.alloc::<u64>().unwrap() };
/// let _r2 = r.clone();
/// ```
/// ```compile_fail,E0599
/// use rarena_allocator::{sync::Arena, Options, Allocator};
/// let arena = Options::new().with_capacity(100).alloc::<Arena>().unwrap();
/// let o = unsafe { arena.alloc_owned::<u64>().unwrap() };
/// let _o2 = o.clone();
/// ```
/// twin:
/// ```no_run
/// use rarena_allocator::{sync::Arena, Options, Allocator};
/// let arena = Options::new().with_capacity(100).alloc::<Arena>().unwrap();
/// let r = unsafe { arena.alloc::<u64>().unwrap() };
/// let o = unsafe { arena.alloc_owned::<u64>().unwrap() };
/// let _a2 = arena.clone();
/// drop((r, o));
/// ```
pub struct W6;

/// W7 (C01 / C13: extents only come from allocation) - `Meta` cannot be built, and a handle's `Meta` cannot be touched,
/// outside the crate; the raw handle constructors are not nameable.
/// ```compile_fail,E0451
/// let _m = rarena_allocator::Meta { parent_ptr: core::ptr::null(), memory_offset: 0, memory_size: 0, ptr_offset: 0, ptr_size: 0 };
/// ```
/// ```compile_fail,E0616
/// use rarena_allocator::{sync::Arena, Options, Allocator};
/// let arena = Options::new().with_capacity(100).alloc::<Arena>().unwrap();
/// let mut b = arena.alloc_bytes(8).unwrap();
/// b.allocated.ptr_size = 1 << 20;
/// ```
/// ```compile_fail,E0624
/// use rarena_allocator::{sync::Arena, Options, Allocator};
/// let arena = Options::new().with_capacity(100).alloc::<Arena>().unwrap();
/// let _b = rarena_allocator::BytesRefMut::null(&arena);
/// ```
/// twin:
/// ```no_run
/// use rarena_allocator::{sync::Arena, Options, Allocator, Buffer};
/// let arena = Options::new().with_capacity(100).alloc::<Arena>().unwrap();
/// let b = arena.alloc_bytes(8).unwrap();
/// let _ = (b.offset(), b.capacity(), b.buffer_offset(), b.buffer_capacity());
/// let _o = arena.alloc_bytes_owned(8).unwrap();
/// ```
pub struct W7;

/// W8 (C11: exactly two implementations exist) - `Allocator` is sealed: it cannot be implemented downstream.
/// ```compile_fail,E0277
/// struct Mine;
/// impl rarena_allocator::Allocator for Mine {}
/// ```
/// twin (using the trait is fine):
/// ```no_run
/// fn cap<A: rarena_allocator::Allocator>(a: &A) -> usize { a.capacity() }
/// let _ = cap::<rarena_allocator::sync::Arena>;
/// let _ = cap::<rarena_allocator::unsync::Arena>;
/// ```
pub struct W8;

/// W9 (C12: the arena's own `unsafe impl`s must not create races) - an owned typed handle crosses threads only if its value may.
/// ```compile_fail,E0277
/// fn need_send<T: Send>() {}
/// need_send::<rarena_allocator::Owned<std::rc::Rc<u8>, rarena_allocator::sync::Arena>>();
/// ```
/// ```compile_fail,E0277
/// fn need_sync<T: Sync>() {}
/// need_sync::<rarena_allocator::Owned<core::cell::Cell<u8>, rarena_allocator::sync::Arena>>();
/// ```
/// twin:
/// ```no_run
/// fn need_send<T: Send>() {}
/// fn need_sync<T: Sync>() {}
/// need_send::<rarena_allocator::Owned<u64, rarena_allocator::sync::Arena>>();
/// need_sync::<rarena_allocator::Owned<u64, rarena_allocator::sync::Arena>>();
/// ```
pub struct W9;
