"""Helpers shared by the rule files."""
import re
from sym import Lin, as_lin, add, sub, const, tag, show, is_const, norm, struct_get, implied_facts
from order import Order, term_eq

INT_SIZE = {"u8": 1, "i8": 1, "u16": 2, "i16": 2, "u32": 4, "i32": 4, "u64": 8, "i64": 8, "u128": 16, "i128": 16, "usize": 8, "isize": 8}


def canon(t, immut=None, depth=0):
    """Drop heap-version tags: ('hload', base, path, ver) -> field chain, for loads whose first path element is in
    `immut` (all loads when immut is None).  Only for fields the caller knows to be immutable during the
    evaluated function (checked separately by WHO rules)."""
    if depth > 40:
        return t
    if isinstance(t, Lin):
        out = const(t.c)
        for a, c in t.m.items():
            ca = canon(a, immut, depth + 1)
            from sym import scale
            out = add(out, scale(ca, c))
        return out
    if isinstance(t, tuple):
        if tag(t) == "hload" and (immut is None or (t[2] and t[2][0] in immut)):
            v = canon(t[1], immut, depth + 1)
            for p in t[2]:
                v = ("field", v, p) if not isinstance(p, tuple) else ("downcast", v, p[1])
            return v
        if tag(t) == "phi":
            return t
        return tuple(canon(x, immut, depth + 1) if isinstance(x, (tuple, Lin)) else x for x in t)
    return t


def field(base, *names):
    v = base
    for n in names:
        v = ("field", v, n)
    return v


def param(i, name):
    return ("param", i, name)


WRITE_EFFECTS = ("write_bytes", "copy", "ptr_write", "copy_from_slice")


def is_raw_write(e):
    return e["kind"] == "call" and e.get("effect") in WRITE_EFFECTS


def is_atomic_write(e):
    return e["kind"] == "call" and e.get("atomic") in ("store", "compare_exchange", "compare_exchange_weak", "fetch_add", "fetch_sub", "swap", "fetch_or", "fetch_and")


def is_heap_store(e):
    return e["kind"] == "store" and e.get("how") == "store"


def term_contains(t, pred, depth=0):
    if depth > 60:
        return False
    if pred(t):
        return True
    if isinstance(t, Lin):
        return any(term_contains(a, pred, depth + 1) for a in t.m)
    if isinstance(t, tuple):
        return any(term_contains(x, pred, depth + 1) for x in t if isinstance(x, (tuple, Lin)))
    return False


def mentions(t, sub_t):
    return term_contains(t, lambda x: x == sub_t)


class _LazyOrder(Order):
    """An order over the facts that dominate a program point which, when a comparison cannot be proved from them, tries once more with the literals that every
    satisfiable disjunct of the point's exact path condition shares: after `if !(a != M && n > a) { .. }` and a later `a != M`, `n <= a` holds on every path
    although no single branch says so."""

    def __init__(self, fs, extra, more):
        Order.__init__(self, fs, extra_ge0=extra)
        self._more = more
        self._extra = extra
        self._base = set(fs)
        self._wide = None
        self._added = []

    def add_fact(self, f):
        if hasattr(self, "_added"):
            self._added.append(f)
        return Order.add_fact(self, f)

    def _widened(self):
        if self._wide is None:
            more = self._more() if self._more is not None else None
            self._wide = False
            if more:
                new = set(more) - self._base
                if new:
                    o = Order(self._base | new, extra_ge0=self._extra)
                    for f in self._added:
                        o.add_fact(f)
                    self._wide = o
        return self._wide

    def le(self, a, b):
        if Order.le(self, a, b):
            return True
        w = self._widened()
        return bool(w) and w.le(a, b)


def common_path_literals(ev, e, immut=None):
    """literals shared by every satisfiable disjunct of the exact path condition of an entry, in its own frame (None when that condition is not available)"""
    import dnf as D
    res, body = e.get("res"), e.get("body")
    if res is None or body is None or e.get("bb") is None:
        return None     # (for an entry of an inlined callee: the condition inside that callee's frame)
    try:
        d = D.block_dnf(ev, res, body, e["bb"], lit=lambda f: canon(f, immut))
    except Exception:
        return None
    if not d:
        return None
    d = [c for c in d if not D.conj_unsat(c)]
    if not d or len(d) > 24:
        return None
    common = set(d[0])
    for c in d[1:]:
        common &= set(c)
    return set(f for f in common if isinstance(f, tuple) and f and f[0] == "cmp")


def order_for(ctx, ev, e, extra=(), immut=None):
    fs = ctx.facts_of(ev, e)
    fs = set(canon(f, immut) for f in fs)
    return _LazyOrder(fs, extra, lambda: common_path_literals(ev, e, immut)), fs


def ok_cas_facts(fs):
    """CAS terms known to have succeeded under fact set fs"""
    ok = set()
    for f in fs:
        if f[0] == "discr" and tag(f[1]) == "cas" and f[2] == ("eq", 0):
            ok.add(f[1])
        elif f[0] == "is" and tag(f[2]) == "cas":
            if (f[1] == "is_err" and f[3] is False) or (f[1] == "is_ok" and f[3] is True):
                ok.add(f[2])
    return ok


def failed_cas_facts(fs):
    bad = set()
    for f in fs:
        if f[0] == "discr" and tag(f[1]) == "cas" and f[2] == ("eq", 1):
            bad.add(f[1])
        elif f[0] == "is" and tag(f[2]) == "cas":
            if (f[1] == "is_err" and f[3] is True) or (f[1] == "is_ok" and f[3] is False):
                bad.add(f[2])
    return bad


def variant_name(v):
    if tag(v) == "variant":
        return v[2]
    return None


def unwrap_variant(v, *names):
    """Ok(Some(x)) -> x following the given variant names; None if shape differs"""
    for n in names:
        if tag(v) == "variant" and v[2] == n and len(v[3]) >= 1:
            v = v[3][0]
        elif tag(v) == "vsum":
            d = dict(v[2])
            if n in d and len(d[n]) >= 1:
                v = d[n][0]
            else:
                return None
        else:
            return None
    return v


def top_entries(res):
    """entries of the evaluated function itself (not of inlined callees)"""
    return [e for e in res.log if not e["chain"]]


def short(t, n=220):
    s = show(t)
    return s if len(s) <= n else s[: n - 1] + "…"


def ptr_general(t, depth=0):
    """phi{B | B + o}  ->  B + o.  get_pointer/get_pointer_mut return the bare base only under `offset == 0`
    (rule C15-R0 checks exactly that), so the general alternative denotes both."""
    if depth > 30:
        return t
    if isinstance(t, Lin):
        out = const(t.c)
        from sym import scale
        for a, c in t.m.items():
            out = add(out, scale(ptr_general(a, depth + 1), c))
        return out
    if isinstance(t, tuple):
        if tag(t) == "phi" and len(t) > 3:
            alts = [ptr_general(x, depth + 1) for x in t[3]]
            if len(alts) == 2:
                a, b = alts
                for base, gen in ((a, b), (b, a)):
                    try:
                        d = sub(gen, base)
                    except Exception:
                        continue
                    if isinstance(gen, Lin) and not isinstance(d, Lin) or (isinstance(d, Lin) and len(d.m) == 1 and d.c == 0 and all(v == 1 for v in d.m.values())):
                        if base != gen:
                            return gen
            return t
        return tuple(ptr_general(x, depth + 1) if isinstance(x, (tuple, Lin)) else x for x in t)
    return t


def overflow_discharged(order, e):
    """An Add/Sub/Mul site: discharged when the dominating facts bound the result inside the operand type."""
    op, a, b = e["op"], e["a"], e["b"]
    if op == "Sub":
        return order.le(b, a)
    if op == "Add":
        s = add(a, b)
        cands = set()
        for f in order.ge0:
            for at, c in f.m.items():
                if c == 1:
                    cands.add(at)
        for x in cands:
            if order.le(s, x):
                return True
        if is_const(a) and is_const(b):
            return True
        return False
    if op == "Mul":
        return is_const(a) and is_const(b)
    return False


def phi_alternatives(ctx, ev, res, v, join_bb=None, depth=0):
    """Flatten a (nested) phi value of `res`'s own frame into [(value, guards)] - one entry per incoming path class.
    Guards are those of the CFG edge the alternative arrived on."""
    out = []
    if tag(v) == "phi" and len(v) > 4 and depth < 6:
        site = v[1]
        # the join block is encoded at the end of the site: '<fn>@<bb>'
        try:
            jb = int(str(site[-1]).split("@")[-1])
        except ValueError:
            jb = None
        for alt, origin in zip(v[3], v[4]):
            if origin is None or jb is None:
                out.append((alt, None))
                continue
            sub_alts = phi_alternatives(ctx, ev, res, alt, jb, depth + 1) if tag(alt) == "phi" else None
            if sub_alts and all(g is not None for _, g in sub_alts):
                out.extend(sub_alts)
            else:
                out.append((alt, ev.guards_edge(res, origin, jb)))
        return out
    return [(v, None)]


def callee_variant_facts(ctx, ev, call_entry, variant_path):
    """Facts that hold whenever the inlined callee of `call_entry` returned a value of the given variant shape
    (e.g. ('Some',)): the intersection of the guards of every own-frame `ret0` of the callee producing that variant."""
    sub_res = call_entry.get("sub")
    if sub_res is None:
        return set()
    common = None
    for e in sub_res.log:
        if e["kind"] != "ret0" or e["res"] is not sub_res:
            continue
        v = e["value"]
        ok = True
        for n in variant_path:
            if tag(v) == "variant" and v[2] == n:
                v = v[3][0] if v[3] else None
            else:
                ok = False
                break
        if not ok:
            continue
        fs = set(canon(f) for f in implied_facts_of(ev, sub_res, e))
        common = fs if common is None else (common & fs)
    return common or set()


def implied_facts_of(ev, res, e):
    from sym import implied_facts
    gs = list(ev.guards(res, e["bb"], e["body"]))
    for g in e.get("extra_guards", []) or []:
        gs.append((g, ("eq", 1)))
    return implied_facts(gs)


def term_map(t, f, depth=0):
    """Rebuild term t bottom-up, replacing every sub-term x for which f(x) is not None by f(x)."""
    if depth > 60:
        return t
    r = f(t)
    if r is not None:
        return r
    if isinstance(t, Lin):
        from sym import scale
        out = const(t.c)
        for a, c in t.m.items():
            out = add(out, scale(term_map(a, f, depth + 1), c))
        return out
    if isinstance(t, tuple):
        return tuple(term_map(x, f, depth + 1) if isinstance(x, (tuple, Lin)) else x for x in t)
    return t


def split_on_own_phis(ctx, ev, res, e, terms):
    """A site whose operands are joins made in the evaluated function's own frame (`let (a, b) = if c { .. } else { .. }; use(a, b)`)
    is the same as one site per incoming edge.  Returns [(terms', facts')]: one entry per incoming edge of the (single) own-frame
    join the terms mention, the phis replaced by that edge's alternative and the edge's guards added; [(terms, facts)] if none."""
    fs = ctx.facts_of(ev, e)
    own = "%s@" % res.body.name
    phis = []
    for t in terms:
        def grab(x):
            if tag(x) == "phi" and len(x) > 4 and x[4] and all(o is not None for o in x[4]) and len(x[1]) == 1 and str(x[1][0]).startswith(own):
                phis.append(x)
                return x
            return None
        term_map(t, grab)
    sites = set((x[1], tuple(x[4])) for x in phis)
    if len(sites) != 1:
        return [(list(terms), fs)]
    (site, origins), = sites
    try:
        jb = int(str(site[-1]).split("@")[-1])
    except ValueError:
        return [(list(terms), fs)]
    out = []
    for i, o in enumerate(origins):
        def rep(x, i=i):
            if tag(x) == "phi" and len(x) > 4 and x[1] == site and tuple(x[4]) == origins:
                return x[3][i]
            return None
        out.append(([term_map(t, rep) for t in terms], set(fs) | set(implied_facts(ev.guards_edge(res, o, jb)))))
    return out


def search_roles(b, res):
    """The four loop-carried locals of the list traversals (find_position / find_prev_and_next), found by type and data flow instead of by their
    source names: the reference being followed, the cached word read through it, and its two halves (size = hi, next = lo)."""
    from collections import Counter
    cnt = Counter()
    for blk in b.blocks:
        for st in blk["stmts"]:
            if not st["place"]["proj"]:
                cnt[st["place"]["l"]] += 1
        t = blk["term"]
        if t["k"] == "call" and not t["dest"]["proj"]:
            cnt[t["dest"]["l"]] += 1
    heads = sorted(set(v for _, v in b.back_edges()))
    roles = {}
    if len(heads) != 1:
        return roles
    h = heads[0]
    back = set(b.back_edges())
    ins = [p for p in b.pred[h] if (p, h) not in back and p in res.env_out]
    # a loop-carried variable is assigned before the loop and again inside it; a local assigned only inside (`let node = if .. { a } else { b }`) is not one
    loop = set()
    for e_ in back:
        loop |= set(b.natural_loop(e_))
    where = {}
    for bi, blk in enumerate(b.blocks):
        for st in blk["stmts"]:
            if not st["place"]["proj"]:
                where.setdefault(st["place"]["l"], set()).add(bi in loop)
        t = blk["term"]
        if t["k"] == "call" and not t["dest"]["proj"]:
            where.setdefault(t["dest"]["l"], set()).add(t.get("ret") in loop if t.get("ret") is not None else bi in loop)
    for i, l in enumerate(b.locals):
        if not l["name"] or cnt[i] < 2 or i <= b.nargs or where.get(i) != {True, False}:
            continue
        ty = l["ty"]
        if ty.startswith("&") and re.search(r"(Atomic<u64>|UnsafeCell<u64>)$", ty):
            roles.setdefault("current", i)
        elif ty in ("u64", "&u64"):
            roles.setdefault("current_node", i)
        elif ty == "u32" and ins:
            init = res.env_out[ins[0]].get(i)
            if tag(init) == "hi":
                roles.setdefault("current_node_size", i)
            elif tag(init) == "lo":
                roles.setdefault("next_offset", i)
    return roles


def ok_facts_deep(ctx, ev, c, depth=3):
    """facts that hold whenever the inlined callee of entry `c` returned Ok: its own (callee_variant_facts) and, for helpers it calls with `?`, theirs"""
    fs = set(callee_variant_facts(ctx, ev, c, ("Ok",)))
    sub_res = c.get("sub")
    if sub_res is None or depth <= 0:
        return fs
    for n in sub_res.log:
        if n["kind"] == "call" and n.get("inlined") and n.get("res") is sub_res:
            r_ = n["result"]
            errs = [p_[0] for n_, p_ in (dict(r_[2]).items() if tag(r_) == "vsum" else []) if n_ == "Err" and p_]
            passed = any(f[0] == "discr" and f[2] in (("eq", 0), ("ne", (1,))) and (mentions(f[1], r_) or any(mentions(f[1], x_) for x_ in errs)) for f in fs)
            if passed:
                fs |= ok_facts_deep(ctx, ev, n, depth - 1)
    return fs


def facts_through_helpers(ctx, ev, entry, res):
    """facts_of(entry) plus, for every inlined helper of the same frame whose `?` was passed on the way to `entry` (its result's discriminant is known to
    be Ok there), the facts that hold whenever that helper returns Ok"""
    fs = set(ctx.facts_of(ev, entry))
    for c in res.log:
        if c["kind"] == "call" and not c["chain"] and c.get("sub") is not None and c["seq"] < entry["seq"]:
            r_ = c["result"]
            errs = [p_[0] for n_, p_ in (dict(r_[2]).items() if tag(r_) == "vsum" else []) if n_ == "Err" and p_]
            passed = any(f[0] == "discr" and f[2] in (("eq", 0), ("ne", (1,))) and (mentions(f[1], r_) or any(mentions(f[1], x_) for x_ in errs)) for f in fs)
            if passed:
                fs |= set(ok_facts_deep(ctx, ev, c))
    return fs


def prefix_fits_fact(fs):
    """the facts contain `layout prefix <= some capacity`: the unified prefix alignUp(align_of H, reserved) + align_of H + size_of H, or the plain one
    reserved + 1, on the small side of a <= / >= comparison (how check_capacity decides, wherever the comparison was made)"""
    A, S = ("align_of", "H"), ("size_of", "H")
    for f in fs:
        if f[0] != "cmp" or f[1] not in ("Le", "Ge"):
            continue
        small, big = (f[2], f[3]) if f[1] == "Le" else (f[3], f[2])
        sb = show(big)
        if not isinstance(small, Lin) or "allocated" in sb or not ("len(" in sb or "cap" in sb):
            continue        # the large side must be a capacity: the length of the mapping / the vector, not e.g. the stored cursor
        uni = any(tag(a) == "alignUp" for a in small.m) and small.m.get(A) == 1 and small.m.get(S) == 1
        plain = small.c == 1 and len(small.m) == 1 and "reserved" in show(list(small.m)[0]) and list(small.m.values())[0] == 1
        if uni or plain:
            return True
    return False


def refold(ev, t):
    """rebuild a term after a substitution: payload(<Err(..) | Ok(v)>, Ok, 0) -> v, field(struct, name) -> the field's value"""
    from sym import Lin, add, scale, const, struct_get
    if isinstance(t, Lin):
        out = const(t.c)
        for a, c in t.m.items():
            out = add(out, scale(refold(ev, a), c))
        return out
    if not isinstance(t, tuple):
        return t
    t = tuple(refold(ev, x) if isinstance(x, (tuple, Lin)) else x for x in t)
    tg = tag(t)
    if tg == "payload" and len(t) == 4:
        x, vn, i = t[1], t[2], t[3]
        if tag(x) == "vsum":
            for n_, p_ in x[2]:
                if n_ == vn and isinstance(i, int) and i < len(p_):
                    return p_[i]
        return ev._payload(x, vn, i)
    if tg == "field" and tag(t[1]) == "struct":
        v = struct_get(t[1], t[2])
        if v is not None:
            return v
    return t


def chosen_call_join(terms):
    """a join, inside the terms, of the results of calls that a dispatch chose between (`let f = match kind { A => Self::a, B => Self::b }; f(..)` or a
    combinator distributed over such a join): the phi term or None.  The value is one of its alternatives, so a judgement that holds for each alternative
    holds for the join."""
    from sym import _walk_terms
    hit = []

    def grab(x):
        if (not hit and tag(x) == "phi" and len(x) > 4 and isinstance(x[2], tuple) and x[2] and x[2][0] in ("fnptr", "comb") and len(x[3]) >= 2
                and not any(mentions(a, x) for a in x[3])):
            hit.append(x)
        return None
    for t in terms:
        _walk_terms(t, grab)
    return hit[0] if hit else None


def split_on_choices(terms, fs, depth=0):
    """Terms that contain a two-way choice - ("ite", c, x, y), min(a, b), max(a, b) - are one case per way: [(terms', facts')] with the choice replaced by what it
    yields and the deciding comparison added to the facts (a choice the facts already decide yields one case)."""
    from order import Order
    found = []

    def grab(x):
        if not found and (tag(x) == "ite" or (tag(x) in ("min", "max") and len(x) == 3)):
            found.append(x)
        return None
    for t in terms:
        term_map(t, grab)
    if not found or depth > 4:
        return [(list(terms), set(fs))]
    ch = found[0]
    if tag(ch) == "ite":
        c = as_lin(ch[1])
        alts = [(ch[2], ("cmp", "Ge", c, const(0))), (ch[3], ("cmp", "Lt", c, const(0)))]
    else:
        a, b = ch[1], ch[2]
        alts = [(a if tag(ch) == "min" else b, ("cmp", "Le", a, b)), (b if tag(ch) == "min" else a, ("cmp", "Gt", a, b))]
    out = []
    for val, fact in alts:
        fs2 = set(fs) | set(implied_facts([(fact, ("eq", 1))]))
        o = Order(fs)
        x, y = fact[2], fact[3]
        # the facts at hand may already exclude this way
        if (fact[1] == "Lt" and o.le(y, x)) or (fact[1] == "Ge" and o.le(add(x, const(1)), y)) or (fact[1] == "Gt" and o.le(x, y)) or (fact[1] == "Le" and o.le(add(y, const(1)), x)):
            continue
        ts2 = [term_map(t, lambda z, ch=ch, val=val: val if z == ch else None) for t in terms]
        out.extend(split_on_choices(ts2, fs2, depth + 1))
    return out


def rel_excludes(rel, v):
    """does the relation of a discriminant fact - ("eq", d), ("ne", (d, ..)), ("in", (d, ..)) - rule the value v out"""
    if rel[0] == "eq":
        return rel[1] != v
    if rel[0] == "ne":
        return v in tuple(rel[1])
    if rel[0] == "in":
        return v not in tuple(rel[1])
    return False
