"""Run the MIR fact exporter over /repo's current working tree (never executes the crate).

Facts are cached under /verif/.cache/facts/<tree-hash>/<config>.json; the hash covers every
source file of the workspace, the manifests, the lock file, the driver source and the nightly
version, so an edited tree is always re-analysed.
"""
import hashlib, json, os, shutil, subprocess, sys, tempfile, time

VERIF = os.path.dirname(os.path.dirname(os.path.abspath(__file__)))
REPO = os.environ.get("VERIF_REPO", "/repo")
DRIVER = os.path.join(VERIF, "driver", "target", "release", "drv")
CACHE = os.environ.get("VERIF_FACTS_CACHE") or os.path.join(VERIF, ".cache", "facts")

CONFIGS = {
    # name: (cargo feature args, overflow checks)
    "memmap": (["--features", "memmap"], True),
    "memmap-nooverflow": (["--features", "memmap"], False),
    "std": ([], True),
    "alloc": (["--no-default-features", "--features", "alloc"], True),
    "memmap-tracing": (["--features", "memmap,tracing"], True),
}
QUICK = ["memmap", "std"]
THOROUGH = ["memmap", "memmap-nooverflow", "std", "alloc", "memmap-tracing"]


def tree_hash(repo=None):
    repo = repo or REPO
    h = hashlib.sha256()
    files = []
    for root, dirs, fs in os.walk(repo):
        dirs[:] = [d for d in dirs if d not in (".git", "target")]
        for f in fs:
            if f.endswith((".rs", ".toml", ".lock")):
                files.append(os.path.join(root, f))
    for f in sorted(files):
        h.update(os.path.relpath(f, repo).encode())
        with open(f, "rb") as fh:
            h.update(fh.read())
    with open(os.path.join(VERIF, "driver", "src", "main.rs"), "rb") as fh:
        h.update(fh.read())
    return h.hexdigest()[:24]


def sysroot():
    return subprocess.check_output(["rustc", "+nightly", "--print", "sysroot"], text=True).strip()


def ensure_driver():
    if not os.path.exists(DRIVER):
        subprocess.check_call(["cargo", "build", "--release", "--offline"], cwd=os.path.join(VERIF, "driver"),
                              env=dict(os.environ, CARGO_NET_OFFLINE="true"))


def export(config, repo=None, force=False, crate="rarena_allocator", package="rarena-allocator"):
    """Returns path of the fact file for `config` of the current tree (exporting if needed)."""
    repo = repo or REPO
    ensure_driver()
    th = tree_hash(repo)
    outdir = os.path.join(CACHE, th)
    os.makedirs(outdir, exist_ok=True)
    out = os.path.join(outdir, config + ".json")
    if os.path.exists(out) and not force:
        return out
    feats, ovf = CONFIGS[config]
    tdir = tempfile.mkdtemp(prefix="rarena-facts-", dir=os.environ.get("VERIF_TMP", "/var/tmp"))
    try:
        env = dict(os.environ)
        env["LD_LIBRARY_PATH"] = sysroot() + "/lib"
        # debug assertions off: no pointer-check (UB check) blocks in MIR; overflow checks set explicitly
        env["RUSTFLAGS"] = "-Zmir-opt-level=0 -Awarnings -C debug-assertions=off -C overflow-checks=" + ("on" if ovf else "off")
        env["RUSTC_WORKSPACE_WRAPPER"] = DRIVER
        env["CARGO_TARGET_DIR"] = tdir
        env["CARGO_NET_OFFLINE"] = "true"
        tmp_out = out + ".tmp.%d" % os.getpid()
        env["FACTS_OUT"] = tmp_out
        env["FACTS_CRATE"] = crate
        cmd = ["cargo", "+nightly", "check", "--offline", "-p", package] + feats
        p = subprocess.run(cmd, cwd=repo, env=env, stdout=subprocess.PIPE, stderr=subprocess.STDOUT, text=True)
        if p.returncode != 0 or not os.path.exists(tmp_out):
            sys.stderr.write(p.stdout[-4000:])
            raise RuntimeError("fact export failed for config %s (build error or driver skipped)" % config)
        os.replace(tmp_out, out)
    finally:
        shutil.rmtree(tdir, ignore_errors=True)
    # prune old tree hashes (keep 6 most recent)
    try:
        ds = sorted((os.path.getmtime(os.path.join(CACHE, d)), d) for d in os.listdir(CACHE))
        for _, d in ds[:-12]:
            shutil.rmtree(os.path.join(CACHE, d), ignore_errors=True)
    except OSError:
        pass
    return out


if __name__ == "__main__":
    t = time.time()
    for c in (sys.argv[1:] or QUICK):
        print(export(c), "%.1fs" % (time.time() - t))
