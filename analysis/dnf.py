"""Exact path conditions as DNFs over fact literals, and their comparison (shared by C11, C10-F4 and other sibling rules).

A literal is a fact tuple as produced by sym.implied_facts (('cmp', op, a, b), ('discr', x, rel), ('bool', x, v), ('is', ..)).  A conjunction is a frozenset of
literals, a DNF a list of conjunctions.  Unsatisfiability of a conjunction: complementary literals, incompatible discriminants, or comparison facts that
order.infeasible refutes (Fourier-Motzkin with the ORDR axioms).  Everything here errs on the side of `not equivalent`."""
from sym import tag, implied_facts, Lin


FLIP = {"Eq": "Ne", "Ne": "Eq", "Lt": "Ge", "Ge": "Lt", "Gt": "Le", "Le": "Gt"}


def neg_lit(l):
    if l[0] == "cmp":
        return ("cmp", FLIP[l[1]], l[2], l[3])
    if l[0] == "bool":
        return ("bool", l[1], not l[2])
    if l[0] == "is":
        return ("is", l[1], l[2], not l[3])
    if l[0] == "discr" and l[2][0] == "eq":
        return ("discr", l[1], ("ne", (l[2][1],)))
    if l[0] == "discr" and l[2][0] == "ne" and len(l[2][1]) == 1:
        return ("discr", l[1], ("eq", l[2][1][0]))
    if l[0] == "not":
        return l[1]
    return ("not", l)


def conj_unsat(c):
    """a conjunction of canonical literals is contradictory: complementary boolean literals, incompatible discriminants, or infeasible comparisons"""
    from order import infeasible
    c = set(c)
    for l in c:
        if neg_lit(l) in c:
            return True
    by = {}
    for l in c:
        if l[0] == "discr":
            by.setdefault(repr(l[1]), []).append(l[2])
    for rels in by.values():
        eqs = set(r[1] for r in rels if r[0] == "eq")
        if len(eqs) > 1:
            return True
        for r in rels:
            if r[0] == "ne" and eqs & set(r[1]):
                return True
    cmps = [l for l in c if l[0] == "cmp"]
    # 32-bit fields of the arena (type widths the terms do not carry themselves)
    if cmps:
        from order import atoms_deep
        from sym import const as _c
        seen = set()
        for l in list(cmps):
            for t_ in (l[2], l[3]):
                for a in atoms_deep(t_):
                    if tag(a) == "field" and a[2] in ("cap", "data_offset") and a not in seen:
                        seen.add(a)
                        cmps.append(("cmp", "Le", a, _c(2**32 - 1)))
    try:
        return bool(cmps) and infeasible(cmps)
    except Exception:
        return False


def dnf_simplify(d, cap=48):
    d = [frozenset(c) for c in d]
    d = [c for c in set(d) if not conj_unsat(c)]
    changed = True
    while changed and len(d) <= cap:
        changed = False
        d = [c for c in d if not any(o < c for o in d)]       # absorption
        for i, a in enumerate(d):
            for b in d[i + 1:]:
                da, db = a - b, b - a
                if len(da) == 1 and len(db) == 1 and neg_lit(next(iter(da))) == next(iter(db)):
                    d = [c for c in d if c not in (a, b)] + [a & b]
                    changed = True
                    break
            if changed:
                break
    return d


def dnf_implies(A, B, budget=4000):
    """every disjunct of A implies the disjunction B: a and not B is contradictory (not B = one negated literal from every disjunct of B).  The search
    picks, at every step, the disjunct of B that the literals chosen so far leave the fewest ways to falsify (a disjunct that is already falsified costs
    nothing, one whose literals all hold closes the branch)."""
    B = [frozenset(b) for b in B]
    n = [0]
    negs = {}

    def neg(l):
        r = negs.get(l)
        if r is None:
            r = negs[l] = neg_lit(l)
        return r

    def refute(S, rest):
        n[0] += 1
        if n[0] > budget:
            return False
        if conj_unsat(S):
            return True
        best = None
        keep = []
        for b in rest:
            if any(neg(l) in S for l in b):
                continue            # already falsified by the choices made
            opn = [l for l in b if l not in S]
            if not opn:
                return True         # b holds under S: S and not B is contradictory
            keep.append(b)
            if best is None or len(opn) < len(best[1]):
                best = (b, opn)
        if best is None:
            return False
        rest2 = [b for b in keep if b is not best[0]]
        return all(refute(S | {neg(l)}, rest2) for l in sorted(best[1], key=repr))
    return all(refute(frozenset(a), B) for a in A)


def _rewrite_guard(cond, rel):
    """A test of a value whose variant is decided by another value (`opt.ok_or_else(..)?`, `Some(v).filter(|_| c)`) is a test of that value / of c: rewritten
    before the guard is expanded, so that a failed `a && b` becomes its two cases instead of one opaque literal."""
    for _ in range(4):
        if tag(cond) != "discr":
            break
        x = cond[1]
        if tag(x) == "vsum" and len(x) > 3 and x[3][0] == "maps":
            names = {"std::result::Result": ("Ok", "Err"), "std::ops::ControlFlow": ("Continue", "Break"), "std::option::Option": ("None", "Some")}.get(x[1])
            mp = dict(x[3][2])
            which = None
            if names is not None:
                if rel in (("eq", 0), ("ne", (1,))):
                    which = names[0]
                elif rel in (("eq", 1), ("ne", (0,))):
                    which = names[1]
            if which is None or mp.get(which) is None:
                break
            cond, rel = ("discr", x[3][1]), ("eq", mp[which])
            continue
        if tag(x) == "filter" and tag(x[1]) == "variant" and x[1][2] == "Some" and rel in (("eq", 0), ("eq", 1), ("ne", (0,)), ("ne", (1,))):
            cond, rel = x[2], ("eq", 1 if rel in (("eq", 1), ("ne", (0,))) else 0)
            break
        break
    return cond, rel


def _expand_and_guards(guards, depth=0):
    """`a.and_then(f)` tested for its variant: Some / Ok means both a and f's result are; the other variant means a is not, or a is and f's result is not.
    Returns the alternatives (lists of guard pairs) the given guard list stands for."""
    out = [[]]
    for cond, rel in guards:
        cond, rel = _rewrite_guard(cond, rel)
        x = cond[1] if tag(cond) == "discr" else None
        alts = [[(cond, rel)]]
        if tag(x) == "vsum" and len(x) > 3 and x[3][0] == "and" and depth < 3:
            gd = {"Some": 1, "Ok": 0}.get(x[3][3])
            if gd is not None and rel in (("eq", 0), ("eq", 1), ("ne", (0,)), ("ne", (1,))):
                is_good = rel == ("eq", gd) or rel == ("ne", (1 - gd,))
                a_, r_ = ("discr", x[3][1]), ("discr", x[3][2])
                if is_good:
                    alts = _expand_and_guards([(a_, ("eq", gd)), (r_, ("eq", gd))], depth + 1)
                else:
                    alts = _expand_and_guards([(a_, ("eq", 1 - gd))], depth + 1) + _expand_and_guards([(a_, ("eq", gd)), (r_, ("eq", 1 - gd))], depth + 1)
        out = [o + a for o in out for a in alts][:64]
    return out


def guard_dnf(guards):
    """the guards of one CFG edge as a DNF of fact sets: a false `a && b` (a true `a || b`) is a disjunction, everything else one conjunction"""
    guards = list(guards)
    alts_ = _expand_and_guards(guards)
    if len(alts_) > 1 or (alts_ and alts_[0] != guards):
        res_ = []
        for g_ in alts_:
            res_.extend(_guard_dnf1(g_))
        return res_[:64]
    return _guard_dnf1(guards)


def _guard_dnf1(guards):
    out = [frozenset()]
    for cond, rel in guards:
        cond, rel = _rewrite_guard(cond, rel)
        t = tag(cond)
        truth = True if rel in (("eq", 1), ("ne", (0,))) else (False if rel in (("eq", 0), ("ne", (1,))) else None)
        alts = None
        if t == "not" and truth is not None:
            alts = guard_dnf([(cond[1], ("eq", 0 if truth else 1))])
        elif t == "booland" and truth is False:
            alts = guard_dnf([(cond[1], ("eq", 0))]) + guard_dnf([(cond[1], ("eq", 1)), (cond[2], ("eq", 0))])
        elif t == "boolor" and truth is True:
            alts = guard_dnf([(cond[1], ("eq", 1))]) + guard_dnf([(cond[1], ("eq", 0)), (cond[2], ("eq", 1))])
        elif t == "booland" and truth is True:
            alts = guard_dnf([(cond[1], ("eq", 1)), (cond[2], ("eq", 1))])
        elif t == "boolor" and truth is False:
            alts = guard_dnf([(cond[1], ("eq", 0)), (cond[2], ("eq", 0))])
        elif t == "discr" and tag(cond[1]) == "tryfrom" and rel in (("eq", 1), ("ne", (0,))):
            # T::try_from(v) is Err: v is below the minimum or above the maximum of T
            from sym import const as _c
            rng = {"u8": (0, 2**8 - 1), "u16": (0, 2**16 - 1), "u32": (0, 2**32 - 1), "u64": (0, 2**64 - 1), "usize": (0, 2**64 - 1),
                   "i8": (-2**7, 2**7 - 1), "i16": (-2**15, 2**15 - 1), "i32": (-2**31, 2**31 - 1), "i64": (-2**63, 2**63 - 1), "isize": (-2**63, 2**63 - 1)}.get(cond[1][2])
            if rng:
                v_ = cond[1][1]
                alts = [frozenset(implied_facts([(("cmp", "Lt", v_, _c(rng[0])), ("eq", 1))])), frozenset(implied_facts([(("cmp", "Gt", v_, _c(rng[1])), ("eq", 1))]))]
            else:
                alts = [frozenset(implied_facts([(cond, rel)]))]
        else:
            alts = [frozenset(implied_facts([(cond, rel)]))]
        out = [a | b for a in out for b in alts]
        if len(out) > 64:
            return out[:64]
    return out


def variant_join_sites(res, body):
    """join blocks of the frame at which a value was joined from variant constructions and whose discriminant is tested later: {join block: [joined terms]}"""
    out = {}
    for c in res.conds.values():
        site = None
        if tag(c) == "discr" and tag(c[1]) == "vsum" and len(c[1]) > 3 and c[1][3][0] == "from":
            site, val = c[1][3][1], c[1]
        elif tag(c) == "phi" and len(c) > 4 and c[4] and all(o is not None for o in c[4]) and all(isinstance(a, Lin) and a.is_const() for a in c[3]):
            site, val = c[1], c          # a flag joined from constants (`let give_back = match k { A => true, B => false }`)
        elif (tag(c) == "phi" and len(c) > 4 and c[4] and all(o is not None for o in c[4]) and any(isinstance(a, Lin) and a.is_const() for a in c[3])
              and all((isinstance(a, Lin) and a.is_const()) or tag(a) in ("cmp", "not", "booland", "boolor") for a in c[3])):
            site, val = c[1], c          # a flag joined from constants and comparisons (`let empty = a == 0 || b == 0;` tested later)
        elif (tag(c) == "discr" and tag(c[1]) == "phi" and len(c[1]) > 4 and c[1][4] and all(o is not None for o in c[1][4])
              and any(tag(a) == "variant" for a in c[1][3])):
            # an Option / enum value joined from constructions and other values (`match k { A => Some(p).filter(..), B => None, C => Some(q) }`)
            site, val = c[1][1], c[1]
        if site is not None and len(site) == 1 and str(site[-1]).startswith(body.name + "@"):
            try:
                out.setdefault(int(str(site[-1]).split("@")[-1]), []).append(val)      # several values can be joined in one block
            except ValueError:
                pass
    return out


def _matching_origins(ev, v, rel):
    """origins (incoming blocks of the join) whose value satisfies the test `rel`"""
    if tag(v) == "phi":
        return set(o for a, o in zip(v[3], v[4]) if _rel_sat(rel, a.c))
    return set(o for nm, o in v[3][2] if (lambda d: d is not None and _rel_sat(rel, d))(ev._variant_discr(v[1], nm)))


def _rel_sat(rel, v):
    if rel[0] == "eq":
        return v == rel[1]
    if rel[0] == "ne":
        return v not in tuple(rel[1])
    if rel[0] == "in":
        return v in tuple(rel[1])
    return True


_INT_RANGE = {"u8": (0, 2**8 - 1), "u16": (0, 2**16 - 1), "u32": (0, 2**32 - 1), "u64": (0, 2**64 - 1), "usize": (0, 2**64 - 1),
              "i8": (-2**7, 2**7 - 1), "i16": (-2**15, 2**15 - 1), "i32": (-2**31, 2**31 - 1), "i64": (-2**63, 2**63 - 1), "isize": (-2**63, 2**63 - 1)}


def guard_dnf_pairs(guards):
    """like guard_dnf, but the disjuncts are lists of (cond, rel) guard pairs (for callers that extract literals themselves)"""
    guards = list(guards)
    alts_ = _expand_and_guards(guards)
    if len(alts_) > 1 or (alts_ and alts_[0] != guards):
        res_ = []
        for g_ in alts_:
            res_.extend(_guard_dnf_pairs1(g_))
        return res_[:64]
    return _guard_dnf_pairs1(guards)


def _guard_dnf_pairs1(guards):
    out = [[]]
    for cond, rel in guards:
        cond, rel = _rewrite_guard(cond, rel)
        t = tag(cond)
        truth = True if rel in (("eq", 1), ("ne", (0,))) else (False if rel in (("eq", 0), ("ne", (1,))) else None)
        if t == "not" and truth is not None:
            alts = guard_dnf_pairs([(cond[1], ("eq", 0 if truth else 1))])
        elif t == "booland" and truth is False:
            alts = guard_dnf_pairs([(cond[1], ("eq", 0))]) + guard_dnf_pairs([(cond[1], ("eq", 1)), (cond[2], ("eq", 0))])
        elif t == "boolor" and truth is True:
            alts = guard_dnf_pairs([(cond[1], ("eq", 1))]) + guard_dnf_pairs([(cond[1], ("eq", 0)), (cond[2], ("eq", 1))])
        elif t == "booland" and truth is True:
            alts = guard_dnf_pairs([(cond[1], ("eq", 1)), (cond[2], ("eq", 1))])
        elif t == "boolor" and truth is False:
            alts = guard_dnf_pairs([(cond[1], ("eq", 0)), (cond[2], ("eq", 0))])
        elif t == "discr" and tag(cond[1]) == "tryfrom" and rel in (("eq", 1), ("ne", (0,))) and cond[1][2] in _INT_RANGE:
            from sym import const as _c
            lo_, hi_ = _INT_RANGE[cond[1][2]]
            alts = [[(("cmp", "Lt", cond[1][1], _c(lo_)), ("eq", 1))], [(("cmp", "Gt", cond[1][1], _c(hi_)), ("eq", 1))]]
        else:
            alts = [[(cond, rel)]]
        out = [a + b for a in out for b in alts]
        if len(out) > 64:
            return out[:64]
    return out


def block_dnf(ev, res, body, bb, lit=None, cap=48, _memo=None, _back=None, stop=frozenset(), _vj=None, edge_lits=None, forced=(), shared_memo=None):
    """exact condition under which control reaches block `bb` of the evaluated top frame, over forward edges (loops are cut at their back edges): DNF of the
    literals implied by the edge guards; `lit` canonicalises a fact (may return None to drop it); paths through a block of `stop` are left out.  None when it
    grows beyond `cap` disjuncts.  `edge_lits(guards) -> (set of literals, infeasible)` replaces the default literal extraction (C11 projects the sync flavour onto
    one thread there); `forced` = ((join block, pred), ..) restricts the paths to those that enter each listed join over the given edge.  A test of the discriminant of a value that was joined from variant constructions (`let r = if c { A } else { B }; match r`)
    selects the paths that came into the join over the edges that built that variant: disjuncts carry a ('via', join, pred) marker for such joins while the
    DNF is built; the markers are removed from the result."""
    top = _memo is None
    memo = _memo if _memo is not None else (shared_memo if shared_memo is not None else {})   # shared_memo: kept by the caller across top-level calls
    back = _back if _back is not None else set(body.back_edges())
    vj = _vj if _vj is not None else variant_join_sites(res, body)
    mk = (bb, forced)
    if mk in memo:
        r = memo[mk]
    else:
        memo[mk] = None
        if bb == 0:
            memo[mk] = [frozenset()]
        else:
            preds = [p for p in body.pred[bb] if (p, bb) not in back and p in body.reachable and not body.blocks[p]["cleanup"] and p not in stop]
            fd = dict(forced)
            if bb in fd:
                preds = [p for p in preds if p == fd[bb]]
            out = []
            big = False
            for p in preds:
                pd = block_dnf(ev, res, body, p, lit, cap, memo, back, stop, vj, edge_lits, forced)
                if pd is None:
                    big = True
                    break
                gp = ev.guards(res, p)
                edge = [g for g in ev.guards_edge(res, p, bb) if g not in gp]
                plain = []
                for cond, rel in edge:
                    v = cond[1] if tag(cond) == "discr" else (cond if tag(cond) == "phi" else None)
                    if v is not None and tag(v) in ("vsum", "phi") and any(v in l_ for l_ in vj.values()):
                        jb = [k for k, l_ in vj.items() if v in l_][0]
                        if tag(v) == "phi" and tag(cond) == "discr" and not all(isinstance(a, Lin) for a in v[3]):
                            # per incoming edge: a constructed variant decides the test, any other value is tested itself
                            pd2 = []
                            for c in pd:
                                for a_, o_ in zip(v[3], v[4]):
                                    if ("via", jb, o_) not in c:
                                        continue
                                    if tag(a_) == "variant":
                                        d_ = ev._variant_discr(a_[1], a_[2])
                                        if d_ is not None and _rel_sat(rel, d_):
                                            pd2.append(c)
                                    elif edge_lits is not None:
                                        # (the caller's own reading of the test: C11 projects it onto one thread and may find it infeasible)
                                        for conj_ in guard_dnf_pairs([(("discr", a_), rel)]):
                                            ls_, inf_ = edge_lits(conj_)
                                            if not inf_:
                                                pd2.append(c | frozenset(ls_))
                                    else:
                                        extra = set()
                                        for f in implied_facts([(("discr", a_), rel)]):
                                            f2 = lit(f) if lit is not None else f
                                            if f2 is not None:
                                                extra.add(f2)
                                        pd2.append(c | frozenset(extra))
                            pd = pd2
                            continue
                        if tag(v) == "phi" and tag(cond) == "phi" and not all(isinstance(a, Lin) and a.is_const() for a in v[3]):
                            # per incoming edge: a constant decides the test, a comparison is tested itself
                            pd2 = []
                            for c in pd:
                                for a_, o_ in zip(v[3], v[4]):
                                    if ("via", jb, o_) not in c:
                                        continue
                                    if isinstance(a_, Lin) and a_.is_const():
                                        if _rel_sat(rel, a_.c):
                                            pd2.append(c)
                                        continue
                                    if edge_lits is not None:
                                        for conj in guard_dnf_pairs([(a_, rel)]):
                                            ls, inf = edge_lits(conj)
                                            if not inf:
                                                pd2.append(c | frozenset(ls))
                                    else:
                                        for conj in guard_dnf([(a_, rel)]):
                                            pd2.append(c | frozenset(x for x in ((lit(f) if lit is not None else f) for f in conj) if x is not None))
                            pd = pd2
                            continue
                        ok_orig = _matching_origins(ev, v, rel)
                        pd = [c for c in pd if any(("via", jb, o) in c for o in ok_orig)]
                    else:
                        plain.append((cond, rel))
                if edge_lits is not None:
                    conjs = []
                    for conj in guard_dnf_pairs(plain):
                        ls, inf = edge_lits(conj)
                        if not inf:
                            conjs.append(set(ls))
                else:
                    conjs = []
                    for conj in guard_dnf(plain):
                        ls = set()
                        for f in conj:
                            f2 = lit(f) if lit is not None else f
                            if f2 is not None:
                                ls.add(f2)
                        conjs.append(ls)
                for ls in conjs:
                    if bb in vj:
                        ls = set(ls) | {("via", bb, p)}
                    out.extend(c | frozenset(ls) for c in pd)
            if big:
                memo[mk] = None
            else:
                out = dnf_simplify(out)
                memo[mk] = out if len(out) <= cap else None
        r = memo[mk]
    if top and r is not None:
        r = dnf_simplify([frozenset(l for l in c if l[0] != "via") for c in r])
    return r


def dnf_equiv(A, B):
    A, B = dnf_simplify(A), dnf_simplify(B)
    return dnf_implies(A, B) and dnf_implies(B, A)


def bool_dnf(ev, res, body, t, truth=True, depth=0):
    """The ways a boolean term of the frame can have the given truth value, as a DNF of fact sets: a flag joined from several edges (`let created = a || (b && !c)`
    in MIR) is true along an edge iff the alternative that edge brings is - each alternative under the guards of its edge; `!`, `&&`, `||` by their tables; a
    constant alternative contributes its edge or nothing."""
    from sym import Lin as _Lin
    if depth > 6:
        return [frozenset(implied_facts([(t, ("eq", 1 if truth else 0))]))]
    if isinstance(t, _Lin):
        if not t.m:
            return [frozenset()] if bool(t.c) == truth else []
        return [frozenset(implied_facts([(t, ("eq", 1 if truth else 0))]))]
    tg = tag(t)
    if tg == "not":
        return bool_dnf(ev, res, body, t[1], not truth, depth + 1)
    if tg == "phi" and len(t) > 4 and t[4] and len(t[4]) == len(t[3]) and list(t[4]).count(None) <= 1:
        try:
            jb = int(str(t[1][-1]).split("@")[-1])
        except ValueError:
            jb = None
        if jb is not None and str(t[1][-1]).startswith("%s@" % body.name):
            back = set(body.back_edges())
            preds = [p for p in body.pred[jb] if p in body.reachable and not body.blocks[p]["cleanup"] and (p, jb) not in back]
            named = set(o for o in t[4] if o is not None)
            out = []
            for alt, origin in zip(t[3], t[4]):
                # an alternative without a named edge is what several edges bring alike: every edge the other alternatives do not name
                edges = [origin] if origin is not None else [p for p in preds if p not in named]
                for o_ in edges:
                    eg = [c for c in guard_dnf(ev.guards_edge(res, o_, jb, body))]
                    for a in bool_dnf(ev, res, body, alt, truth, depth + 1):
                        for g in eg:
                            c = a | g
                            if not conj_unsat(c):
                                out.append(c)
            return out
    return guard_dnf([(t, ("eq", 1 if truth else 0))])


def expand_bool_joins(ev, res, body, d, post=None, cap=256):
    """Replaces, in every conjunction of the DNF, a literal about a boolean joined from several edges (`let empty = a == 0 || b == 0;` tested later) by the ways
    that boolean can have the stated value."""
    out = []
    for c in d:
        alts = [c]
        for f in sorted(c, key=repr):
            if f[0] == "bool" and tag(f[1]) in ("phi", "not"):
                exp = bool_dnf(ev, res, body, f[1], f[2])
                if post is not None:
                    exp = [frozenset(y for y in (post(x) for x in a) if y is not None) for a in exp]
                alts = [(x - {f}) | y for x in alts for y in exp if not conj_unsat((x - {f}) | y)][:cap]
        out.extend(alts)
    return out
