"""Exact path conditions as DNFs over fact literals, and their comparison (shared by C11, C10-F4 and other sibling rules).

A literal is a fact tuple as produced by sym.implied_facts (('cmp', op, a, b), ('discr', x, rel), ('bool', x, v), ('is', ..)).  A conjunction is a frozenset of
literals, a DNF a list of conjunctions.  Unsatisfiability of a conjunction: complementary literals, incompatible discriminants, or comparison facts that
order.infeasible refutes (Fourier-Motzkin with the ORDR axioms).  Everything here errs on the side of `not equivalent`."""
from sym import tag, implied_facts


FLIP = {"Eq": "Ne", "Ne": "Eq", "Lt": "Ge", "Ge": "Lt", "Gt": "Le", "Le": "Gt"}


def neg_lit(l):
    if l[0] == "cmp":
        return ("cmp", FLIP[l[1]], l[2], l[3])
    if l[0] == "bool":
        return ("bool", l[1], not l[2])
    if l[0] == "is":
        return ("is", l[1], l[2], not l[3])
    if l[0] == "discr" and l[2][0] == "eq":
        return ("discr", l[1], ("ne", (l[2][1],)))
    if l[0] == "discr" and l[2][0] == "ne" and len(l[2][1]) == 1:
        return ("discr", l[1], ("eq", l[2][1][0]))
    if l[0] == "not":
        return l[1]
    return ("not", l)


def conj_unsat(c):
    """a conjunction of canonical literals is contradictory: complementary boolean literals, incompatible discriminants, or infeasible comparisons"""
    from order import infeasible
    c = set(c)
    for l in c:
        if neg_lit(l) in c:
            return True
    by = {}
    for l in c:
        if l[0] == "discr":
            by.setdefault(repr(l[1]), []).append(l[2])
    for rels in by.values():
        eqs = set(r[1] for r in rels if r[0] == "eq")
        if len(eqs) > 1:
            return True
        for r in rels:
            if r[0] == "ne" and eqs & set(r[1]):
                return True
    cmps = [l for l in c if l[0] == "cmp"]
    try:
        return bool(cmps) and infeasible(cmps)
    except Exception:
        return False


def dnf_simplify(d, cap=48):
    d = [frozenset(c) for c in d]
    d = [c for c in set(d) if not conj_unsat(c)]
    changed = True
    while changed and len(d) <= cap:
        changed = False
        d = [c for c in d if not any(o < c for o in d)]       # absorption
        for i, a in enumerate(d):
            for b in d[i + 1:]:
                da, db = a - b, b - a
                if len(da) == 1 and len(db) == 1 and neg_lit(next(iter(da))) == next(iter(db)):
                    d = [c for c in d if c not in (a, b)] + [a & b]
                    changed = True
                    break
            if changed:
                break
    return d


def dnf_implies(A, B, budget=4000):
    """every disjunct of A implies the disjunction B: a and not B is contradictory (not B = one negated literal from every disjunct of B)"""
    B = [sorted(b, key=repr) for b in B]
    n = [0]

    def refute(S, i):
        n[0] += 1
        if n[0] > budget:
            return False
        if conj_unsat(S):
            return True
        if i == len(B):
            return False
        return all(refute(S | {neg_lit(l)}, i + 1) for l in B[i])
    return all(refute(frozenset(a), 0) for a in A)




def guard_dnf(guards):
    """the guards of one CFG edge as a DNF of fact sets: a false `a && b` (a true `a || b`) is a disjunction, everything else one conjunction"""
    out = [frozenset()]
    for cond, rel in guards:
        t = tag(cond)
        truth = True if rel in (("eq", 1), ("ne", (0,))) else (False if rel in (("eq", 0), ("ne", (1,))) else None)
        alts = None
        if t == "not" and truth is not None:
            alts = guard_dnf([(cond[1], ("eq", 0 if truth else 1))])
        elif t == "booland" and truth is False:
            alts = guard_dnf([(cond[1], ("eq", 0))]) + guard_dnf([(cond[1], ("eq", 1)), (cond[2], ("eq", 0))])
        elif t == "boolor" and truth is True:
            alts = guard_dnf([(cond[1], ("eq", 1))]) + guard_dnf([(cond[1], ("eq", 0)), (cond[2], ("eq", 1))])
        elif t == "booland" and truth is True:
            alts = guard_dnf([(cond[1], ("eq", 1)), (cond[2], ("eq", 1))])
        elif t == "boolor" and truth is False:
            alts = guard_dnf([(cond[1], ("eq", 0)), (cond[2], ("eq", 0))])
        else:
            alts = [frozenset(implied_facts([(cond, rel)]))]
        out = [a | b for a in out for b in alts]
        if len(out) > 64:
            return out[:64]
    return out


def block_dnf(ev, res, body, bb, lit=None, cap=48, _memo=None, _back=None, stop=frozenset()):
    """exact condition under which control reaches block `bb` of the evaluated top frame, over forward edges (loops are cut at their back edges): DNF of the
    literals implied by the edge guards; `lit` canonicalises a fact (may return None to drop it); paths through a block of `stop` are left out.  None when it
    grows beyond `cap` disjuncts."""
    memo = _memo if _memo is not None else {}
    back = _back if _back is not None else set(body.back_edges())
    if bb in memo:
        return memo[bb]
    memo[bb] = None
    if bb == 0:
        memo[bb] = [frozenset()]
        return memo[bb]
    preds = [p for p in body.pred[bb] if (p, bb) not in back and p in body.reachable and not body.blocks[p]["cleanup"] and p not in stop]
    out = []
    for p in preds:
        pd = block_dnf(ev, res, body, p, lit, cap, memo, back, stop)
        if pd is None:
            return None
        gp = ev.guards(res, p)
        edge = [g for g in ev.guards_edge(res, p, bb) if g not in gp]
        for conj in guard_dnf(edge):
            ls = set()
            for f in conj:
                f2 = lit(f) if lit is not None else f
                if f2 is not None:
                    ls.add(f2)
            out.extend(c | frozenset(ls) for c in pd)
    out = dnf_simplify(out)
    memo[bb] = out if len(out) <= cap else None
    return memo[bb]


def dnf_equiv(A, B):
    A, B = dnf_simplify(A), dnf_simplify(B)
    return dnf_implies(A, B) and dnf_implies(B, A)
