"""C10 - the free list follows the documented policy and stays well formed (policy structure)."""
import re, os, sys
from engine import rule, Ob, key_of, EXPLAIN, ASSUME
from sym import Lin, add, sub, const, tag, show, is_const, as_lin, implied_facts, struct_get
from util import *
from order import Order, term_eq
from proto import NOINLINE, is_removed

EXPLAIN["C10"] = (
    "Decides the structure of the policy, both flavours: F1 the insertion comparators (Optimistic: val >= next size, i.e. descending; Pessimistic: val <= next size, "
    "ascending), the first-fit predicate of the pessimistic pop, the dispatch of dealloc / the three allocation bodies from the Freelist kind to the matching "
    "insertion / pop, and the re-insertion of a pop's remainder through the insertion of the same kind; F2 the position search advances only past nodes that failed the comparator and returns only at a node that satisfied it or at the tail; F3 the "
    "optimistic pop takes the head (lo(sentinel)) and fails exactly when size > head size, the pessimistic pop fails exactly when the search found nothing; F4 "
    "validate_segment and try_new_segment decide by the same conditions (sibling agreement), so a remainder is re-inserted iff it would be accepted; F5 the "
    "acceptance condition (C01-R3); F6 Freelist::None never touches a list word and never calls a pop body. That the list is finite, acyclic, disjoint and sorted "
    "at quiescent points follows from C01's invariant plus F1/F2 by the written argument of DESIGN Appendix A.2; it is not separately decided.")
ASSUME["C10"] = ["DESIGN A.2 (sortedness / shape from the lemmas)", "C01 invariant I"]

FLAVOURS = ("sync", "unsync")
SELF = ("param", 0, "self")


def closure_cmp(ctx, path):
    b = ctx.facts.body(path)
    if b is None:
        return None
    ev, res = ctx.eval(b)
    v = res.ret
    if tag(v) == "cmp":
        # the two arguments by position: (value searched for, size of the next node); a closure's own first parameter is the closure
        first = 1 if b.kind == "Closure" else 0
        def nm(t):
            if tag(t) == "param" and t[1] in (first, first + 1):
                return "val" if t[1] == first else "next"
            return show(t)
        return (v[1], nm(v[2]), nm(v[3]))
    return None


@rule("C10-F1", "C10", 18, "comparators and dispatch: Optimistic inserts with val >= next (descending), Pessimistic with val <= next (ascending) and pops the first "
      "node with size <= next; each Freelist kind dispatches to its own insertion / pop")
def f1(ctx):
    for fl in FLAVOURS:
        want = {"optimistic_dealloc": ("Ge", "val", "next"), "pessimistic_dealloc": ("Le", "val", "next"), "alloc_slow_path_pessimistic": ("Le", "val", "next")}
        for name, cmpw in want.items():
            b = ctx.facts.one(r"^%s::Arena::%s$" % (fl, name))
            ev, res = ctx.eval(b, no_inline=NOINLINE)
            searches = [e for e in res.log if e["kind"] == "call" and not e["chain"] and re.search(r"::find_(position|prev_and_next)$", e["callee"])]
            # the comparator is a closure, or a reference to one that a helper was handed (`find_position(.., &check)`)
            carg = searches[0]["args"][2] if len(searches) == 1 else None
            for _ in range(3):
                if tag(carg) == "ref":
                    carg = ev._deref_val(carg)
            ok = len(searches) == 1 and tag(carg) in ("closure", "fn")
            got = closure_cmp(ctx, carg[1].split("::<")[0] if tag(carg) == "fn" else carg[1]) if ok else None
            # the value searched for: the new segment's data size (insertion) / the requested size (pop)
            # `next <= val` is `val >= next`
            if got is not None and got[1] == "next" and got[2] == "val" and got[0] in ("Le", "Ge", "Lt", "Gt"):
                got = ({"Le": "Ge", "Ge": "Le", "Lt": "Gt", "Gt": "Lt"}[got[0]], "val", "next")
            yield Ob(key_of("C10-F1", b.path, "comparator"), got == cmpw, "%s searches with %s (want %s)" % (name, got, cmpw), ctx.loc(searches[0]) if searches else b.loc())
            if ok and name.endswith("dealloc"):
                v = searches[0]["args"][1]
                okv = tag(v) == "field" and v[2] == "data_size" or "data_size" in show(v)
                yield Ob(key_of("C10-F1", b.path, "key-is-data-size"), okv, "the insertion key is the new segment's data size (%s)" % short(v, 60), ctx.loc(searches[0]))
        # the remainder of a pop goes back through the insertion of the same kind (a list is only ever ordered by one comparator)
        for kind in ("optimistic", "pessimistic"):
            b = ctx.facts.one(r"^%s::Arena::alloc_slow_path_%s$" % (fl, kind))
            ev, res = ctx.eval(b, no_inline=NOINLINE)
            back = [e for e in res.log if e["kind"] == "call" and not e["chain"] and re.search(r"::(optimistic|pessimistic)_dealloc$", e["callee"])]
            ok = len(back) >= 1 and all(e["callee"].endswith("::%s_dealloc" % kind) for e in back)
            yield Ob(key_of("C10-F1", b.path, "remainder-same-policy"), ok, "remainder re-inserted by %s" % sorted(set(e["callee"].split("::")[-1] for e in back)), ctx.loc(back[0]) if back else b.loc())
        # dispatch
        b = ctx.facts.one(r"^<%s::Arena as allocator::Allocator>::dealloc$" % fl)
        ev, res = ctx.eval(b, no_inline=NOINLINE)
        for e in res.log:
            if e["kind"] == "call" and not e["chain"] and re.search(r"::(optimistic|pessimistic)_dealloc$", e["callee"]):
                kind = "Optimistic" if "optimistic" in e["callee"] else "Pessimistic"
                d = [f[2][1] for f in ctx.facts_of(ev, e) if f[0] == "discr" and f[1] == field(SELF, "freelist") and f[2][0] == "eq"]
                ok = len(d) == 1 and ctx.facts.variant_by_discr("options::Freelist", d[0]) == kind
                yield Ob(key_of("C10-F1", b.path, "dispatch-" + kind), ok, "Freelist::%s -> %s" % (kind, e["callee"].split("::")[-1]), ctx.loc(e))
        for name in ("alloc_bytes_in", "alloc_aligned_bytes_in", "alloc_in"):
            b = ctx.facts.one(r"^%s::Arena::%s$" % (fl, name))
            ev, res = ctx.eval(b, no_inline=NOINLINE)
            n = 0
            for e in res.log:
                if e["kind"] == "call" and not e["chain"] and re.search(r"::alloc_slow_path_(optimistic|pessimistic)$", e["callee"]):
                    kind = "Optimistic" if "optimistic" in e["callee"] else "Pessimistic"
                    d = [f[2][1] for f in ctx.facts_of(ev, e) if f[0] == "discr" and f[1] == field(SELF, "freelist") and f[2][0] == "eq"]
                    ok = len(d) == 1 and ctx.facts.variant_by_discr("options::Freelist", d[0]) == kind
                    n += 1
                    yield Ob(key_of("C10-F1", b.path, "dispatch-" + kind), ok, "%s: Freelist::%s -> %s" % (name, kind, e["callee"].split("::")[-1]), ctx.loc(e))
            if n != 2:
                yield Ob(key_of("C10-F1", b.path, "dispatch"), False, "expected two pop call sites, found %d" % n, b.loc())


@rule("C10-F2", "C10", 8, "position search: the traversal advances past `next` only where the comparator rejected it; it returns a position only where the comparator "
      "accepted `next`, at the tail, or (sync) where it must let the caller wait")
def f2(ctx):
    for fl in FLAVOURS:
        for name in ("find_position", "find_prev_and_next"):
            b = ctx.facts.one(r"^%s::Arena::%s$" % (fl, name))
            ev, res = ctx.eval(b, no_inline=NOINLINE)
            checks = [e for e in res.log if e["kind"] == "call" and not e["chain"] and re.search(r"ops::Fn(<.*>)?>?::call$|Fn::call$", e["callee"])]
            if len(checks) != 1:
                yield Ob(key_of("C10-F2", b.path, "comparator-call"), False, "expected one comparator call, found %d" % len(checks), b.loc())
                continue
            chk = checks[0]["result"]
            # argument order: (val, next_node_size)
            a = checks[0]["args"][1]
            oka = tag(a) == "tuple" and a[1][0] == ("param", 1, "val") and (tag(a[1][1]) == "hi")
            yield Ob(key_of("C10-F2", b.path, "comparator-args"), oka, "comparator called with (val, size of next)", ctx.loc(checks[0]))
            # advance: the latch edge that updates `current` from `next` lies on the comparator's false edge
            names = search_roles(b, res)     # by type and data flow, not by source name
            cur = names.get("current")
            # the protocol's constants, named in the source or used as match patterns (then only their numbers are left): a constant is the tail offset when
            # it is compared with the cached next-offset half, the removal mark when it is compared with the cached size half
            def half(x, role, tg_):
                if isinstance(x, Lin) and x.c == 0 and len(x.m) == 1 and list(x.m.values()) == [1]:
                    x = list(x.m)[0]
                return tag(x) == tg_ or (tag(x) == "phi" and len(x) >= 3 and x[2] == names.get(role))
            def is_tail_cmp(f):
                if f[0] != "cmp" or f[1] != "Eq":
                    return False
                if any(tag(x) == "named" and x[1] == "SENTINEL_SEGMENT_NODE_OFFSET" for x in (f[2], f[3])):
                    return True
                return any(is_const(x) and as_lin(x).c == 2**32 - 1 and half(y, "next_offset", "lo") for x, y in ((f[2], f[3]), (f[3], f[2])))
            def is_removed_cmp(f):
                if f[0] != "cmp" or f[1] != "Eq":
                    return False
                if is_removed(f[2]) or is_removed(f[3]):
                    return True
                return any(is_const(x) and as_lin(x).c == 0 and half(y, "current_node_size", "hi") for x, y in ((f[2], f[3]), (f[3], f[2])))
            backs = b.back_edges()
            adv = 0
            okadv = True
            for u, h in backs:
                env_u, env_h = res.env_out.get(u, {}), res.env_in.get(h, {})
                if env_u.get(cur) != env_h.get(cur):
                    gs = ev.guards(res, u)
                    fs = implied_facts(gs)
                    by_check_false = ("bool", chk, False) in fs
                    by_removed = any(is_removed_cmp(f) for f in fs)
                    adv += 1
                    okadv = okadv and (by_check_false or by_removed)
            yield Ob(key_of("C10-F2", b.path, "advance-on-reject"), adv >= 1 and okadv, "`current` moves forward only past a rejected (or removed) node (%d advancing back edge(s))" % adv, b.loc())
            # returns
            n = 0
            for r in res.log:
                if r["kind"] != "ret0" or r["chain"]:
                    continue
                v = r["value"]
                if name == "find_prev_and_next":
                    if not (tag(v) == "variant" and v[2] == "Some"):
                        continue
                n += 1
                fs = implied_facts(ev.guards(res, r["bb"]))
                is_tail = is_tail_cmp
                accepted = ("bool", chk, True) in fs
                tail = any(is_tail(f) for f in fs)
                ok = accepted or (name == "find_position" and tail)
                if not ok:
                    # one return behind the loop (`while next != TAIL { .. if check(..) { break } .. }`): judge every way of reaching it
                    import dnf as D
                    cond = D.block_dnf(ev, res, b, r["bb"])
                    if cond:
                        acc_all = all(("bool", chk, True) in c for c in cond)
                        ok = all(("bool", chk, True) in c or (name == "find_position" and any(is_tail(f) for f in c)) for c in cond)
                        accepted, tail = acc_all, ok and not acc_all
                yield Ob(key_of("C10-F2", b.path, "return", n), ok, "returns %s" % ("where the comparator accepted next" if accepted else ("at the tail" if tail else "WITHOUT the comparator accepting and not at the tail")), ctx.loc(r))


@rule("C10-F3", "C10", 6, "pop policy: Optimistic takes the head node named by the sentinel and fails exactly when size > head size; Pessimistic fails exactly when the first-fit search found nothing")
def f3(ctx):
    SIZE = ("param", 1, "size")
    for fl in FLAVOURS:
        b = ctx.facts.one(r"^%s::Arena::alloc_slow_path_optimistic$" % fl)
        ev, res = ctx.eval(b, no_inline=NOINLINE)
        oks = [r for r in res.log if r["kind"] == "ret0" and not r["chain"] and tag(r["value"]) == "variant" and r["value"][2] == "Ok"]
        errs = [r for r in res.log if r["kind"] == "ret0" and not r["chain"] and tag(r["value"]) == "variant" and r["value"][2] == "Err" and "InsufficientSpace" in show(r["value"])]
        # (an error return whose path condition is contradictory - a `let .. else` behind the size test - is not a way to fail)
        import dnf as D
        errs = [r for r in errs if D.block_dnf(ev, res, b, r["bb"]) != []]
        ok = len(oks) == 1
        if ok:
            m = oks[0]["value"][3][0]
            mo = canon(struct_get(m, "memory_offset"))
            head_ok = tag(mo) == "lo" and "sentinel" in show(mo)
            fs = set(canon(f) for f in ctx.facts_of(ev, oks[0]))
            le = [f for f in fs if f[0] == "cmp" and f[1] == "Le" and f[2] == SIZE and tag(f[3]) == "hi"]
            if not le:
                # the bound may hold on every path without any single branch saying so (`!(hs != REMOVED && size > hs)` and a later `hs != REMOVED`)
                more = common_path_literals(ev, oks[0]) or set()
                le = [f for f in more if f[0] == "cmp" and f[1] == "Le" and f[2] == SIZE and tag(f[3]) == "hi"]
            ok = head_ok and bool(le)
        yield Ob(key_of("C10-F3", b.path, "head-pop"), ok, "Ok only for the node the sentinel points to, under size <= head size", b.loc())
        too_small = [r for r in errs if any(f[0] == "cmp" and f[1] == "Gt" and canon(f[2]) == SIZE and tag(canon(f[3])) == "hi" for f in ctx.facts_of(ev, r))]
        empty = [r for r in errs if any(f[0] == "cmp" and f[1] == "Eq" and tag(f[3]) == "named" and f[3][1].startswith("SENTINEL") for f in ctx.facts_of(ev, r))]
        yield Ob(key_of("C10-F3", b.path, "fails-iff"), len(too_small) == 1 and len(empty) == 1 and len(errs) == 2, "InsufficientSpace exactly for an empty list or size > head size (%d Err returns)" % len(errs), b.loc())
        b = ctx.facts.one(r"^%s::Arena::alloc_slow_path_pessimistic$" % fl)
        ev, res = ctx.eval(b, no_inline=NOINLINE)
        srch = [e for e in res.log if e["kind"] == "call" and not e["chain"] and e["callee"].endswith("find_prev_and_next")]
        errs = [r for r in res.log if r["kind"] == "ret0" and not r["chain"] and tag(r["value"]) == "variant" and r["value"][2] == "Err" and "InsufficientSpace" in show(r["value"])]
        if len(errs) > 1:
            # an error return that the search's postcondition rules out (`let Some(..) = seg.split_at(size) else { return Err(..) }` behind a search that only
            # returns segments of at least `size` bytes) is not a way to fail: judged with the search evaluated in place
            ev2, res2 = ctx.eval(b, no_inline=tuple(p_ for p_ in NOINLINE if "find_prev_and_next" not in p_))
            post = set()
            for c_ in res2.log:
                if c_["kind"] == "call" and c_.get("inlined") and c_["callee"].endswith("find_prev_and_next"):
                    post |= set(callee_variant_facts(ctx, ev2, c_, ("Some",)))
            dead = set()
            for r2 in res2.log:
                if r2["kind"] == "ret0" and not r2["chain"] and tag(r2["value"]) == "variant" and r2["value"][2] == "Err":
                    d2 = D.block_dnf(ev2, res2, b, r2["bb"], lit=canon)
                    if d2 is not None and all(D.conj_unsat(set(c2) | post) for c2 in d2):
                        dead.add(r2["bb"])
            errs = [r for r in errs if r["bb"] not in dead]
        ok = len(srch) == 1 and len(errs) == 1 and srch[0]["args"][1] == SIZE
        if ok:
            fs = ctx.facts_of(ev, errs[0])
            ok = any(f[0] == "discr" and f[1] == srch[0]["result"] and f[2] in (("eq", 0), ("ne", (1,))) for f in fs)
        yield Ob(key_of("C10-F3", b.path, "fails-iff-none"), ok, "InsufficientSpace exactly when find_prev_and_next(size, <=) returned None", b.loc())


@rule("C10-F4", "C10", 2, "sibling agreement: validate_segment(offset, size) is true exactly where try_new_segment(offset, size) returns Some - the accept conditions imply each other")
def f4(ctx):
    for fl in FLAVOURS:
        bv = ctx.facts.one(r"^%s::Arena::validate_segment$" % fl)
        bt = ctx.facts.one(r"^%s::Arena::try_new_segment$" % fl)
        ev1, r1 = ctx.eval(bv, no_inline=(r"increase_discarded$",))
        ev2, r2 = ctx.eval(bt, no_inline=(r"increase_discarded$",))

        def strip(t):
            # the same location loaded at two program points of two functions is the same value for this comparison
            def f(x):
                if tag(x) == "load" and len(x) >= 2:            # ("load", site, target) - or already without its site
                    return ("load", term_map(x[-1], f) if isinstance(x[-1], (tuple, Lin)) else x[-1])
                if tag(x) == "call" and len(x) > 3:   # ("call", callee, args, site)
                    return ("call", x[1], tuple(term_map(a, f) if isinstance(a, (tuple, Lin)) else a for a in x[2]))
                return None
            return term_map(canon(t), f)

        # exact accept condition of each function as a DNF: every assignment of the return value contributes the condition of its block - as it is for
        # `true` / `Some(..)`, conjoined with the returned comparison for `return a >= b` (a `&&` chain ends like that), nothing for `false` / `None`
        import dnf as D

        def lit(f):
            if not isinstance(f, tuple) or len(f) < 2:
                return f
            # `a.checked_sub(b)` is Some exactly when b <= a: that comparison is emitted next to the discriminant fact and carries it
            if f[0] == "discr" and tag(f[1]) == "call" and len(f[1]) > 1 and isinstance(f[1][1], str) and f[1][1].endswith("checked_sub"):
                return None
            # likewise Some(v).filter(|_| c) / c.then_some(v): its discriminant says c, and c is emitted next to it; the discriminant of a literal says nothing
            if f[0] == "discr" and (tag(f[1]) == "variant" or (tag(f[1]) == "filter" and len(f[1]) > 1 and tag(f[1][1]) == "variant")):
                return None
            try:
                return strip(f)
            except IndexError:
                if os.environ.get("VERIF_DEBUG_F4"):
                    sys.stderr.write("STRIPFAIL %r\n" % (f,))
                raise

        def accept_dnf(b_, ev_, r_, is_accept, is_reject):
            out = []
            n_acc = 0
            for r in r_.log:
                if r["kind"] != "ret0" or r["chain"]:
                    continue
                v = r["value"]
                if is_reject(v):
                    continue
                base = D.block_dnf(ev_, r_, b_, r["bb"], lit=lit)
                if base is None:
                    return None, 0
                base = D.expand_bool_joins(ev_, r_, b_, base, post=lit)
                if is_accept(v):
                    n_acc += 1
                    out.extend(base)
                elif tag(v) in ("cmp", "not", "booland"):
                    n_acc += 1
                    ls = frozenset(strip(f) for f in implied_facts([(v, ("eq", 1))]))
                    out.extend(c | ls for c in base)
                elif tag(v) == "phi" and len(v) > 4 and v[4] and list(v[4]).count(None) <= 1:
                    # a boolean joined from several exits (of an inlined helper, of an `&&`): true along an exit iff what that exit brings is
                    n_acc += 1
                    for a in D.bool_dnf(ev_, r_, b_, v, True):
                        ls = frozenset(x for x in (lit(f) for f in a) if x is not None)
                        out.extend(c | ls for c in base if not D.conj_unsat(c | ls))
                elif (tag(v) == "variant-is" and tag(v[1]) == "vsum" and len(v[1]) > 3 and v[1][3][0] == "from" and len(v[1][3][1]) == 1
                      and str(v[1][3][1][-1]).startswith(b_.name + "@")):
                    # `helper(..).is_continue()` with the helper's exits inlined: accepted along the exits that built that variant
                    jb = int(str(v[1][3][1][-1]).split("@")[-1])
                    n_acc += 1
                    for nm, origin in v[1][3][2]:
                        if nm != v[2]:
                            continue
                        d_ = D.block_dnf(ev_, r_, b_, r["bb"], lit=lit, forced=((jb, origin),))
                        if d_ is None:
                            return None, 0
                        out.extend(d_)
                else:
                    return None, 0
            return D.expand_bool_joins(ev_, r_, b_, out, post=lit), n_acc
        A, n1 = accept_dnf(bv, ev1, r1, lambda v: v == const(1), lambda v: v == const(0))
        B, n2 = accept_dnf(bt, ev2, r2, lambda v: tag(v) == "variant" and v[2] == "Some", lambda v: tag(v) == "variant" and v[2] == "None")
        ok = A is not None and B is not None and n1 >= 1 and n2 >= 1
        why = "accept returns: %d / %d" % (n1, n2)
        if ok:
            A, B = D.dnf_simplify(A), D.dnf_simplify(B)
            ab, ba = D.dnf_implies(A, B), D.dnf_implies(B, A)
            ok = ab and ba
            if not ok and os.environ.get("VERIF_DEBUG_F4"):
                for nm, d_ in (("A", A), ("B", B)):
                    for c in d_:
                        sys.stderr.write("%s: %s\n" % (nm, sorted(((x[0], show(x[1])[:90], repr(x[2:])[:120]) for x in c), key=repr)))
            why = "accept conditions imply each other (%d / %d disjunct(s))" % (len(A), len(B)) if ok else \
                  "validate_segment accepts %s try_new_segment does%s" % ("where" if not ab else "not everywhere", " not" if not ab else "")
        yield Ob(key_of("C10-F4", "%s::validate_segment|try_new_segment" % fl, "same-conditions"), ok, why, bv.loc())


@rule("C10-F6", "C10", 6, "Freelist::None: the allocation bodies return InsufficientSpace without calling a pop body (freed space is never reused)")
def f6(ctx):
    for fl in FLAVOURS:
        for name in ("alloc_bytes_in", "alloc_aligned_bytes_in", "alloc_in"):
            b = ctx.facts.one(r"^%s::Arena::%s$" % (fl, name))
            ev, res = ctx.eval(b, no_inline=NOINLINE)
            errs = [r for r in res.log if r["kind"] == "ret0" and not r["chain"] and tag(r["value"]) == "variant" and r["value"][2] == "Err" and
                    any(f[0] == "discr" and f[1] == field(SELF, "freelist") and f[2] == ("eq", 0) for f in ctx.facts_of(ev, r))]
            ok = len(errs) == 1 and "InsufficientSpace" in show(errs[0]["value"])
            pops_under_none = [e for e in res.log if e["kind"] == "call" and re.search(r"alloc_slow_path_", e["callee"]) and any(f[0] == "discr" and f[1] == field(SELF, "freelist") and f[2] == ("eq", 0) for f in ctx.facts_of(ev, e))]
            yield Ob(key_of("C10-F6", b.path, "none-fails-without-pop"), ok and not pops_under_none, "Freelist::None arm: Err(InsufficientSpace), no pop body called", b.loc())


@rule("C10-F7", "C10", 2, "the bump path hands out [cursor, cursor + n) without looking at the list, so every linked segment must lie below the cursor: an operation that can lower "
      "the cursor below a linked segment (rewind) has to drop those segments from the list (or the list has to be empty / of kind None); otherwise fresh allocations "
      "overlay free-list nodes, the user's bytes are later read as node words, and the slow path hands out ranges inside live allocations", also=("C04",))
def f7(ctx):
    for fl in FLAVOURS:
        b = ctx.facts.one(r"^<%s::Arena as allocator::Allocator>::rewind$" % fl)
        ev, res = ctx.eval(b)
        cur = [e for e in res.log if (e["kind"] == "call" and e.get("atomic") == "store" and "allocated" in show(e.get("target"))) or
               (e["kind"] == "store" and e.get("how") == "store" and e["path"] and e["path"][-1] == "allocated")]
        trims = [e for e in res.log if (e["kind"] == "call" and re.search(r"::(discard_freelist_in|discard_freelist)$", e["callee"])) or
                 (e["kind"] == "call" and e.get("atomic") in ("store", "compare_exchange") and "sentinel" in show(e.get("target"))) or
                 (e["kind"] == "store" and e.get("how") == "store" and "sentinel" in show((e["base"], e["path"])))]
        none_guard = any(any(f[0] == "discr" and f[1] == field(SELF, "freelist") and f[2] == ("eq", 0) for f in ctx.facts_of(ev, e)) for e in cur)
        ok = bool(cur) and (bool(trims) or none_guard)
        yield Ob(key_of("C10-F7", b.path, "segments-above-new-cursor"), ok,
                 "rewind stores the new cursor (%d site(s)) %s" % (len(cur), "and trims / empties the list" if trims else ("under Freelist::None only" if none_guard else
                 "and leaves every segment linked, also those at or above the new cursor: after `free(a); rewind(Start(0)); alloc(everything)` the next slow-path allocation "
                 "decodes user bytes as a node")), ctx.loc(cur[0]) if cur else b.loc())
