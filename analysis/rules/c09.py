"""C09 - opening validates the file; a refused or read-only open never alters it."""
import re
from engine import rule, Ob, key_of, EXPLAIN, ASSUME
from sym import Lin, add, sub, const, tag, show, is_const, as_lin, implied_facts, struct_get
from util import *
from order import Order, term_eq, atoms_deep

EXPLAIN["C09"] = (
    "Decides on the memmap code (outside the 68-test baseline): the size check dominates the mapping call on the "
    "existing-file path (Op1); every write into an existing file's mapping is dominated by the success edges of "
    "check_capacity and sanity_check (Op2); sanity_check can return Ok only when freelist kind, magic version, format "
    "version and magic text all matched, each compared at the offset the writer uses (Op3/Op4); map_in builds a read-only "
    "Memory and has no write effect on the mapping, writable constructors build read_only = false (Op5); File::set_len only "
    "extends (Op6); every safe public mutator of both arenas reaches its arena write only past a read-only test (Op7). "
    "Not decided: behaviour of the OS mapping itself; arbitrary-bytes files beyond the eight identification bytes.")
ASSUME["C09"] = ["memmap2 maps exactly the requested range; a shared writable mapping writes through to the file",
                 "Options::open honours the access flags cleared by map_in (std::fs::OpenOptions)",
                 "user-requested truncate(true)/set_len semantics are outside the property"]

MEMCFG = ("memmap", "memmap-nooverflow", "memmap-tracing")


def branch_of(res, value):
    """the Try::branch call entry applied to `value`"""
    for e in res.log:
        if e["kind"] == "call" and e["callee"].endswith("::branch") and e["args"] and e["args"][0] == value:
            return e
    return None


def success_fact(res, call_entry):
    """fact meaning 'the `?` on this call's result continued'"""
    val = call_entry["result"]
    # follow map_err wrappers applied to the result
    for e in res.log:
        if e["kind"] == "call" and e["seq"] > call_entry["seq"] and re.search(r"Result::<.*>::map_err$", e["callee"]) and e["args"][0] == val:
            val = e["result"]
    br = branch_of(res, val)
    if br is None:
        return None
    from sym import Evaluator
    return br["result"]


def continues(fs, brval):
    for f in fs:
        if f[0] == "discr" and f[1] == brval and f[2] == ("eq", 0):
            return True
    return False


@rule("C09-Op1", "C09", 2, "existing-file path: the mapping call is dominated by the false edge of `file_size - offset < prefix_size` (too-small files are refused before mapping)", configs=MEMCFG)
def op1(ctx):
    for name in ("map_mut_in", "map_in"):
        b = ctx.facts.one(r"^memory::Memory::<R, PR, H>::%s$" % name)
        ev, res = ctx.eval(b, no_inline=(r"\{closure",))
        # the mapping function is the closure / fn parameter, whatever its position in the signature
        maps = [e for e in res.log if e["kind"] == "call" and not e["chain"] and re.search(r"FnOnce.*::call_once$", e["callee"]) and e["args"] and tag(e["args"][0]) == "param"]
        # (the tail behind an inlined helper's exits may have been copied per exit by the loader: one source call, several sites)
        if len(maps) > 1 and len(set(ctx.loc(e) for e in maps)) == 1:
            dup = maps[1:]
            maps = maps[:1]
        else:
            dup = []
        if len(maps) != 1:
            yield Ob(key_of("C09-Op1", b.path, "map-call"), False, "expected exactly one call of the mapping function f, found %d" % len(maps), b.loc())
            continue
        e = maps[0]
        fs = ctx.facts_of(ev, e)
        for d_ in dup:
            fs = set(fs) & set(ctx.facts_of(ev, d_))      # what holds at every copy
        A, S = ("align_of", "H"), ("size_of", "H")
        ok = False
        for f in fs:
            if f[0] == "cmp" and f[1] in ("Ge", "Le"):
                small, big = (f[3], f[2]) if f[1] == "Ge" else (f[2], f[3])
                if tag(big) == "satsub" and isinstance(small, Lin) and any(tag(a) == "alignUp" for a in small.m) and small.m.get(A) == 1 and small.m.get(S) == 1:
                    ok = True
        if not ok and name == "map_mut_in":
            # `if !create_new { if too_small { return Err } }`: every path to the mapping call takes either the false edge of
            # the size test or the edge on which the local `create_new` is true (the file was just created and is empty)
            # the size test in either spelling: satsub(file_size, offset) < prefix  /  prefix > satsub(file_size, offset)
            # .. against the unified prefix alignUp(align_of H, reserved) + align_of H + size_of H (a file arena always has the unified layout, whatever
            # the caller's `unify` option says)
            def unified_prefix(t):
                return isinstance(t, Lin) and any(tag(a) == "alignUp" for a in t.m) and t.m.get(A) == 1 and t.m.get(S) == 1 and not any(tag(a) == "phi" for a in t.m)
            def thr(c):
                return c[3] if tag(c[2]) == "satsub" else c[2]
            size_sw = [(x, 0) for x, c in res.conds.items() if tag(c) == "cmp" and ((c[1] == "Lt" and tag(c[2]) == "satsub") or (c[1] == "Gt" and tag(c[3]) == "satsub")) and unified_prefix(thr(c))]
            size_sw += [(x, 1) for x, c in res.conds.items() if tag(c) == "cmp" and ((c[1] == "Ge" and tag(c[2]) == "satsub") or (c[1] == "Le" and tag(c[3]) == "satsub")) and unified_prefix(thr(c))]
            # the flag is the bool that Options::open returned together with the file (whatever the local is called)
            cn = [i for i, l in enumerate(b.locals) if l["ty"] == "bool" and l["name"] and any(
                  "open(" in show(env.get(i)) for env in list(res.env_out.values())[:40] if env.get(i) is not None)]
            if not cn:
                cn = [i for i, l in enumerate(b.locals) if l["name"] == "create_new"]
            if size_sw and cn:
                x, passv = size_sw[0]
                t = b.blocks[x]["term"]
                arms = {int(v): bb for v, bb in t["arms"]}
                pass_tgt = arms.get(passv, t["otherwise"])
                removed = {(x, pass_tgt)}
                for y, c in res.conds.items():
                    if y != x and b.dominates(y, x) and res.env_out.get(y, {}).get(cn[0]) == c:
                        ty = b.blocks[y]["term"]
                        if [int(v) for v, _ in ty["arms"]] == [0]:
                            removed.add((y, ty["otherwise"]))  # create_new == true
                ok = len(removed) == 2 and e["bb"] not in b.reach(0, removed=frozenset(removed))
        yield Ob(key_of("C09-Op1", b.path, "size-check"), ok, "mapping call dominated by file_size - offset >= prefix_size (or the file was just created)", ctx.loc(e),
                 {"facts": sorted(show(f) for f in fs if f[0] == "cmp")[:5]})


def mapping_writes(res):
    out = []
    for e in res.log:
        if is_raw_write(e):
            out.append(e)
        elif e["kind"] == "store" and e.get("how") == "store" and tag(e["base"]) != "param":
            out.append(e)
        elif is_atomic_write(e):
            out.append(e)
    return out


def header_method_writes(ctx, res):
    """Calls, in an evaluated open function, of a `sealed::Header` trait method on the mapped header (opaque there: H is generic) whose implementation for the
    sync or the unsync header stores into the header - a plain store through `self`, a non-load atomic, or a raw write. The implementations are read on every run."""
    out = []
    for e in res.log:
        if e["kind"] != "call" or not e.get("opaque"):
            continue
        m = re.match(r"^sealed::Header::(\w+)$", e["callee"])
        if not m or not e["args"]:
            continue
        impls = ctx.facts.find(r"^<(?:un)?sync::sealed::Header as sealed::Header>::%s$" % m.group(1))
        if not impls:
            continue
        for ib in impls:
            iev, ires = ctx.eval(ib)
            bad = [x for x in ires.log if is_raw_write(x) or is_atomic_write(x) or is_heap_store(x) or (x["kind"] == "call" and x.get("atomic") == "get_mut")]
            if bad:
                f = dict(e)
                f["effect"] = "header method %s (%s stores into the header)" % (m.group(1), ib.path)
                out.append((e, f))
                break
    return out


@rule("C09-Op2", "C09", 4, "map_mut_in: every write into the mapping happens either on the create_new path or after check_capacity and "
      "sanity_check have succeeded (a refused open leaves the file's bytes untouched)", configs=MEMCFG, also=("C05", "C06",))
def op2(ctx):
    b = ctx.facts.one(r"^memory::Memory::<R, PR, H>::map_mut_in::\{closure#0\}$")
    ev, res = ctx.eval(b, no_inline=(r"::mlock$",))
    CN = ("upvar", "create_new")
    san = [e for e in res.log if e["kind"] == "call" and e["callee"] == "sanity_check"]
    cc = [e for e in res.log if e["kind"] == "call" and e["callee"] == "memory::check_capacity"]
    if len(san) != 1 or len(cc) != 1:
        yield Ob(key_of("C09-Op2", b.path, "anchors"), False, "expected one sanity_check and one check_capacity call (found %d, %d)" % (len(san), len(cc)), b.loc())
        return
    san_ok, cc_ok = success_fact(res, san[0]), success_fact(res, cc[0])
    ws = mapping_writes(res) + [f for _e, f in header_method_writes(ctx, res)]
    n = 0
    for e in ws:
        fs = ctx.facts_of(ev, e)
        created = ("bool", CN, True) in fs
        validated = san_ok is not None and continues(fs, san_ok)
        capok = cc_ok is not None and continues(fs, cc_ok)
        ok = capok and (created or validated)
        n += 1
        what = e.get("effect") or e.get("how") or e["kind"]
        yield Ob(key_of("C09-Op2", b.path, "write-%s" % what, n), ok,
                 "%s into the mapping: create_new=%s, after sanity_check=%s, after check_capacity=%s" % (what, created, validated, capok), ctx.loc(e),
                 {"dst": short(e.get("dst") or e.get("base"), 120)})
    # the sanity_check call itself is on the existing-file path
    fs = ctx.facts_of(ev, san[0])
    yield Ob(key_of("C09-Op2", b.path, "sanity-on-existing"), ("bool", CN, False) in fs, "sanity_check runs exactly when the file already existed", ctx.loc(san[0]))


@rule("C09-Op2r", "C09", 2, "map_in (read-only open): no write effect on the mapping at all; sanity_check and check_capacity dominate the Ok return", configs=MEMCFG)
def op2r(ctx):
    b = ctx.facts.one(r"^memory::Memory::<R, PR, H>::map_in::\{closure#0\}$")
    ev, res = ctx.eval(b, no_inline=(r"::mlock$",))
    ws = mapping_writes(res) + [f for _e, f in header_method_writes(ctx, res)]
    yield Ob(key_of("C09-Op2r", b.path, "no-write"), not ws, "read-only open writes nothing into the mapping (%d write effects)" % len(ws), b.loc(), {"writes": [ctx.loc(e) for e in ws][:3]})
    san = [e for e in res.log if e["kind"] == "call" and e["callee"] == "sanity_check"]
    cc = [e for e in res.log if e["kind"] == "call" and e["callee"] == "memory::check_capacity"]
    oks = [e for e in res.log if e["kind"] == "ret0" and not e["chain"] and tag(e["value"]) == "variant" and e["value"][2] == "Ok"]
    ok = len(san) == 1 and len(cc) == 1 and bool(oks)
    if ok:
        s_ok, c_ok = success_fact(res, san[0]), success_fact(res, cc[0])
        for e in oks:
            fs = ctx.facts_of(ev, e)
            ok = ok and s_ok is not None and c_ok is not None and continues(fs, s_ok) and continues(fs, c_ok)
    elif len(san) == 1 and not cc and oks:
        # the capacity comparison made without check_capacity (a helper that takes the precomputed layout): Ok lies behind `prefix <= mapped length`
        s_ok = success_fact(res, san[0])
        ok = s_ok is not None and all(continues(ctx.facts_of(ev, e), s_ok) and prefix_fits_fact(set(canon(f) for f in ctx.facts_of(ev, e))) for e in oks)
    yield Ob(key_of("C09-Op2r", b.path, "validated"), ok, "Ok(Memory) only after both validations succeeded", b.loc())
    # the expected freelist handed to the validator is None (kind taken from the file) and the stored kind is what Memory gets
    if san:
        yield Ob(key_of("C09-Op2r", b.path, "freelist-from-file"), tag(san[0]["args"][0]) == "variant" and san[0]["args"][0][2] == "None",
                 "read-only open passes None as expected freelist (kind comes from the file)", ctx.loc(san[0]))


def index_key(e):
    """byte range an index / index_mut / place-index designates: ('idx', k) or (start, end)"""
    r = e["args"][1] if len(e["args"]) > 1 else None
    if tag(r) == "struct" and r[1].endswith("Range"):
        s, t = struct_get(r, "start"), struct_get(r, "end")
        if is_const(s) and is_const(t):
            return (s.c, t.c)
    return None


@rule("C09-Op3", "C09", 5, "sanity_check returns Ok only if: the stored freelist byte decodes, equals the expected kind when one is given, and the stored "
      "magic version, format version and magic text equal the expected values (no mismatch edge reaches the Ok return)", configs=MEMCFG)
def op3(ctx):
    b = ctx.facts.one(r"^sanity_check$")
    ev, res = ctx.eval(b, no_inline=(r"try_from$",))
    okret = [e for e in res.log if e["kind"] == "ret0" and not e["chain"] and tag(e["value"]) == "variant" and e["value"][2] == "Ok"]
    if len(okret) != 1:
        yield Ob(key_of("C09-Op3", b.path, "ok-return"), False, "expected one Ok return, found %d" % len(okret), b.loc())
        return
    okbb = okret[0]["bb"]
    # the exact condition of the Ok return: Ok implies each identification test iff every disjunct carries that test's literal
    import dnf as D
    cond = D.block_dnf(ev, res, b, okbb)
    if not cond:
        yield Ob(key_of("C09-Op3", b.path, "ok-return"), False, "the path condition of the Ok return could not be computed", b.loc())
        return
    FL = ("param", 0, "freelist")

    def has(c, pred):
        return any(pred(f) for f in c)

    def is_ne_false(f, what):
        # `a != b` is false / `a == b` is true, for the comparison `what` recognises
        if f[0] == "bool" and tag(f[1]) == "call" and f[1][1].endswith("::ne") and f[2] is False and what(show(f[1])):
            return True
        if f[0] == "bool" and tag(f[1]) == "call" and f[1][1].endswith("::eq") and f[2] is True and what(show(f[1])):
            return True
        return False
    tests = {
        "freelist-decodes": lambda c: has(c, lambda f: f[0] == "discr" and "try_from" in show(f[1]) and f[2] in (("eq", 0), ("ne", (1,)))),
        "freelist-equals-expected": lambda c: has(c, lambda f: is_ne_false(f, lambda s_: "try_from" in s_)) or
                                              has(c, lambda f: (f[0] == "discr" and f[1] == FL and f[2] in (("eq", 0), ("ne", (1,)))) or
                                                               (f[0] == "is" and f[1] == "is_some" and f[2] == FL and f[3] is False) or
                                                               (f[0] == "is" and f[1] == "is_none" and f[2] == FL and f[3] is True)),
        "magic-version": lambda c: has(c, lambda f: f[0] == "cmp" and f[1] == "Eq" and "from_le_bytes" in show(f) and mentions(f, ("param", 1, "magic_version"))),
        "format-version": lambda c: has(c, lambda f: f[0] == "cmp" and f[1] == "Eq" and "from_le_bytes" in show(f) and not mentions(f, ("param", 1, "magic_version"))),
        "magic-text": lambda c: has(c, lambda f: is_ne_false(f, lambda s_: "index(data, Range" in s_ and "constpath" in s_)),
    }
    roles = {}
    for role, t_ in tests.items():
        ok = all(t_(c) for c in cond)
        roles[role] = ok
        yield Ob(key_of("C09-Op3", b.path, role + "-guards-ok"), ok, "%s: every path condition of the Ok return (%d disjunct(s)) contains this test%s" %
                 (role, len(cond), " (or carries no expected kind)" if role == "freelist-equals-expected" else ""), ctx.loc(okret[0]))
        yield Ob(key_of("C09-Op3", b.path, role), ok, "%s: Ok implies the test" % role, ctx.loc(okret[0]))
    # the format version is compared against CURRENT_VERSION and the text against MAGIC_TEXT
    cv = [c for c in res.conds.values() if tag(c) == "cmp" and "from_le_bytes" in show(c) and not mentions(c, ("param", 1, "magic_version"))]
    ok_cv = bool(cv) and any(is_const(x) and x.c == 0 for x in (cv[0][2], cv[0][3]))
    yield Ob(key_of("C09-Op3", b.path, "current-version-const"), ok_cv, "stored format version compared with CURRENT_VERSION", b.loc())


@rule("C09-Op4", "C09", 4, "writer/reader table agreement: write_sanity and sanity_check use the same byte positions for freelist kind, magic text, magic version and format version", configs=MEMCFG)
def op4(ctx):
    w = ctx.facts.one(r"^write_sanity$")
    r = ctx.facts.one(r"^sanity_check$")
    evw, rw = ctx.eval(w)
    evr, rr = ctx.eval(r, no_inline=(r"try_from$",))

    def table(res, writer):
        t = {}
        for e in res.log:
            if e["kind"] == "call" and re.search(r"::index(_mut)?$", e["callee"]):
                k = index_key(e)
                if k is None:
                    continue
                # role by what is written / how it is used
                t.setdefault(k, set())
        return t
    # writer: copy_from_slice(dst=index_mut(data, range), src=...) ; data[1] = freelist
    wt = {}
    for e in rw.log:
        if e["kind"] == "call" and e.get("effect") == "copy_from_slice":
            dst, src = e["dst"], e["src"]
            if tag(src) == "ref":
                src = evw._deref_val(src)        # the bytes behind a reference to a local (`let v = x.to_le_bytes(); .. &v`)
            rng = None
            if tag(dst) == "call" and dst[1].endswith("index_mut"):
                rr_ = dst[2][1]
                if tag(rr_) == "struct":
                    s, t = struct_get(rr_, "start"), struct_get(rr_, "end")
                    rng = (s.c, t.c) if is_const(s) and is_const(t) else None
            ssrc = show(src)
            role = "magic-text" if "constpath" in ssrc else ("magic-version" if "magic_version" in ssrc else ("format-version" if "to_le_bytes(0)" in ssrc else "?"))
            wt[role] = rng
        if e["kind"] == "store" and e["path"] and isinstance(e["path"][-1], tuple) and e["path"][-1][0] == "idx":
            iv = e["path"][-1][1]
            wt["freelist"] = ("idx", iv.c if is_const(iv) else show(iv))
    rt = {}
    for e in rr.log:
        if e["kind"] == "call" and e["callee"].endswith("::index") and not e["chain"]:
            k = index_key(e)
            res_t = e["result"]
            users = [u for u in rr.log if u["kind"] == "call" and u["seq"] > e["seq"] and any(mentions(a, res_t) for a in u["args"])]
            su = " ".join(u["callee"] for u in users)
            conds = [show(c) for c in rr.conds.values() if mentions(c, res_t)]
            if any("constpath" in c and "ne(" in c for c in conds):
                rt["magic-text"] = k
            elif any("magic_version" in c for c in conds):
                rt["magic-version"] = k
            elif conds:
                rt["format-version"] = k
    for e in rr.log:
        if e["kind"] == "call" and e["callee"].endswith("try_from") and not e["chain"]:
            a = e["args"][0]
            if tag(a) == "hload" and a[1] == ("param", 2, "data") and len(a[2]) == 1 and a[2][0][0] == "idx" and is_const(a[2][0][1]):
                rt["freelist"] = ("idx", a[2][0][1].c)
    for role in ("freelist", "magic-text", "magic-version", "format-version"):
        ok = role in wt and role in rt and wt[role] == rt[role] and wt[role] is not None
        yield Ob(key_of("C09-Op4", "write_sanity|sanity_check", role), ok, "%s: writer at %s, reader at %s" % (role, wt.get(role), rt.get(role)), r.loc())


@rule("C09-Op5", "C09", lambda cfg: 4 if "memmap" in cfg else 1, "constructor flags: map_in builds Memory{read_only: true}; alloc, map_anon and map_mut_in build read_only: false")
def op5(ctx):
    want = {"map_in::{closure#0}": 1, "map_mut_in::{closure#0}": 0, "map_anon::{closure#0}": 0, "alloc": 0}
    for name, ro in want.items():
        if not ctx.memmap and name != "alloc":
            continue
        b = ctx.facts.one(r"^memory::Memory::<R, PR, H>::%s$" % re.escape(name))
        aggs = []
        for bi in sorted(b.reachable):
            for si, st in enumerate(b.blocks[bi]["stmts"]):
                rv = st["rv"]
                if rv["k"] == "agg" and isinstance(rv["kind"], dict) and rv["kind"].get("adt") == "memory::Memory":
                    i = rv["kind"]["fields"].index("read_only")
                    aggs.append((bi, si, rv["ops"][i]))
        ok = len(aggs) == 1 and "const" in aggs[0][2] and aggs[0][2]["const"]["int"] is not None and int(aggs[0][2]["const"]["int"]) == ro
        yield Ob(key_of("C09-Op5", b.path, "read_only-flag"), ok, "Memory aggregate has read_only = %s (constant)" % bool(ro), b.loc(aggs[0][0], aggs[0][1]) if aggs else b.loc())


@rule("C09-Op13", "C09", 1, "an existing file is judged as it was found: the too-small test of the writable open lies in front of File::set_len (the test of a length that the "
      "open has just extended to the capacity option never fails - a file cut inside its header would be padded with zeros and opened)", configs=MEMCFG, also=("C05", "C06"))
def op13(ctx):
    b = ctx.facts.one(r"^memory::Memory::<R, PR, H>::map_mut_in$")
    ev, res = ctx.eval(b, no_inline=(r"\{closure",))
    sl = [e for e in res.log if e["kind"] == "call" and not e["chain"] and e["callee"].endswith("File::set_len")]
    # the refusal: an Err return under `file length - offset < prefix`
    errs = [r for r in res.log if r["kind"] == "ret0" and not r["chain"] and tag(r["value"]) == "variant" and r["value"][2] == "Err" and
            any(f[0] == "cmp" and f[1] in ("Lt", "Gt") and "header" not in show(f)[:0] and ("align_of" in show(f) or "size_of" in show(f)) and ("metadata" in show(f) or "len" in show(f)) for f in ctx.facts_of(ev, r))]
    if not sl or not errs:
        yield Ob(key_of("C09-Op13", b.path, "anchors"), False, "set_len call(s): %d, too-small refusal(s): %d" % (len(sl), len(errs)), b.loc())
        return
    # the block that decides the refusal: the switch whose edge leads to the Err return; it must dominate every set_len
    conds = [x for x, c in res.conds.items() if tag(c) == "cmp" and ("align_of" in show(c) or "size_of" in show(c)) and ("metadata" in show(c) or "len" in show(c))]
    import dnf as D
    # what the test itself is guarded by (`if !create_new`): a way to set_len that does not pass the test must be a newly created file
    own = set()
    for x in conds:
        for f in implied_facts(ev.guards(res, x)):
            if f[0] == "bool":
                own.add(f)
    ok = bool(conds) and "set_len" not in " ".join(show(res.conds[x]) for x in conds)
    n = 0
    for e in sl:
        avoid = D.block_dnf(ev, res, b, e["bb"], stop=frozenset(conds))
        if avoid is None:
            ok = False
            continue
        for c in avoid:
            n += 1
            ok = ok and any(f[0] == "bool" and ("bool", f[1], not f[2]) in own for f in c)
    yield Ob(key_of("C09-Op13", b.path, "size-test-before-set_len"), ok, "the too-small test (block(s) %s) lies in front of the %d set_len call(s); %d way(s) around it, each for a file the open has just created" %
             (conds, len(sl), n), ctx.loc(sl[0]))


@rule("C09-Op6", "C09", 1, "File::set_len is called only under file_size < offset + capacity (the file is only ever extended on open)", configs=MEMCFG)
def op6(ctx):
    b = ctx.facts.one(r"^memory::Memory::<R, PR, H>::map_mut_in$")
    ev, res = ctx.eval(b, no_inline=(r"\{closure",))
    # (Options::open sizes a file it has just created; that is creation, not an open of an existing file)
    sl = [e for e in res.log if e["kind"] == "call" and e["callee"].endswith("File::set_len") and not (e["body"].path.endswith("Options>::open") or any(p_.endswith("Options>::open") for p_, _ in e["chain"]))]
    if not sl:
        yield Ob(key_of("C09-Op6", b.path, "set_len"), False, "no set_len call found (anchor)", b.loc())
    for e in sl:
        fs = ctx.facts_of(ev, e)
        newlen = e["args"][1]
        ok = any(f[0] == "cmp" and f[1] == "Lt" and term_eq(f[3], newlen) for f in fs)
        yield Ob(key_of("C09-Op6", b.path, "set_len"), ok, "set_len(%s) guarded by file_size < that length" % short(newlen, 80), ctx.loc(e))
    b2 = ctx.facts.one(r"^memory::Memory::<R, PR, H>::map_in$")
    n = [t for _, t in b2.calls() if (t.get("callee") or "").endswith("File::set_len")]
    yield Ob(key_of("C09-Op6", b2.path, "no-set_len"), not n, "read-only open never calls set_len", b2.loc())


@rule("C09-Op11", "C09", 2, "Options::open sizes (File::set_len) only a file it has just created, and reports `created` only for such a file: every path to a set_len call and "
      "to an Ok((true, file)) return carries the evidence that the file is new - the create_new flag (the OS refuses an existing file) or a failed exists() test. An existing "
      "arena opened with create(true) is never cut or grown to the capacity option before it has been validated (behind a mapping offset the cut removes the last bytes of "
      "the arena and the later growth puts zeros there), and its header is never taken for a new one", configs=MEMCFG, also=("C05", "C06"))
def op11(ctx):
    import dnf as D
    b = ctx.facts.one(r"options::Options>::open$|^options::Options::open$")
    ev, res = ctx.eval(b)

    def new_evidence(c):
        for f in c:
            if f[0] == "bool" and tag(f[1]) == "field" and f[1][2] == "create_new" and f[2] is True:
                return True
            if f[0] == "bool" and tag(f[1]) == "call" and f[1][1].endswith("::exists") and f[2] is False:
                return True
        return False

    def judge(e, extra=()):
        # the path condition of the site; a flag that was joined from several edges (`let created = a || (b && !exists)`) and is known to hold there - tested
        # directly or through `capacity.filter(|_| created)` - is expanded into the ways it can hold
        cond = [c for c in D.guard_dnf(list(ctx.guards_of(ev, e)) + list(extra)) if not D.conj_unsat(c)]
        out = []
        for c in cond:
            alts = [c]
            if e["body"] is b:
                for f in sorted(c, key=repr):
                    if f[0] == "bool" and tag(f[1]) in ("phi", "not"):
                        exp = D.bool_dnf(ev, res, b, f[1], f[2])
                        alts = [x | y for x in alts for y in exp if not D.conj_unsat(x | y)][:256]
            out.extend(alts)
        return bool(out) and all(new_evidence(c) for c in out), len(out)
    sl = [e for e in res.log if e["kind"] == "call" and e["callee"].endswith("File::set_len")]
    for i, e in enumerate(sl, 1):
        ok, n = judge(e)
        yield Ob(key_of("C09-Op11", b.path, "set_len-only-on-a-new-file", i), ok, "set_len(%s): %d path condition(s), each with create_new / !exists()" % (short(e["args"][1], 60), n), ctx.loc(e))
    n_ret = 0
    for r in res.log:
        if r["kind"] != "ret0" or r["chain"]:
            continue
        v = r["value"]
        oks = []
        if tag(v) == "variant" and v[2] == "Ok":
            oks = [v[3][0]]
        elif tag(v) == "vsum":
            oks = [p_[0] for n_, p_ in v[2] if n_ == "Ok" and p_]
        for t in oks:
            flag = t[1][0] if tag(t) == "tuple" and t[1] else None
            if flag is None:
                yield Ob(key_of("C09-Op11", b.path, "created-flag"), False, "Ok value is not a (created, file) pair: %s" % short(t, 80), ctx.loc(r))
                continue
            if is_const(flag) and flag.c == 0:
                continue
            n_ret += 1
            extra = () if is_const(flag) else ((flag, ("eq", 1)),)
            ok, n = judge(r, extra)
            yield Ob(key_of("C09-Op11", b.path, "created-only-for-a-new-file", n_ret), ok, "Ok((%s, file)): %d path condition(s), each with create_new / !exists()" % (short(flag, 40), n), ctx.loc(r))
    yield Ob(key_of("C09-Op11", b.path, "sites"), bool(sl) and n_ret >= 1, "%d set_len call(s), %d return(s) that can report a created file" % (len(sl), n_ret), b.loc())


@rule("C09-Op12", "C09", 4, "the read-only open hands Options::open a flag set that cannot create, cut or extend the file whatever the caller's options say: create, "
      "create_new, append and truncate are false at the call (an Options value reused from the creating call, with truncate(true), would otherwise empty the "
      "file before the open is refused)", configs=MEMCFG, also=("C05", "C06"))
def op12(ctx):
    b = ctx.facts.one(r"^memory::Memory::<R, PR, H>::map_in$")
    ev, res = ctx.eval(b, no_inline=(r"\{closure", r"Options>::open$|Options::open$"))
    opens = [e for e in res.log if e["kind"] == "call" and not e["chain"] and re.search(r"Options>::open$|Options::open$", e["callee"])]
    if len(opens) != 1:
        yield Ob(key_of("C09-Op12", b.path, "open-call"), False, "expected one Options::open call, found %d" % len(opens), b.loc())
        return
    # the options value at the call: what the chain of builder calls in front of it produced
    chain = [e for e in res.log if e["kind"] == "call" and not e["chain"] and re.search(r"Options>?::with_\w+$", e["callee"]) and e["seq"] < opens[0]["seq"]]
    o = chain[-1]["result"] if chain else ev._deref_val(opens[0]["args"][0])
    for fld in ("create", "create_new", "append", "truncate"):
        v = struct_get(o, fld) if tag(o) == "struct" else None
        ok = v is not None and is_const(v) and as_lin(v).c == 0
        yield Ob(key_of("C09-Op12", b.path, "flag-" + fld), ok, "Options::open is called with %s = %s" % (fld, short(v, 40) if v is not None else "?"), ctx.loc(opens[0]))


SAFE_MUTATOR_EXEMPT = {
    # effects that are not writes into the arena's backing memory
}


def arena_write_effects(res):
    out = []
    for e in res.log:
        if is_raw_write(e):
            out.append(e)
        elif is_atomic_write(e):
            tgt = show(e.get("target"))
            if "refs" in tgt or "remove_on_drop" in tgt:
                continue
            out.append(e)
        elif e["kind"] == "store" and e.get("how") == "store":
            base = e["base"]
            sb = show(base)
            if tag(base) == "param":
                continue
            if not is_backing(base):
                continue
            out.append(e)
    return out


def is_backing(base):
    """does the stored-to location lie in the arena's backing memory (as opposed to the heap-allocated Memory struct)?
    Backing memory is reached through Arena.ptr / Memory.ptr, header(), raw_mut_ptr() or a mapping's as_mut_ptr()."""
    def hit(t):
        tg = tag(t)
        if tg == "call" and re.search(r"(::header|raw_mut_ptr|as_mut_ptr|get_segment_node)$", t[1]):
            return True
        if tg == "field" and t[2] == "ptr":
            return True
        if tg == "hload" and t[2] and t[2][-1] == "ptr":
            return True
        return False
    return term_contains(base, hit)


@rule("C09-Op7", "C09", 20, "read-only guard coverage: in every safe public method of both arenas, each write into the backing memory "
      "(raw write, atomic store/RMW/CAS, plain store to header or node) is reached only past a test of the read-only flag "
      "(memmap builds only: without memmap no constructor builds a read-only arena, see Op5)", configs=MEMCFG)
def op7(ctx):
    SELF = ("param", 0, "self")
    for fl in ("sync", "unsync"):
        meths = [b for b in ctx.facts.own if (b.impl_self == "%s::Arena" % fl and b.kind == "AssocFn" and b.vis == "pub" and not b.is_unsafe)]
        # trait impl methods are 'restricted' visibility in facts (visibility of trait impl items = trait's); take them by impl_trait
        meths += [b for b in ctx.facts.own if b.impl_self == "%s::Arena" % fl and b.impl_trait == "allocator::Allocator" and not b.is_unsafe]
        seen = set()
        for b in meths:
            if b.path in seen:
                continue
            seen.add(b.path)
            ev, res = ctx.eval(b)
            effs = arena_write_effects(res)
            if not effs:
                yield Ob(key_of("C09-Op7", b.path, "no-arena-write"), True, "no write into the backing memory", b.loc(), trivial=True)
                continue
            bad = []
            for e in effs:
                fs = set(canon(f, {"ro"}) for f in ctx.facts_of(ev, e))
                guarded = ("bool", field(SELF, "ro"), False) in fs or any(f[0] == "bool" and f[2] is False and re.search(r"read_only\(", show(f[1])) for f in fs)
                if not guarded:
                    bad.append(e)
            yield Ob(key_of("C09-Op7", b.path, "ro-guard"), not bad,
                     "%d arena write(s); %s" % (len(effs), "all behind a read-only test" if not bad else "NOT guarded: %s at %s (a read-only mapping faults here)" % (bad[0].get("atomic") or bad[0].get("effect") or "store", ctx.loc(bad[0]))),
                     ctx.loc(bad[0]) if bad else b.loc())


OPEN_TABLE = {
    # open function (with or without `_with_path_builder`) -> (inner constructor, mapping function): read-only opens go through map_in, which builds
    # Memory{read_only: true} (Op5) and never calls set_len (Op6); writable / copy-on-write opens go through map_mut_in
    "map": ("map_in", "memory::mmap"),
    "map_copy_read_only": ("map_in", "memory::mmap_copy_read_only"),
    "map_mut": ("map_mut_in", "memory::mmap_mut"),
    "map_copy": ("map_mut_in", "memory::mmap_copy"),
}


@rule("C09-Op8", "C09", 16, "open-function dispatch: every Memory::map* wrapper calls the constructor of its own kind with its own mapping function (read-only opens: map_in with "
      "mmap / mmap_copy_read_only; writable and copy-on-write opens: map_mut_in with mmap_mut / mmap_copy), and every Options::map* calls the Memory function of the same name",
      configs=MEMCFG, also=("C05",))
def op8(ctx):
    for b in ctx.facts.find(r"^memory::Memory::<R, PR, H>::map(_mut|_copy|_copy_read_only)?(_with_path_builder)?$"):
        kind = b.name.replace("_with_path_builder", "")
        want = OPEN_TABLE.get(kind)
        ev, res = ctx.eval(b, no_inline=(r"::map_in$", r"::map_mut_in$"))
        calls = [e for e in res.log if e["kind"] == "call" and re.search(r"::(map_in|map_mut_in)$", e["callee"])]
        ok = want is not None and len(calls) == 1
        got = None
        if calls:
            e = calls[0]
            fns = [a for a in e["args"] if tag(a) == "fn"]
            f = fns[0] if len(fns) == 1 else None
            got = (e["callee"].split("::")[-1], f[1] if tag(f) == "fn" else show(f))
            ok = ok and got == want
        yield Ob(key_of("C09-Op8", b.path, "constructor"), ok, "%s -> %s (expected %s)" % (b.name, got, want), b.loc())
    for b in ctx.facts.find(r"open_options::<impl options::Options>::map(_mut|_copy|_copy_read_only)?(_with_path_builder)?$"):
        inner = [(t.get("resolved") or t.get("callee") or "") for _, t in b.calls()]
        mem = [c for c in inner if re.search(r"Memory::<.*>::map\w*$", c) or re.search(r"allocator::Sealed>?::map\w*$|::map(_mut|_copy|_copy_read_only)(_with_path_builder)?$", c)]
        names = sorted(set(c.split("::")[-1] for c in mem if c.split("::")[-1].startswith("map")) - {"map"} if b.name != "map" else set(c.split("::")[-1] for c in mem))
        ok = b.name in [c.split("::")[-1] for c in mem]
        others = [n for n in set(c.split("::")[-1] for c in mem) if n != b.name and n != "map" and n.startswith("map")]
        yield Ob(key_of("C09-Op8", b.path, "same-name"), ok and not others, "Options::%s calls %s" % (b.name, sorted(set(c.split("::")[-1] for c in mem))), b.loc())


@rule("C09-Op9", "C09", 2, "the open functions compute with the file's length and the caller's offset / capacity before anything is validated: no such subtraction can "
      "underflow (a file shorter than the mapping offset must be refused with an error, not with a panic) and no sum `offset + length` can exceed u64 (with_offset takes "
      "any u64: the sum must be checked, not wrapped into a small file length or a panic); the re-mapping in Memory::truncate computes the same sum", configs=MEMCFG, also=("C18",))
def op9(ctx):
    for name in ("map_in", "map_mut_in", "truncate"):
        b = ctx.facts.one(r"^memory::Memory::<R, PR, H>::%s$" % name)
        ev, res = ctx.eval(b, no_inline=(r"\{closure",))
        subs = [a for a in res.log if a["kind"] == "arith" and a["op"] == "Sub" and not a.get("unchecked")] if name != "truncate" else []
        bad = 0
        for a in subs:
            fs = set(canon(f) for f in ctx.facts_of(ev, a))
            x, y = canon(a["a"]), canon(a["b"])
            if not Order(fs).le(y, x):
                bad += 1
                role = "file-size-minus-offset" if ("metadata" in show(x) and "offset" in show(y)) else "subtraction"
                yield Ob(key_of("C09-Op9", b.path, role, bad), False,
                         "Sub(%s, %s) in %s is not dominated by a guard: a file shorter than that panics (overflow checks) or wraps instead of being refused" % (short(x, 70), short(y, 50), name), ctx.loc(a))
        adds = [a for a in res.log if a["kind"] == "arith" and a["op"] == "Add" and not a["chain"] and re.search(r"\boffset\b", show(a["a"]) + " " + show(a["b"]))]
        badd = 0
        for a in adds:
            fs = set(canon(f) for f in ctx.facts_of(ev, a))
            x, y = canon(a["a"]), canon(a["b"])
            # an Option<u32> capacity widened to u64 is at most u32::MAX
            ext = [sub(const(2**32 - 1), t) for t in atoms_deep(as_lin(add(x, y))) if tag(t) == "payload" and "capacity" in show(t)]
            if not Order(fs, extra_ge0=ext).le(add(x, y), const(2**64 - 1)):
                badd += 1
                yield Ob(key_of("C09-Op9", b.path, "offset-plus-length", badd), False,
                         "Add(%s, %s) in %s is unchecked: with_offset(u64::MAX - 7) panics under overflow checks and otherwise wraps into a small length passed to File::set_len" % (short(x, 60), short(y, 50), name), ctx.loc(a))
        yield Ob(key_of("C09-Op9", b.path, "subtractions"), True, "%d subtraction(s) / %d offset sum(s) on the %s path, %d / %d unguarded" % (len(subs), len(adds), name, bad, badd), b.loc(), trivial=bad + badd == 0)


@rule("C09-Op10", "C09", 3, "an arena addresses its memory with 32-bit offsets: the length of the mapping an open function obtained (the whole file when no capacity is given) "
      "becomes the capacity only under a guard len <= u32::MAX - a longer file must be refused, not opened with capacity len mod 2^32 (the stored cursor, validated "
      "against the un-narrowed length, may then lie beyond the capacity); the anonymous map's length is the u32 capacity option",
      configs=MEMCFG, also=("C05", "C15"))
def op10(ctx):
    for name in ("map_in", "map_mut_in"):
        cl = ctx.facts.one(r"^memory::Memory::<R, PR, H>::%s::\{closure#0\}$" % name)
        ev, res = ctx.eval(cl)
        casts = [c for c in res.log if c["kind"] == "cast" and c.get("ty") == "u32" and not c["chain"] and re.search(r"\blen\(", show(c["value"]))]
        bad = 0
        for c in casts:
            fs = set(canon(f) for f in facts_through_helpers(ctx, ev, c, res))
            if not Order(fs).le(canon(c["value"]), const(2**32 - 1)):
                bad += 1
                yield Ob(key_of("C09-Op10", cl.path, "mapping-length-narrowed-unguarded", bad), False,
                         "`%s as u32` without a guard len <= u32::MAX: a file of 2^32 + 100 bytes opened without a capacity yields an arena of capacity 100 whose cursor may be anything up to 2^32 - 1" % short(c["value"], 50), ctx.loc(c))
        yield Ob(key_of("C09-Op10", cl.path, "mapping-length-casts"), len(casts) >= 1, "%d narrowing cast(s) of the mapping length in %s, %d unguarded" % (len(casts), name, bad), cl.loc(), trivial=bad == 0)
    # the anonymous map: created from to_mmap_options(), whose only `len` comes from the u32 capacity
    b = ctx.facts.one(r"options::Options>::to_mmap_options$")
    lens = [(bb, t) for bb, t in b.calls() if re.search(r"MmapOptions::len$", t.get("resolved") or t.get("callee") or "")]
    ev, res = ctx.eval(b)
    calls = [e for e in res.log if e["kind"] == "call" and not e["chain"] and e["callee"].endswith("MmapOptions::len")]
    capty = [f["ty"] for x in ctx.facts.adts.values() if x["path"].endswith("options::Options") for v in x["variants"] for f in v["fields"] if f["name"] == "capacity"]
    ok = len(lens) == 1 and len(calls) == 1 and "capacity" in show(calls[0]["args"][1]) and len(capty) == 1 and re.search(r"Option<u32>$", capty[0]) is not None
    yield Ob(key_of("C09-Op10", b.path, "anonymous-length-is-the-u32-capacity"), ok,
             "to_mmap_options sets the mapping length %d time(s), from %s (Options::capacity: %s)" % (len(lens), short(calls[0]["args"][1], 60) if calls else "?", capty), b.loc())
