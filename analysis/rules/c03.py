"""C03 - allocations have the requested capacity and alignment."""
import re
from engine import rule, Ob, key_of, EXPLAIN, ASSUME
from sym import Lin, add, sub, const, tag, show, is_const, as_lin, implied_facts, struct_get
from util import *
from order import Order, term_eq

EXPLAIN["C03"] = (
    "Decides, with T symbolic (so for every layout) and for both flavours, on every Ok return path of the three allocation bodies - "
    "fresh (bump) and recycled (both free-list arms): A0 the pop bodies return Meta{memory_offset: node, ptr_offset: node + 8, "
    "ptr_size: requested size}; A1 alloc_bytes(n): ptr_size = n; A2 alloc::<T>: ptr_size = size_of T, ptr_offset = alignUp(align_of T, .), "
    "inside the space obtained, and the typed pointer handed to the handle is raw + that very ptr_offset; A3 alloc_aligned_bytes::<T>(n): "
    "ptr_offset = alignUp(align_of T, .) and ptr_size >= size_of T + n (equality on fresh space); A4 zero-sized requests return before any "
    "cursor / list access, so they succeed on a full arena; A5 the Vec backing store is allocated with alignment max(maximum_alignment, 8). "
    "Not decided: address alignment for mmap bases (page aligned, trusted).")
ASSUME["C03"] = ["0 <= alignUp(a, x) - x <= a - 1 and alignUp(a, x) is a multiple of a (align_of is a power of two)",
                 "u32::saturating_add(pad, extra) is identified with pad + extra on Ok paths: a saturated request (u32::MAX) exceeds every segment, so the pop fails",
                 "mmap base addresses are page aligned (memmap2 / OS)"]

FLAVOURS = ("sync", "unsync")
SELF = ("param", 0, "self")
A, S = ("align_of", "T"), ("size_of", "T")
NOSLOW = (r"::alloc_slow_path_(optimistic|pessimistic)$", r"::alloc_bytes_in$")


def desat(t, depth=0):
    """saturating_add(a, b) -> a + b (see assumptions)"""
    if depth > 40:
        return t
    if isinstance(t, Lin):
        out = const(t.c)
        from sym import scale
        for a, c in t.m.items():
            out = add(out, scale(desat(a, depth + 1), c))
        return out
    if isinstance(t, tuple):
        if tag(t) == "call" and t[1].endswith("saturating_add") and len(t[2]) == 2:
            return add(desat(t[2][0], depth + 1), desat(t[2][1], depth + 1))
        return tuple(desat(x, depth + 1) if isinstance(x, (tuple, Lin)) else x for x in t)
    return t


def ok_metas(res, shape=("Ok", "Some")):
    out = []
    for r in res.log:
        if r["kind"] != "ret0" or r["chain"]:
            continue
        m = unwrap_variant(r["value"], *shape)
        if m is not None and tag(r["value"]) == "variant" and r["value"][2] == "Ok":
            out.append((r, m))
    return out


def slow_calls(res):
    return [e for e in res.log if e["kind"] == "call" and not e["chain"] and re.search(r"alloc_slow_path_(optimistic|pessimistic)$", e["callee"])]


@rule("C03-A0", "C03", 4, "free-list pop bodies return Meta{memory_offset: node, ptr_offset: node + 8, ptr_size: size} with size <= the segment's data size", also=("C01", ("C02", "sync"), "C04"))
def a0(ctx):
    for fl in FLAVOURS:
        for name in ("alloc_slow_path_optimistic", "alloc_slow_path_pessimistic"):
            b = ctx.facts.one(r"^%s::Arena::%s$" % (fl, name))
            ev, res = ctx.eval(b, no_inline=(r"::(optimistic|pessimistic)_dealloc$", r"::validate_segment$", r"::remaining$"))
            SIZE = ("param", 1, "size")
            n = 0
            for r, m in ok_metas(res, ("Ok",)):
                n += 1
                mo, po, ps, ms = (canon(struct_get(m, k)) for k in ("memory_offset", "ptr_offset", "ptr_size", "memory_size"))
                ok = term_eq(po, add(mo, const(8))) and ps == SIZE and tag(mo) == "lo"
                yield Ob(key_of("C03-A0", b.path, "pop-meta", n), ok, "Meta{memory_offset: %s, ptr_offset: %s, ptr_size: %s}" % (short(mo, 50), short(po, 50), short(ps, 30)), ctx.loc(r))
                # memory_size is the data size of the segment or exactly the request (after a split)
                alts = [a for a, _ in phi_alternatives(ctx, ev, res, struct_get(m, "memory_size"))] if tag(struct_get(m, "memory_size")) == "phi" else [struct_get(m, "memory_size")]
                okm = all(canon(a) == SIZE or tag(canon(a)) == "hi" for a in alts) and len(alts) >= 1
                yield Ob(key_of("C03-A0", b.path, "pop-memory-size", n), okm, "memory_size in {size (split), data size of the segment (no split)}: %s" % [short(canon(a), 40) for a in alts], ctx.loc(r))
                order, fs = order_for(ctx, ev, r)
                for c in res.log:
                    if c["kind"] == "call" and c.get("inlined") and c["callee"].endswith("find_prev_and_next"):
                        for f in callee_variant_facts(ctx, ev, c, ("Some",)):
                            order.add_fact(f)
                his = [a for a in alts if tag(canon(a)) == "hi"]
                okg = bool(his) and order.le(SIZE, canon(his[0]))
                yield Ob(key_of("C03-A0", b.path, "size-fits-segment", n), okg, "size <= data size of the popped segment on the hand-out path", ctx.loc(r))
            if n == 0:
                yield Ob(key_of("C03-A0", b.path, "no-ok-return"), False, "no Ok(Meta) return found", b.loc())


def popped_facts(c):
    """what A0 established about the Meta a slow-path call returns"""
    popped = desat(("payload", c["result"], "Ok", 0))
    size_arg = desat(c["args"][1])
    mo, po, ps = field(popped, "memory_offset"), field(popped, "ptr_offset"), field(popped, "ptr_size")
    return popped, [("cmp", "Eq", po, add(mo, const(8))), ("cmp", "Eq", ps, size_arg)]


@rule("C03-A1", "C03", 6, "alloc_bytes(n): every returned Meta has ptr_size = n (bump path and both free-list arms)")
def a1(ctx):
    for fl in FLAVOURS:
        b = ctx.facts.one(r"^%s::Arena::alloc_bytes_in$" % fl)
        ev, res = ctx.eval(b, no_inline=NOSLOW)
        SIZE = ("param", 1, "size")
        pops = {("payload", c["result"], "Ok", 0): c for c in slow_calls(res)}
        n = 0
        for r, m in ok_metas(res):
            n += 1
            if m in pops:
                popped, fs = popped_facts(pops[m])
                ok = Order(fs).eq(field(popped, "ptr_size"), SIZE)
                what = "recycled (%s)" % pops[m]["callee"].split("_")[-1]
            else:
                ok = tag(m) == "struct" and struct_get(m, "ptr_size") == SIZE
                what = "fresh"
            yield Ob(key_of("C03-A1", b.path, "capacity-%s" % what.split()[0], n), ok, "%s: ptr_size == n" % what, ctx.loc(r))


def aligned_meta_obligations(ctx, ev, res, b, want_size_exact, min_size, rid):
    pops = {("payload", c["result"], "Ok", 0): c for c in slow_calls(res)}
    n = 0
    for r, m in ok_metas(res):
        if tag(m) != "struct":
            continue
        n += 1
        po, ps, mo, ms = (desat(canon(struct_get(m, k))) for k in ("ptr_offset", "ptr_size", "memory_offset", "memory_size"))
        src = [p for p in pops if mentions(m, p)]
        m = desat(m)
        facts = []
        kind = "fresh"
        if src:
            popped, facts = popped_facts(pops[src[0]])
            kind = "recycled-" + pops[src[0]]["callee"].split("_")[-1]
        order = Order(facts)
        ok_al = tag(po) == "alignUp" and po[1] == A
        yield Ob(key_of(rid, b.path, "aligned-%s" % kind), ok_al, "%s: ptr_offset = %s %s" % (kind, short(po, 90), "is alignUp(align_of T, .)" if ok_al else "is NOT an alignUp(align_of T, .) term"), ctx.loc(r))
        if want_size_exact is not None:
            ok_sz = term_eq(ps, want_size_exact)
            yield Ob(key_of(rid, b.path, "capacity-%s" % kind), ok_sz, "%s: ptr_size = %s (want %s)" % (kind, short(ps, 60), show(want_size_exact)), ctx.loc(r))
        if min_size is not None:
            ok_ge = order.le(min_size, ps)
            yield Ob(key_of(rid, b.path, "capacity-%s" % kind), ok_ge, "%s: ptr_size = %s >= %s: %s" % (kind, short(ps, 90), show(min_size), "proved" if ok_ge else "NOT proved"), ctx.loc(r))
        # the accessible range stays inside the space obtained
        if src:
            lo_b, hi_b = field(popped, "ptr_offset"), add(field(popped, "ptr_offset"), field(popped, "ptr_size"))
        else:
            lo_b, hi_b = mo, add(mo, ms)
        ok_in = order.le(lo_b, po) and order.le(add(po, ps), hi_b)
        yield Ob(key_of(rid, b.path, "inside-%s" % kind), ok_in, "%s: [ptr_offset, ptr_offset + ptr_size) inside the obtained space [%s, %s): %s" % (kind, short(lo_b, 50), short(hi_b, 70), "proved" if ok_in else "NOT proved"), ctx.loc(r))
    return n


@rule("C03-A2", "C03", 18, "alloc::<T>: ptr_size = size_of T, ptr_offset = alignUp(align_of T, .), inside the obtained space, on the bump path and both free-list arms", also=("C01", ("C02", "sync"), "C04"))
def a2(ctx):
    for fl in FLAVOURS:
        b = ctx.facts.one(r"^%s::Arena::alloc_in$" % fl)
        ev, res = ctx.eval(b, no_inline=NOSLOW)
        got = []
        for ob in aligned_meta_obligations(ctx, ev, res, b, S, None, "C03-A2"):
            got.append(ob)
            yield ob


@rule("C03-A2p", "C03", 2, "alloc::<T>: the typed pointer given to the handle is computed from the Meta's ptr_offset (the same offset the handle reports), and the handle carries that Meta")
def a2p(ctx):
    for fl in FLAVOURS:
        b = ctx.facts.one(r"^<%s::Arena as allocator::Allocator>::alloc$" % fl)
        ev, res = ctx.eval(b, no_inline=(r"::alloc_in$", r"get_aligned_pointer_mut$"))
        gp = [e for e in res.log if e["kind"] == "call" and e["callee"].endswith("get_aligned_pointer_mut")]
        ok = len(gp) == 1 and tag(gp[0]["args"][1]) == "field" and gp[0]["args"][1][2] == "ptr_offset"
        M = gp[0]["args"][1][1] if ok else None
        if ok:
            ok = "alloc_in" in show(M)
            handles = [r for r in res.log if r["kind"] == "ret0" and not r["chain"] and tag(unwrap_variant(r["value"], "Ok")) == "struct" and tag(struct_get(unwrap_variant(r["value"], "Ok"), "kind")) == "variant" and struct_get(unwrap_variant(r["value"], "Ok"), "kind")[2] != "Dangling"]
            ok = ok and len(handles) == 2 and all(struct_get(unwrap_variant(r["value"], "Ok"), "allocated") == M for r in handles)
        yield Ob(key_of("C03-A2p", b.path, "pointer-from-ptr_offset"), ok, "pointer = get_aligned_pointer_mut(meta.ptr_offset) and the handle's Meta is that meta", ctx.loc(gp[0]) if gp else b.loc())
    b = ctx.facts.one(r"^allocator::Allocator::get_aligned_pointer_mut$")
    ev, res = ctx.eval(b)
    OFF = ("param", 1, "offset")
    raw = ("call", "allocator::Allocator::raw_mut_ptr", (SELF,))
    rets = [r for r in res.log if r["kind"] == "ret0" and not r["chain"]]
    ok = any(term_eq(r["value"], add(raw, ("alignUp", A, OFF))) for r in rets)
    yield Ob(key_of("C03-A2p", b.path, "aligned-pointer"), ok, "get_aligned_pointer_mut(offset) = raw_mut_ptr + alignUp(align_of T, offset) for offset != 0", b.loc())


@rule("C03-A3", "C03", 18, "alloc_aligned_bytes::<T>(n): ptr_offset = alignUp(align_of T, .) and ptr_size >= size_of T + n (equality on fresh space), inside the obtained space", also=("C01", ("C02", "sync"), "C04"))
def a3(ctx):
    for fl in FLAVOURS:
        b = ctx.facts.one(r"^%s::Arena::alloc_aligned_bytes_in$" % fl)
        ev, res = ctx.eval(b, no_inline=NOSLOW)
        EXTRA = ("param", 1, "extra")
        for ob in aligned_meta_obligations(ctx, ev, res, b, None, add(S, EXTRA), "C03-A3"):
            yield ob
        # zero-sized T: the delegation to alloc_bytes_in keeps the alignment promise only when nothing needs aligning
        dele = [e for e in res.log if e["kind"] == "call" and not e["chain"] and e["callee"].endswith("alloc_bytes_in")]
        for e in dele:
            fs = ctx.facts_of(ev, e)
            order = Order(fs)
            ok = (("cmp", "Eq", EXTRA, const(0)) in fs) or (("cmp", "Eq", A, const(1)) in fs) or any(f[0] in ("boolor",) for f in fs) and False
            if not ok:
                # `extra == 0 || align_of T == 1` shows up as two edges into the call block: accept if every path to the call passes one of them
                sw = {x: c for x, c in res.conds.items() if c in (("cmp", "Eq", EXTRA, const(0)), ("cmp", "Eq", A, const(1)))}
                removed = set()
                for x, c in sw.items():
                    t = b.blocks[x]["term"]
                    truev = [bb for v, bb in t["arms"] if int(v) == 1]
                    removed.add((x, truev[0] if truev else t["otherwise"]))
                ok = bool(sw) and e["bb"] not in b.reach(0, removed=frozenset(removed))
            yield Ob(key_of("C03-A3", b.path, "zst-delegation"), ok,
                     "size_of T == 0: delegating to alloc_bytes_in(extra) %s" % ("only when extra == 0 or align_of T == 1 (nothing to align)" if ok else
                                                                                 "returns an offset that is not aligned for T when align_of T > 1 and extra > 0"), ctx.loc(e))


@rule("C03-A4", "C03", 6, "zero-sized requests (n = 0, zero-sized T) return Ok(None) / a null handle before any cursor or list access - they succeed on a full arena and consume nothing", also=("C01",))
def a4(ctx):
    for fl in FLAVOURS:
        for name, zero in (("alloc_bytes_in", ("cmp", "Eq", ("param", 1, "size"), const(0))), ("alloc_in", ("cmp", "Eq", S, const(0)))):
            b = ctx.facts.one(r"^%s::Arena::%s$" % (fl, name))
            ev, res = ctx.eval(b, no_inline=NOSLOW)
            nones = [r for r in res.log if r["kind"] == "ret0" and not r["chain"] and tag(unwrap_variant(r["value"], "Ok")) == "variant" and unwrap_variant(r["value"], "Ok")[2] == "None"]
            ok = len(nones) == 1 and zero in ctx.facts_of(ev, nones[0])
            if ok:
                # nothing but the ro test and the zero test precedes it
                pre = [e for e in res.log if e["seq"] < nones[0]["seq"] and e["kind"] in ("call", "store") and not e["chain"] and b.dominates(e["bb"], nones[0]["bb"]) and not e.get("callee", "").endswith("mem::size_of")]
                ok = not pre
            yield Ob(key_of("C03-A4", b.path, "zero-size-early"), ok, "Ok(None) under %s, before any header access" % show(zero), ctx.loc(nones[0]) if nones else b.loc())
        b = ctx.facts.one(r"^<%s::Arena as allocator::Allocator>::alloc$" % fl)
        ev, res = ctx.eval(b, no_inline=(r"::alloc_in$",))
        z = [r for r in res.log if r["kind"] == "ret0" and not r["chain"] and "Dangling" in show(r["value"])[:200]]
        ok = len(z) == 1 and ("cmp", "Eq", S, const(0)) in ctx.facts_of(ev, z[0]) and not [e for e in res.log if e["kind"] == "call" and e["callee"].endswith("alloc_in") and b.dominates(e["bb"], z[0]["bb"])]
        yield Ob(key_of("C03-A4", b.path, "zst-null-handle"), ok, "zero-sized T: null handle without calling the allocator", b.loc())


@rule("C03-A5", "C03", 1, "the Vec backing store is allocated with alignment max(maximum_alignment, 8) (so offsets aligned up to that are address-aligned)")
def a5(ctx):
    b = ctx.facts.one(r"^memory::Memory::<R, PR, H>::alloc$")
    ev, res = ctx.eval(b, no_inline=(r"AlignedVec::new$",))
    av = [e for e in res.log if e["kind"] == "call" and e["callee"].endswith("AlignedVec::new")]
    ok = len(av) == 1 and tag(av[0]["args"][1]) == "max" and const(8) in av[0]["args"][1][1:] and any("maximum_alignment" in show(x) for x in av[0]["args"][1][1:])
    yield Ob(key_of("C03-A5", b.path, "vec-alignment"), ok, "AlignedVec::new(cap, %s)" % (short(av[0]["args"][1], 80) if av else "?"), b.loc())


@rule("C03-A8", "C03", 3, "the Vec backing keeps the alignment it was created with: every Layout the crate builds for the global allocator is built inside AlignedVec, from the "
      "vec's own (cap, align) or - in AlignedVec::new - from the (capacity, align) the new vec records; no other function builds a Layout or calls realloc / alloc "
      "(a block resized or re-created under a smaller alignment moves the base of the arena off the boundary every aligned offset is computed against: C14's "
      "align_to and C03's aligned allocations return misaligned pointers)", also=("C14", "C18"))
def a7(ctx):
    n = 0
    for b in ctx.facts.own:
        sites = [(bi, t) for bi, t in b.calls() if re.search(r"alloc::Layout::(from_size_align(_unchecked)?|new|array|for_value)$|alloc::(alloc|alloc_zeroed|realloc|dealloc)$", t.get("callee") or "")]
        if not sites:
            continue
        ev, res = ctx.eval(b)
        rets = [r["value"] for r in res.log if r["kind"] == "ret0" and not r["chain"]]
        for e in res.log:
            # Layouts built by callees that are read through belong to the callee's own turn; a private helper spliced into its caller is judged here
            if e["kind"] != "call" or e["chain"] or not re.search(r"alloc::Layout::", e["callee"]):
                continue
            n += 1
            ok = e["callee"].endswith("from_size_align_unchecked") or e["callee"].endswith("from_size_align")
            if ok:
                size, al = e["args"][0], e["args"][1]
                m1 = re.fullmatch(r"(.*)(?:\.|->)cap(@v/\d+)?", show(size))
                m2 = re.fullmatch(r"(.*)(?:\.|->)align(@v/\d+)?", show(al))
                # the vec's own fields: the same object on both sides (`self` inside AlignedVec, the backend's vec elsewhere)
                own = bool(m1 and m2 and m1.group(1) == m2.group(1))
                recorded = b.path == "common::AlignedVec::new" and len(rets) == 1 and tag(rets[0]) == "struct" and struct_get(rets[0], "cap") == size and struct_get(rets[0], "align") == al
                ok = own or recorded
            yield Ob(key_of("C03-A8", b.path, "layout-from-own-cap-align"), ok, "Layout(%s, %s) in %s" % (short(e["args"][0], 40), short(e["args"][1], 60), b.path), ctx.loc(e))
    yield Ob(key_of("C03-A8", "common::AlignedVec", "layout-sites-seen"), n >= 2, "%d Layout construction site(s) (new, layout) - positive control" % n, None, trivial=True)


@rule("C03-A6", "C03", 2, "file-backed arenas: the mapping offset is checked against the alignment the arena promises (memmap2 returns page boundary + offset % page, so the base "
      "address is only as aligned as the offset): an offset that is not a multiple of max(maximum_alignment, align_of Header) must be refused, otherwise every aligned "
      "offset is a misaligned address and the in-file header is read through a misaligned pointer", configs=("memmap", "memmap-nooverflow", "memmap-tracing"), also=("C04", "C16"))
def a6(ctx):
    for name in ("map_mut_in", "map_in"):
        b = ctx.facts.one(r"^memory::Memory::<R, PR, H>::%s$" % name)
        ev, res = ctx.eval(b, no_inline=(r"\{closure",))
        maps = [e for e in res.log if e["kind"] == "call" and not e["chain"] and re.search(r"FnOnce.*::call_once$", e["callee"])]
        ok = False
        det = []
        def is_guard(f):
            s_ = show(f)
            return f[0] == "cmp" and f[1] == "Eq" and "rem(" in s_ and "offset" in s_
        for e in maps[:1]:
            fs = ctx.facts_of(ev, e)
            for f in fs:
                if is_guard(f):
                    ok = True
                    det.append(short(f[2], 80))
            # the test may live in a helper called with `?`: then the helper's Ok return carries the fact and the `?` makes it dominate the mapping call
            for c in res.log:
                if c["kind"] == "call" and c.get("inlined") and not c["chain"] and c["seq"] < e["seq"] and b.dominates(c["bb"], e["bb"]):
                    okf = [f for f in callee_variant_facts(ctx, ev, c, ("Ok",)) if is_guard(f)]
                    r_ = c["result"]
                    errs = [p_[0] for n_, p_ in (dict(r_[2]).items() if tag(r_) == "vsum" else []) if n_ == "Err" and p_]
                    passed = any(f[0] == "discr" and f[2] in (("eq", 0), ("ne", (1,))) and (mentions(f[1], r_) or any(mentions(f[1], x_) for x_ in errs)) for f in fs)
                    if okf and passed:
                        ok = True
                        det.append("%s: %s" % (c["callee"].split("::")[-1], short(okf[0][2], 70)))
        yield Ob(key_of("C03-A6", b.path, "offset-aligned"), ok and bool(maps), "the mapping call is reached only when offset %% alignment == 0: %s" % (det or "NO such guard"), b.loc())


@rule("C03-A7", "C03", 3, "memory maps are page aligned and no more: a maximum alignment above the page size cannot be honoured by the anonymous or file map constructors "
      "(only the Vec backing allocates with that alignment), so they must refuse it instead of handing out addresses that are not aligned for such types",
      configs=("memmap", "memmap-nooverflow", "memmap-tracing"))
def a7(ctx):
    for name, pat in (("map_mut_in", r"^memory::Memory::<R, PR, H>::map_mut_in$"), ("map_in", r"^memory::Memory::<R, PR, H>::map_in$"), ("map_anon", r"^memory::Memory::<R, PR, H>::map_anon$")):
        b = ctx.facts.one(pat)
        ev, res = ctx.eval(b, no_inline=(r"\{closure",))
        maps = [e for e in res.log if e["kind"] == "call" and not e["chain"] and (re.search(r"FnOnce.*::call_once$", e["callee"]) or e["callee"].endswith("MmapOptions::map_anon"))]
        ok = False
        det = []

        def is_guard(f):
            s_ = show(f)
            return f[0] == "cmp" and f[1] in ("Le", "Ge", "Lt", "Gt") and "maximum_alignment" in s_ and ("PAGE_SIZE" in s_.upper() or "LazyLock<u32>" in s_)
        for e in maps[:1]:
            fs = ctx.facts_of(ev, e)
            if any(is_guard(f) for f in fs):
                ok = True
            for c in res.log:
                if c["kind"] == "call" and c.get("inlined") and not c["chain"] and c["seq"] < e["seq"] and b.dominates(c["bb"], e["bb"]):
                    r_ = c["result"]
                    errs = [p_[0] for n_, p_ in (dict(r_[2]).items() if tag(r_) == "vsum" else []) if n_ == "Err" and p_]
                    passed = any(f[0] == "discr" and f[2] in (("eq", 0), ("ne", (1,))) and (mentions(f[1], r_) or any(mentions(f[1], x_) for x_ in errs)) for f in fs)
                    if passed and any(is_guard(f) for f in ok_facts_deep(ctx, ev, c)):
                        ok = True
                        det.append(c["callee"].split("::")[-1])
        yield Ob(key_of("C03-A7", b.path, "alignment-within-page"), ok and bool(maps), "%s: the mapping is created only when maximum_alignment <= page size (%s)" % (name, det or ("guard in place" if ok else "NO such guard")), b.loc())
