"""C13 - handles give their memory back exactly once, and the arena outlives them."""
import re
from engine import rule, Ob, key_of, EXPLAIN, ASSUME
from sym import Lin, add, sub, const, tag, show, is_const, as_lin, implied_facts, struct_get
from util import *
from order import Order, term_eq

EXPLAIN["C13"] = (
    "Decides, on every path of the four Drop impls (BytesMut, BytesRefMut, Owned, RefMut): dealloc is called at most once, only "
    "with (allocated.memory_offset, allocated.memory_size), never on a detached path and always on the non-detached path of a "
    "handle that carries an arena; drop_in_place at most once, never when detached (H1). to_owned sets the borrowed handle's "
    "flag, clones the arena once and hands over the same Meta with flag false (H2). The detach flags are only ever assigned true "
    "(H3). Refcount discipline: constructors start at 1, clone adds exactly 1 before copying, drop subtracts exactly 1 and frees "
    "(Box::from_raw, unmount) only when the previous value was 1 (R1-R3); Arena values are only built in Clone and From<Memory>, "
    "unmount is only called from Arena::drop, no mem::forget / ManuallyDrop of an arena (R4); remove_file only inside unmount "
    "under the remove_on_drop flag (R5). Lifetime / Clone / Send facts are compile-fail witnesses (tier thorough). Not decided: "
    "multi-threaded drop interleavings beyond the ordering clauses of C12.")
ASSUME["C13"] = ["Rust drops every owned value exactly once (no mem::forget by the user)", "MaybeUninit::as_mut_ptr never returns null",
                 "Kind::Slot is only constructed for T: needs_drop (rule C13-H4)"]

SELF = ("param", 0, "self")
DROPS = {
    "BytesMut": (r"^<bytes::BytesMut<A> as (?:std|core)::ops::Drop>::drop$", "detach"),
    "BytesRefMut": (r"^<bytes::BytesRefMut<'_, A> as (?:std|core)::ops::Drop>::drop$", "detach"),
    "Owned": (r"^<object::Owned<T, A> as (?:std|core)::ops::Drop>::drop$", "detached"),
    "RefMut": (r"^<object::RefMut<'_, T, A> as (?:std|core)::ops::Drop>::drop$", "detached"),
}


def flag_term(flag):
    return ("hload", SELF, (flag,), ("v", 0))


@rule("C13-H1", "C13", 16, "Drop impls: dealloc at most once per path, with (allocated.memory_offset, allocated.memory_size), never on a detached path, and "
      "reached on every non-detached path of a handle that owns memory; drop_in_place at most once and never when detached", also=("C01", ("C02", "!unsync"), "C10", "C20"))
def h1(ctx):
    for hname, (pat, flag) in DROPS.items():
        b = ctx.facts.one(pat)
        ev, res = ctx.eval(b)
        ds = [e for e in res.log if e["kind"] == "call" and not e["chain"] and e["callee"].endswith("Allocator::dealloc")]
        dips = [e for e in res.log if e["kind"] == "call" and not e["chain"] and e.get("effect") == "drop_in_place"]
        # the flag is not assigned inside the Drop body, so every read of it (before or after the value's destructor ran) is the same value
        FT = canon(flag_term(flag), {flag})
        wr = [e for e in res.log if is_heap_store(e) and e["path"] and e["path"][-1] == flag]
        yield Ob(key_of("C13-H1", b.path, "flag-stable"), not wr, "self.%s is not assigned in the Drop body" % flag, b.loc())
        yield Ob(key_of("C13-H1", b.path, "has-dealloc"), len(ds) >= 1, "%d dealloc call site(s)" % len(ds), b.loc())
        for i, e in enumerate(ds):
            a = [canon(x, {"allocated"}) for x in e["args"]]
            ok_args = a[1] == field(SELF, "allocated", "memory_offset") and a[2] == field(SELF, "allocated", "memory_size")
            yield Ob(key_of("C13-H1", b.path, "dealloc-args", i + 1), ok_args, "dealloc(%s, %s)" % (short(a[1], 60), short(a[2], 60)), ctx.loc(e))
            fs = set(canon(f, {flag}) for f in ctx.facts_of(ev, e))
            ok_nd = ("bool", FT, False) in fs
            yield Ob(key_of("C13-H1", b.path, "dealloc-not-detached", i + 1), ok_nd, "dealloc only where self.%s is false" % flag, ctx.loc(e))
        # at most once: no dealloc block reaches another
        multi = [(x["bb"], y["bb"]) for x in ds for y in ds if x is not y and y["bb"] in b.reach(x["bb"])]
        yield Ob(key_of("C13-H1", b.path, "dealloc-at-most-once"), not multi, "no path passes two dealloc calls", b.loc())
        # coverage: the exact condition of every way to return without passing a dealloc must say `detached` or `this handle has no memory`
        import dnf as D
        stop = frozenset(e["bb"] for e in ds)
        bad = []
        kinds = {int(v["discr"]): v["name"] for a_ in ctx.facts.adts.values() if a_["path"].endswith("object::Kind") for v in a_["variants"] if v["discr"] is not None}

        def no_memory(f):
            if f[0] == "bool" and canon(f[1], {flag}) == FT and f[2] is True:
                return True
            if f[0] == "discr" and tag(f[1]) == "hload" and f[1][2] == ("arena",):
                return f[2] == ("eq", 1) or (f[2][0] == "ne" and 0 in f[2][1])
            if f[0] == "discr" and tag(f[1]) == "hload" and f[1][2] == ("kind",):
                if f[2][0] == "eq":
                    return kinds.get(int(f[2][1])) == "Dangling"
                left = set(kinds) - set(int(x) for x in f[2][1])
                return bool(left) and all(kinds[k_] == "Dangling" for k_ in left)
            return False
        for r in b.returns():
            cond = D.block_dnf(ev, res, b, r, stop=stop)
            if cond is None:
                bad.append(r)
                continue
            for c in cond:
                if not any(no_memory(f) for f in c):
                    bad.append(r)
                    break
        yield Ob(key_of("C13-H1", b.path, "dealloc-on-every-live-path"), not bad, "every non-detached path of a handle with memory reaches a dealloc before returning", b.loc())
        for i, e in enumerate(dips):
            fs = set(canon(f, {flag}) for f in ctx.facts_of(ev, e))
            yield Ob(key_of("C13-H1", b.path, "drop_in_place-not-detached", i + 1), ("bool", FT, False) in fs, "drop_in_place only where the handle is not detached", ctx.loc(e))
        multi = [(x["bb"], y["bb"]) for x in dips for y in dips if x is not y and y["bb"] in b.reach(x["bb"])]
        if hname in ("Owned", "RefMut"):
            yield Ob(key_of("C13-H1", b.path, "drop_in_place-at-most-once"), len(dips) >= 1 and not multi, "value dropped at most once per path (%d site(s))" % len(dips), b.loc())
            # and the value drop precedes the release of its memory
            # a zero-sized value (Kind::Dangling) owns no memory: its drop is not followed by a dealloc
            def dangling(p):
                return any(f[0] == "discr" and tag(f[1]) == "hload" and f[1][2] == ("kind",) and f[2][0] == "eq" and ctx.facts.variant_by_discr("object::Kind", f[2][1]) == "Dangling" for f in ctx.facts_of(ev, p))
            okp = all(dangling(p) or any(d["bb"] in b.reach(p["bb"]) for d in ds) for p in dips)
            yield Ob(key_of("C13-H1", b.path, "drop-before-dealloc"), okp, "drop_in_place is followed by the dealloc of the same handle (except for zero-sized values, which own no memory)", b.loc())
        else:
            yield Ob(key_of("C13-H1", b.path, "no-drop_in_place"), not dips, "byte handles drop no value", b.loc())


@rule("C13-H2", "C13", 2, "to_owned: the borrowed handle is flagged detached, the arena is cloned exactly once, the owned handle carries the same Meta with flag false")
def h2(ctx):
    for pat, flag, adt in ((r"^bytes::BytesRefMut::<'a, A>::to_owned$", "detach", "bytes::BytesMut"), (r"^object::RefMut::<'a, T, A>::to_owned$", "detached", "object::Owned")):
        b = ctx.facts.one(pat)
        ev, res = ctx.eval(b)
        rets = [r for r in res.log if r["kind"] == "ret0" and not r["chain"] and tag(r["value"]) == "struct" and r["value"][1] == adt]
        live = []
        for r in rets:
            ar = struct_get(r["value"], "arena")
            if tag(ar) == "variant" and ar[2] == "Right":
                continue  # the null handle (no memory)
            live.append(r)
        ok = len(live) == 1
        if ok:
            v = live[0]["value"]
            ar = struct_get(v, "arena")
            ar = ar[3][0] if tag(ar) == "variant" else ar
            clones = [e for e in res.log if e["kind"] == "call" and not e["chain"] and e["callee"].endswith("Clone::clone")]
            ok = len(clones) == 1 and ar == clones[0]["result"] and struct_get(v, flag) == const(0) and canon(struct_get(v, "allocated")) == field(SELF, "allocated")
            st = [s for s in res.log if is_heap_store(s) and s["base"] == SELF and s["path"] == (flag,)]
            ok = ok and len(st) == 1 and st[0]["value"] == const(1) and b.dominates(st[0]["bb"], live[0]["bb"])
        yield Ob(key_of("C13-H2", b.path, "hand-over"), ok, "to_owned: self.%s := true; returns {arena: self.arena.clone(), allocated: self.allocated, %s: false}" % (flag, flag), b.loc())


@rule("C13-H3", "C13", 6, "the detach / detached flags are only ever assigned the constant true (or initialised false in a constructor aggregate)")
def h3(ctx):
    for b in ctx.facts.own:
        for bi in sorted(b.reachable):
            for si, st in enumerate(b.blocks[bi]["stmts"]):
                pl = st["place"]
                fs = [p for p in pl["proj"] if isinstance(p, dict) and "f" in p]
                if fs and fs[-1]["f"] in ("detach", "detached") and fs[-1].get("adt") in ("bytes::BytesMut", "bytes::BytesRefMut", "object::Owned", "object::RefMut"):
                    rv = st["rv"]
                    ok = rv["k"] == "use" and "const" in rv["a"] and rv["a"]["const"]["int"] is not None and int(rv["a"]["const"]["int"]) == 1
                    yield Ob(key_of("C13-H3", b.path, "flag-store"), ok, "%s.%s := %s" % (fs[-1]["adt"], fs[-1]["f"], "true" if ok else "something other than the constant true"), b.loc(bi, si))


@rule("C13-H4", "C13", 3, "Kind::Slot (value lives in the handle and is dropped by it) is constructed only under needs_drop::<T>()")
def h4(ctx):
    n = 0
    for b in ctx.facts.own:
        hit = False
        for bi in sorted(b.reachable):
            for st in b.blocks[bi]["stmts"]:
                rv = st["rv"]
                if rv["k"] == "agg" and isinstance(rv["kind"], dict) and rv["kind"].get("adt") == "object::Kind" and rv["kind"]["variant"] == "Slot":
                    hit = True
        if not hit:
            continue
        n += 1
        if b.name == "new" and "RefMut" in b.path:
            # RefMut::new(slot, ..) is the only constructor taking a slot: its callers must be under needs_drop
            callers = [c for c in ctx.facts.own if any((t.get("callee") or "").endswith("object::RefMut::<'a, T, A>::new") for _, t in c.calls())]
            for c in callers:
                ev, res = ctx.eval(c, no_inline=(r"::alloc_in$",))
                for e in res.log:
                    if e["kind"] == "call" and e["callee"].endswith("RefMut::<'a, T, A>::new"):
                        fs = ctx.facts_of(ev, e)
                        ok = ("bool", ("needs_drop", "T"), True) in fs
                        yield Ob(key_of("C13-H4", c.path, "slot-under-needs_drop"), ok, "RefMut::new (Kind::Slot) called only under needs_drop::<T>()", ctx.loc(e))
            continue
        ev, res = ctx.eval(b)
        for e in res.log:
            if e["kind"] == "ret0" and not e["chain"] and tag(e["value"]) == "variant" and e["value"][2] == "Slot":
                fs = ctx.facts_of(ev, e)
                ok = ("bool", ("needs_drop", "T"), True) in fs
                yield Ob(key_of("C13-H4", b.path, "slot-under-needs_drop"), ok, "Kind::Slot built only under needs_drop::<T>()", ctx.loc(e))


@rule("C13-R1", "C13", lambda cfg: 4 if "memmap" in cfg else 1, "constructors start the reference count at 1")
def r1(ctx):
    names = ["alloc"] + (["map_anon::{closure#0}", "map_mut_in::{closure#0}", "map_in::{closure#0}"] if ctx.memmap else [])
    for name in names:
        b = ctx.facts.one(r"^memory::Memory::<R, PR, H>::%s$" % re.escape(name))
        ok = False
        where = b.loc()
        for bi, t in b.calls():
            if (t.get("callee") or "").endswith("RefCounter::new"):
                a = t["args"][0]
                ok = "const" in a and a["const"]["int"] is not None and int(a["const"]["int"]) == 1
                where = b.loc(bi)
        yield Ob(key_of("C13-R1", b.path, "refs-init-1"), ok, "refs: R::new(1)", where)


@rule("C13-R2", "C13", 4, "clone adds exactly 1 to the reference count, once, before the copy is built; drop subtracts exactly 1, once, and frees (Box::from_raw, unmount) only when the previous value was 1 "
      "(under C12 for the shared arena: a handle the counter does not know of is still in use when the backing memory is released)", also=(("C12", "sync"),))
def r2(ctx):
    for fl in ("sync", "unsync"):
        b = ctx.facts.one(r"^<%s::Arena as (?:std|core)::clone::Clone>::clone$" % fl)
        # the primitives of the counter stay calls; a helper built on them (a provided or overridden method of RefCounter, a private fn) is read through
        ev, res = ctx.eval(b, no_inline=(r"RefCounter>?::(?:fetch_add|fetch_sub|load)$",))
        adds = [e for e in res.log if e["kind"] == "call" and (e.get("atomic") == "fetch_add" or e["callee"].endswith("RefCounter::fetch_add") or e["callee"].endswith("::fetch_add"))]
        rets = [e for e in res.log if e["kind"] == "ret0" and not e["chain"]]
        ok = len(adds) == 1 and (adds[0].get("operand") or adds[0]["args"][1]) == const(1)
        if ok and not adds[0]["chain"]:
            ok = all(b.dominates(adds[0]["bb"], r["bb"]) for r in rets)
        elif ok:
            # inside a helper: on every path (no guard at the add, none at any call site on the way to it), and the outermost call site dominates the construction
            top = adds[0]
            while top.get("parent") is not None:
                top = top["parent"]
            ok = not ctx.guards_of(ev, adds[0]) and all(b.dominates(top["bb"], r["bb"]) for r in rets)
        # nothing else writes the counter (a plain store of a value read earlier loses a concurrent increment)
        other = [e for e in res.log if e not in adds and (is_atomic_write(e) or is_heap_store(e) or is_raw_write(e) or (e["kind"] == "call" and e.get("atomic") == "get_mut"))]
        ok = ok and not other
        yield Ob(key_of("C13-R2", b.path, "clone-adds-1"), ok, "exactly one refs.fetch_add(1) dominating the construction of the clone", b.loc())
        b = ctx.facts.one(r"^<%s::Arena as (?:std|core)::ops::Drop>::drop$" % fl)
        ev, res = ctx.eval(b, no_inline=(r"::unmount$", r"RefCounter"))
        subs = [e for e in res.log if e["kind"] == "call" and (e.get("atomic") == "fetch_sub" or e["callee"].endswith("::fetch_sub"))]
        ok = len(subs) == 1 and (subs[0].get("operand") or subs[0]["args"][1]) == const(1)
        yield Ob(key_of("C13-R2", b.path, "drop-subs-1"), ok, "exactly one refs.fetch_sub(1)", b.loc())
        if subs:
            prev = subs[0]["result"]
            for e in res.log:
                if e["kind"] == "call" and not e["chain"] and (e["callee"].endswith("Box::<T>::from_raw") or e["callee"].endswith("::unmount")):
                    fs = ctx.facts_of(ev, e)
                    okf = ("cmp", "Eq", prev, const(1)) in fs
                    yield Ob(key_of("C13-R2", b.path, "free-only-on-last:%s" % e["callee"].split("::")[-1]), okf, "%s only when the count went 1 -> 0" % e["callee"].split("::")[-1], ctx.loc(e))


@rule("C13-R3", "C13", 6, "who may construct / free: Arena aggregates only in Clone::clone and From<Memory>::from; unmount is called only from Arena::drop; "
      "Box::from_raw of a Memory only in Arena::drop; no mem::forget / ManuallyDrop anywhere in the crate")
def r3(ctx):
    n_agg = 0
    for b in ctx.facts.own:
        for bi in sorted(b.reachable):
            for si, st in enumerate(b.blocks[bi]["stmts"]):
                rv = st["rv"]
                if rv["k"] == "agg" and isinstance(rv["kind"], dict) and rv["kind"].get("adt") in ("sync::Arena", "unsync::Arena"):
                    n_agg += 1
                    ok = bool(re.search(r"as (?:std|core)::clone::Clone>::clone$|as (?:std|core)::convert::From<memory::Memory<.*>>>::from$", b.path))
                    yield Ob(key_of("C13-R3", b.path, "arena-aggregate"), ok, "Arena value constructed in %s" % b.path, b.loc(bi, si))
        for bi, t in b.calls():
            c = t.get("callee") or ""
            if c.endswith("Memory::<R, PR, H>::unmount"):
                ok = bool(re.search(r"Arena as (?:std|core)::ops::Drop>::drop$", b.path))
                yield Ob(key_of("C13-R3", b.path, "unmount-caller"), ok, "unmount called from %s" % b.path, b.loc(bi))
            if re.search(r"mem::forget$|ManuallyDrop", c):
                # forgetting the user's (generic) value when it is moved into a zero-sized slot is how a ZST is "stored"; what must never be
                # forgotten is an arena or anything that embeds one
                substs = " ".join(t.get("substs", []) or [])
                generic_value = bool(re.fullmatch(r"\s*T\s*", substs)) and re.search(r"^object::(Owned|RefMut)::<.*>::write$", b.path) is not None
                yield Ob(key_of("C13-R3", b.path, "forget"), generic_value, "%s<%s> used in %s: %s" % (c, substs, b.path, "the moved-in value of a zero-sized slot" if generic_value else
                         "a forgotten arena never releases its reference"), b.loc(bi))
            if c.endswith("Box::<T>::from_raw") and any("memory::Memory" in s for s in t.get("substs", [])):
                ok = bool(re.search(r"Arena as (?:std|core)::ops::Drop>::drop$", b.path))
                yield Ob(key_of("C13-R3", b.path, "memory-free"), ok, "Box::<Memory>::from_raw in %s" % b.path, b.loc(bi))


@rule("C13-R5", "C13", 2, "remove-on-drop: std::fs::remove_file is called only inside Memory::unmount and only where the remove_on_drop flag was read true", configs=("memmap", "memmap-nooverflow", "memmap-tracing"))
def r5(ctx):
    for b in ctx.facts.own:
        for bi, t in b.calls():
            if (t.get("callee") or "").endswith("fs::remove_file"):
                ok = b.path.endswith("Memory::<R, PR, H>::unmount")
                if ok:
                    ev, res = ctx.eval(b)
                    for e in res.log:
                        if e["kind"] == "call" and not e["chain"] and e["bb"] == bi:
                            fs = ctx.facts_of(ev, e)
                            ok = any(f[0] == "bool" and f[2] is True and tag(f[1]) == "load" and "remove_on_drop" in show(f[1]) for f in fs)
                yield Ob(key_of("C13-R5", b.path, "remove_file"), ok, "remove_file under the remove_on_drop flag inside unmount", b.loc(bi))


@rule("C13-R6", "C13", lambda cfg: 2 if "memmap" in cfg else 0, "released exactly once: ptr::drop_in_place is applied to a field of a value only if the field's type opts out of the owner's own drop "
      "(ManuallyDrop / MaybeUninit / raw pointer) - a plain field dropped in place is dropped a second time when its owner is dropped (Memory::unmount is followed by "
      "the drop of the Box<Memory>: a File closed twice)")
def r6(ctx):
    n = 0
    for b in ctx.facts.own:
        if not any((t.get("callee") or "").endswith("ptr::drop_in_place") for _, t in b.calls()):
            continue
        ev, res = ctx.eval(b)
        for e in res.log:
            if e["kind"] != "call" or e.get("effect") != "drop_in_place" or e["chain"]:
                continue
            tgt = e["args"][0]
            n += 1
            if tag(tgt) == "ref" and tgt[1][0] == "heap" and tag(tgt[1][1]) == "param":
                path = tgt[1][2]
                fty = field_type(ctx, b, path)
                ok = fty is not None and re.search(r"ManuallyDrop<|MaybeUninit<|^\*(mut|const) ", fty) is not None
                yield Ob(key_of("C13-R6", b.path, "drop-in-place-of-owned-field:%s" % ".".join(p if isinstance(p, str) else p[1] for p in path)), ok,
                         "drop_in_place(&mut self.%s): field type %s %s" % (".".join(p if isinstance(p, str) else p[1] for p in path), fty,
                                                                          "opts out of the owner's drop" if ok else "is dropped again when the owner is dropped (double drop / double close)"), ctx.loc(e))
            else:
                yield Ob(key_of("C13-R6", b.path, "drop-in-place-through-pointer"), True, "drop_in_place through %s (MaybeUninit slot / raw pointer: not dropped by the owner)" % short(tgt, 60), ctx.loc(e), trivial=True)
    if ctx.memmap:
        yield Ob(key_of("C13-R6", "crate", "sites"), n >= 2, "%d drop_in_place site(s) examined" % n, None)


def field_type(ctx, b, path):
    """type of self.<path> by walking ADT field declarations from the self parameter's type"""
    ty = b.locals[1]["ty"]
    ty = re.sub(r"^&(mut )?('\w+ )?", "", ty)
    cur_adt = ctx.facts.adts.get(re.sub(r"<.*$", "", ty))
    variant = None
    fty = None
    for p in path:
        if isinstance(p, tuple) and p[0] == "as":
            variant = p[1]
            continue
        if cur_adt is None:
            return None
        vs = cur_adt["variants"]
        v = [x for x in vs if variant is None or x.get("name") == variant]
        variant = None
        fty = None
        for x in v:
            for f in x["fields"]:
                if f["name"] == p:
                    fty = f["ty"]
        if fty is None:
            return None
        cur_adt = ctx.facts.adts.get(re.sub(r"<.*$", "", fty))
    return fty


@rule("C13-H5", "C13", 4, "a value handed to write() is moved into the handle on every path (ptr::write / mem::forget), never dropped by write itself; and the Drop impl "
      "of the typed handles drops the value in every Kind that can hold a type that needs dropping - Slot and Dangling (zero-sized types may need dropping too), "
      "not detached only")
def h5(ctx):
    for pat in (r"^object::Owned::<T, A>::write$", r"^object::RefMut::<'a, T, A>::write$"):
        b = ctx.facts.one(pat)
        ev, res = ctx.eval(b)
        VAL = ("param", 1, "value")
        # neither the argument nor a destination (`*ptr = value` drops what it takes to be the old value first - for a zero-sized type every value lives at that
        # address, so the handle's value is destroyed at write time and again when the handle goes): no drop of a T anywhere in write
        dropped = [e for e in res.log if e["kind"] == "drop" and not e["chain"] and (e.get("value") == VAL or e.get("ty") == "T")]
        yield Ob(key_of("C13-H5", b.path, "write-moves-the-value"), not dropped, "write never drops its argument (%d drop(s) of `value` found: a zero-sized value would be destroyed at write time and again by "
                 "the documented detach protocol)" % len(dropped), ctx.loc(dropped[0]) if dropped else b.loc())
    for hname in ("Owned", "RefMut"):
        pat, flag = DROPS[hname]
        b = ctx.facts.one(pat)
        ev, res = ctx.eval(b)
        dips = [e for e in res.log if e["kind"] == "call" and not e["chain"] and e.get("effect") == "drop_in_place"]
        arms = set()
        import dnf as D
        for e in dips:
            hit = False
            for f in ctx.facts_of(ev, e):
                if f[0] == "discr" and tag(f[1]) == "hload" and f[1][2] == ("kind",) and f[2][0] == "eq":
                    arms.add(ctx.facts.variant_by_discr("object::Kind", f[2][1]))
                    hit = True
            if not hit:
                # one drop_in_place behind a join of the arms (`let (value, in_arena) = match kind { .. }; if let Some(p) = value { drop_in_place(p) }`):
                # the kinds under which it is reached, from the exact path condition
                for c in D.block_dnf(ev, res, b, e["bb"]) or []:
                    for f in c:
                        if f[0] == "discr" and tag(f[1]) == "hload" and f[1][2] == ("kind",) and f[2][0] == "eq":
                            arms.add(ctx.facts.variant_by_discr("object::Kind", f[2][1]))
        ok = {"Slot", "Dangling"} <= arms
        yield Ob(key_of("C13-H5", b.path, "every-owning-kind-drops"), ok, "drop_in_place is reached in the arms %s (needed: Slot and Dangling)" % sorted(a for a in arms if a), b.loc())
