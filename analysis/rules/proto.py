"""Protocol roles of the lock-free arena (sync.rs), discovered by data flow - shared by C02 / C06 / C07 / C12 rules."""
import re
from sym import Lin, add, sub, const, tag, show, is_const, as_lin, implied_facts
from util import *
from facts import AnchorError

# every body is analysed on its own; the big callees are not inlined into each other so that a role belongs to one body
NOINLINE = (r"::find_position$", r"::find_prev_and_next$", r"::(optimistic|pessimistic)_dealloc$", r"::alloc_slow_path_(optimistic|pessimistic)$",
            r"::try_new_segment$", r"::validate_segment$", r"::alloc_bytes_in$", r"::discard_freelist_in$", r"Allocator>::dealloc$", r"::remaining$")

SYNC_BODIES = {
    "alloc_bytes_in": r"^sync::Arena::alloc_bytes_in$",
    "alloc_aligned_bytes_in": r"^sync::Arena::alloc_aligned_bytes_in$",
    "alloc_in": r"^sync::Arena::alloc_in$",
    "alloc_slow_path_optimistic": r"^sync::Arena::alloc_slow_path_optimistic$",
    "alloc_slow_path_pessimistic": r"^sync::Arena::alloc_slow_path_pessimistic$",
    "discard_freelist_in": r"^sync::Arena::discard_freelist_in$",
    "optimistic_dealloc": r"^sync::Arena::optimistic_dealloc$",
    "pessimistic_dealloc": r"^sync::Arena::pessimistic_dealloc$",
    "find_position": r"^sync::Arena::find_position$",
    "find_prev_and_next": r"^sync::Arena::find_prev_and_next$",
    "dealloc": r"^<sync::Arena as allocator::Allocator>::dealloc$",
}


def sync_eval(ctx, name):
    b = ctx.facts.one(SYNC_BODIES[name])
    ev, res = ctx.eval(b, no_inline=NOINLINE)
    return b, ev, res


def is_removed(t):
    return tag(t) == "named" and t[1] == "REMOVED_SEGMENT_NODE"


def cas_entries(res, top_only=True):
    return [e for e in res.log if e["kind"] == "call" and e.get("atomic") in ("compare_exchange", "compare_exchange_weak") and (not top_only or not e["chain"])]


def is_cursor(target):
    return tag(target) == "heap" and target[2] == ("allocated",)


def classify_cas(res, e):
    """-> 'cursor' | 'mark' | 'link' | 'unlink' | 'other-node'"""
    if is_cursor(e["target"]):
        return "cursor"
    new, exp = e["new"], e["expected"]
    if tag(new) == "pack" and is_removed(new[1]):
        return "mark"
    if tag(new) == "pack" and new[1] == ("hi", exp):
        nxt = new[2]
        if tag(nxt) == "lo":
            return "unlink"
        return "link"
    return "other-node"


def success_edges(b, res, cas_entry):
    """CFG edges (x, y) of the top frame taken exactly when the CAS succeeded; and the failure edges"""
    val = cas_entry["result"]
    ok, bad = [], []
    for x, c in res.conds.items():
        okv = None
        if tag(c) == "discr" and c[1] == val:
            okv = 0
        elif tag(c) == "is" and c[2] == val:
            okv = 0 if c[1] == "is_err" else 1
        if okv is None:
            continue
        t = b.blocks[x]["term"]
        arm_vals = {int(v): bb for v, bb in t["arms"]}
        for v, bb in arm_vals.items():
            (ok if v == okv else bad).append((x, bb))
        if okv not in arm_vals:
            ok.append((x, t["otherwise"]))
        elif len(arm_vals) == 1:
            bad.append((x, t["otherwise"]))
    return ok, bad


def ordering_has(o, what):
    if what == "acquire":
        return o in ("Acquire", "AcqRel", "SeqCst")
    if what == "release":
        return o in ("Release", "AcqRel", "SeqCst")
    return False
