"""C20 - discarded() is monotone; discard_freelist empties the list and accounts for it."""
import re
from engine import rule, Ob, key_of, EXPLAIN, ASSUME
from sym import Lin, add, sub, const, tag, show, is_const, as_lin, implied_facts, struct_get
from util import *
from order import Order, term_eq
from proto import NOINLINE, cas_entries, classify_cas, success_edges

EXPLAIN["C20"] = (
    "Decides, for both flavours: `discarded` is written only by additions of an unsigned term (fetch_add / +=) and by Header::new "
    "(constructors, clear), hence monotone outside clear (D1); increase_discarded(n) adds exactly n (D2); with Freelist::None a "
    "release that is not on top adds exactly `size` once and touches no list word (D3); try_new_segment's reject arms add `size` "
    "once and return None, after which the insertion returns false without list effect, while the accept arm adds the node "
    "overhead only after the link succeeded (D4); discard_freelist_in adds each popped segment's data size to the header and to "
    "its return accumulator on the same edge, and returns only on an empty list (D5); discard_freelist has the read-only guard "
    "and returns 0 for Freelist::None (D6). Not decided: counter wrap-around at 2^32.")
ASSUME["C20"] = ["u32 wrap-around of the counter is out of scope", "list shape (finite, acyclic) from C10"]

FLAVOURS = ("sync", "unsync")
SELF = ("param", 0, "self")


def discarded_writes(res, fl):
    out = []
    for e in res.log:
        if fl == "sync" and e["kind"] == "call" and e.get("atomic") and tag(e.get("target")) == "heap" and e["target"][2] == ("discarded",) and e["atomic"] != "load":
            out.append(e)
        if fl == "unsync" and e["kind"] == "store" and e.get("how") == "store" and e["path"] == ("discarded",):
            out.append(e)
    return out


def increment_of(e, fl):
    """the amount added by a discarded write, or None when it is not an addition"""
    if fl == "sync":
        return e["operand"] if e.get("atomic") == "fetch_add" else None
    v = e["value"]
    if isinstance(v, Lin):
        olds = [a for a in v.m if tag(a) == "hload" and a[2] == ("discarded",) and v.m[a] == 1]
        if len(olds) == 1:
            return sub(v, olds[0])
    return None


@rule("C20-D1", "C20", 4, "`discarded` is written only by additions (fetch_add / +=) in the Allocator impls; every other write is Header::new's aggregate")
def d1(ctx):
    for fl in FLAVOURS:
        n = 0
        for b in ctx.facts.own:
            if not (b.path.startswith(fl + "::") or b.path.startswith("<%s::" % fl)):
                continue
            touches = False
            for bi in sorted(b.reachable):
                for st in b.blocks[bi]["stmts"]:
                    for pl in [st["place"]] + ([st["rv"].get("p")] if st["rv"].get("p") else []):
                        if any(isinstance(p, dict) and p.get("f") == "discarded" for p in pl["proj"]):
                            touches = True
            if not touches or "fmt" in b.path:
                continue
            ev, res = ctx.eval(b, no_inline=NOINLINE)
            for e in discarded_writes(res, fl):
                if e["chain"]:
                    continue
                n += 1
                inc = increment_of(e, fl)
                yield Ob(key_of("C20-D1", b.path, "discarded-write"), inc is not None, "write to discarded is %s" % ("an addition of %s" % short(inc, 60) if inc is not None else "NOT an addition (monotonicity lost)"), ctx.loc(e))
        hn = ctx.facts.one(r"^<%s::sealed::Header as sealed::Header>::new$" % fl)
        yield Ob(key_of("C20-D1", hn.path, "header-new"), True, "Header::new initialises discarded (checked = 0 by C17-Cl3)", hn.loc(), trivial=True)


@rule("C20-D2", "C20", 2, "increase_discarded(n) adds exactly n")
def d2(ctx):
    for fl in FLAVOURS:
        b = ctx.facts.one(r"^<%s::Arena as allocator::Allocator>::increase_discarded$" % fl)
        ev, res = ctx.eval(b)
        ws = discarded_writes(res, fl)
        ok = len(ws) == 1 and increment_of(ws[0], fl) == ("param", 1, "size")
        yield Ob(key_of("C20-D2", b.path, "adds-n"), ok, "one addition of the argument", b.loc())


def list_effects(res):
    out = []
    for e in res.log:
        if e["kind"] == "call" and e.get("atomic") in ("store", "compare_exchange", "compare_exchange_weak", "swap") and tag(e.get("target")) == "heap":
            if e["target"][2] in (("allocated",), ("discarded",), ("min_segment_size",)):
                continue
            out.append(e)
        if e["kind"] == "store" and e.get("how") == "store" and tag(e["base"]) != "param" and e["path"] not in (("allocated",), ("discarded",), ("min_segment_size",)):
            out.append(e)
    return out


@rule("C20-D3", "C20", 2, "Freelist::None: a release that is not on top adds `size` to discarded exactly once, touches no list word and returns true", also=("C01",))
def d3(ctx):
    for fl in FLAVOURS:
        b = ctx.facts.one(r"^<%s::Arena as allocator::Allocator>::dealloc$" % fl)
        ev, res = ctx.eval(b, no_inline=(r"::(optimistic|pessimistic)_dealloc$",))
        SIZE = ("param", 2, "size")
        none_d = 0
        arms = []
        for e in discarded_writes(res, fl):
            fs = ctx.facts_of(ev, e)
            if any(f[0] == "discr" and f[1] == field(SELF, "freelist") and f[2] == ("eq", 0) for f in fs):
                arms.append(e)
        ok = len(arms) == 1 and increment_of(arms[0], fl) == SIZE
        yield Ob(key_of("C20-D3", b.path, "none-arm-adds-size"), ok, "None arm: exactly one addition, of `size` (%s)" % [short(increment_of(a, fl), 40) for a in arms], b.loc())
        le = [e for e in list_effects(res) if any(f[0] == "discr" and f[1] == field(SELF, "freelist") and f[2] == ("eq", 0) for f in ctx.facts_of(ev, e))]
        yield Ob(key_of("C20-D3", b.path, "none-arm-no-list-effect"), not le, "None arm writes no list word", b.loc())
        calls = [e for e in res.log if e["kind"] == "call" and re.search(r"(optimistic|pessimistic)_dealloc$", e["callee"])]
        okc = len(calls) == 2 and all(any(f[0] == "discr" and f[1] == field(SELF, "freelist") and f[2][0] == "eq" and f[2][1] in (1, 2) for f in ctx.facts_of(ev, e)) for e in calls)
        yield Ob(key_of("C20-D3", b.path, "list-arms-dispatch"), okc, "the list insertions are reached only for Optimistic / Pessimistic", b.loc())


@rule("C20-D4", "C20", 8, "try_new_segment: each reject arm adds `size` once and returns None, the accept arm adds nothing; the insertion returns false on None without "
      "list effect and adds the node overhead (data_offset - ptr_offset) only after the link succeeded")
def d4(ctx):
    for fl in FLAVOURS:
        b = ctx.facts.one(r"^%s::Arena::try_new_segment$" % fl)
        ev, res = ctx.eval(b)
        SIZE = ("param", 2, "size")
        ws = discarded_writes(res, fl)
        rets = [r for r in res.log if r["kind"] == "ret0" and not r["chain"]]
        nones = [r for r in rets if tag(r["value"]) == "variant" and r["value"][2] == "None"]
        somes = [r for r in rets if tag(r["value"]) == "variant" and r["value"][2] == "Some"]
        # zero-size / zero-offset early return adds nothing (nothing to account)
        n_rej = 0
        for r in nones:
            fs = ctx.facts_of(ev, r)
            OFFSET = ("param", 1, "offset")
            trivial = not (("cmp", "Ne", OFFSET, const(0)) in fs and ("cmp", "Ne", SIZE, const(0)) in fs)
            pre = [w for w in ws if b.dominates((w["chain"][0][1] if w["chain"] else w["bb"]), r["bb"])]
            if trivial:
                yield Ob(key_of("C20-D4", b.path, "empty-request"), not pre, "offset == 0 || size == 0: returns None without accounting", ctx.loc(r))
                continue
            n_rej += 1
            ok = len(pre) == 1 and increment_of(pre[0], fl) == SIZE
            yield Ob(key_of("C20-D4", b.path, "reject-adds-size", n_rej), ok, "reject arm: exactly one addition of `size` before returning None", ctx.loc(r))
        # every None return that is not the empty request was judged above (a silent None has no addition and fails `reject-adds-size`); how many arms the
        # source spells the two rejections with (two ifs, one merged match arm) does not matter - but there must be one, and a Some return
        yield Ob(key_of("C20-D4", b.path, "reject-arms"), n_rej >= 1 and len(somes) == 1, "reject returns found and judged: %d; accept returns: %d" % (n_rej, len(somes)), b.loc())
        for r in somes:
            pre = [w for w in ws if b.dominates((w["chain"][0][1] if w["chain"] else w["bb"]), r["bb"])]
            yield Ob(key_of("C20-D4", b.path, "accept-adds-nothing"), not pre, "accept arm returns the segment without touching discarded", ctx.loc(r))
        for name in ("optimistic_dealloc", "pessimistic_dealloc"):
            b = ctx.facts.one(r"^%s::Arena::%s$" % (fl, name))
            ev, res = ctx.eval(b, no_inline=NOINLINE)
            tns = [e for e in res.log if e["kind"] == "call" and e["callee"].endswith("try_new_segment")]
            if len(tns) != 1:
                yield Ob(key_of("C20-D4", b.path, "try_new_segment-call"), False, "expected one try_new_segment call", b.loc())
                continue
            seg = ("payload", tns[0]["result"], "Some", 0)
            falses = [r for r in res.log if r["kind"] == "ret0" and not r["chain"] and r["value"] == const(0)]
            okf = bool(falses)
            for r in falses:
                fs = ctx.facts_of(ev, r)
                okf = okf and any(f[0] == "discr" and f[1] == tns[0]["result"] and f[2] in (("eq", 0), ("ne", (1,))) for f in fs)
                okf = okf and not [e for e in list_effects(res) + discarded_writes(res, fl) if b.dominates(e["chain"][0][1] if e["chain"] else e["bb"], r["bb"])]
            yield Ob(key_of("C20-D4", b.path, "false-on-none"), okf, "returns false exactly on None, without list effect or accounting", b.loc())
            ws = discarded_writes(res, fl)
            want = sub(field(seg, "data_offset"), field(seg, "ptr_offset"))
            ok = len(ws) == 1 and term_eq(increment_of(ws[0], fl), want)
            if ok and fl == "sync":
                links = [e for e in cas_entries(res) if classify_cas(res, e) == "link"]
                ok = len(links) == 1 and links[0]["result"] in ok_cas_facts(ctx.facts_of(ev, ws[0]))
            elif ok:
                st = [e for e in list_effects(res)]
                ok = len(st) >= 2 and all(e["seq"] < ws[0]["seq"] for e in st)
            yield Ob(key_of("C20-D4", b.path, "overhead-after-link"), ok, "adds data_offset - ptr_offset once, after the node has been linked", b.loc(), {"increments": [short(increment_of(w, fl), 80) for w in ws]})


@rule("C20-D5", "C20", 6, "discard_freelist_in: the header increment and the returned accumulator grow by the same data size on the same edge (after the node was unlinked); the only return is on an empty list")
def d5(ctx):
    for fl in FLAVOURS:
        b = ctx.facts.one(r"^%s::Arena::discard_freelist_in$" % fl)
        ev, res = ctx.eval(b, no_inline=NOINLINE)
        ws = [w for w in discarded_writes(res, fl)]
        yield Ob(key_of("C20-D5", b.path, "one-increment-site"), len(ws) == 1, "one increment site in the loop (%d)" % len(ws), b.loc())
        if len(ws) != 1:
            continue
        inc = increment_of(ws[0], fl)
        # accumulator: the local named `discarded`
        # the accumulator is the local whose value is returned (whatever it is called)
        rv = [r["value"] for r in res.log if r["kind"] == "ret0" and not r["chain"]]
        acc = [rv[0][2]] if len(rv) == 1 and tag(rv[0]) == "phi" and isinstance(rv[0][2], int) else [i for i, l in enumerate(b.locals) if l["name"] == "discarded"]
        backs = b.back_edges()
        ok_acc = False
        top_bb = ws[0]["chain"][0][1] if ws[0]["chain"] else ws[0]["bb"]
        for u, h in backs:
            if acc:
                ph = res.env_in.get(h, {}).get(acc[0])
                nv = res.env_out.get(u, {}).get(acc[0])
                if ph is not None and nv is not None:
                    alts = [a for a, _ in phi_alternatives(ctx, ev, res, nv)] if tag(nv) == "phi" else [nv]
                    # what an iteration can add: the increments of the alternatives, a joined addend (`acc += step()` with step() = 0 on a retry) taken apart
                    incs = []
                    for a in alts:
                        if a == ph:
                            continue
                        d_ = sub(a, ph)
                        dl = as_lin(d_) if isinstance(d_, (Lin, tuple)) else None
                        atoms = list(dl.m.items()) if dl is not None else []
                        if dl is not None and dl.c == 0 and len(atoms) == 1 and atoms[0][1] == 1 and tag(atoms[0][0]) == "phi" and len(atoms[0][0]) > 3:
                            incs.extend(atoms[0][0][3])
                        else:
                            incs.append(d_)
                    grow = [d_ for d_ in incs if not (is_const(d_) and as_lin(d_).c == 0)]
                    ok_acc = bool(grow) and all(term_eq(d_, inc) for d_ in grow)
        yield Ob(key_of("C20-D5", b.path, "accumulator-equals-increment"), ok_acc, "accumulator += %s, the term added to the header" % short(inc, 60), ctx.loc(ws[0]))
        ok_sz = tag(inc) == "hi" or (tag(inc) == "field" and inc[2] == "data_size")
        yield Ob(key_of("C20-D5", b.path, "increment-is-data-size"), ok_sz, "the increment is the popped segment's data size (%s)" % short(inc, 60), ctx.loc(ws[0]))
        if fl == "sync":
            unl = [e for e in cas_entries(res) if classify_cas(res, e) == "unlink"]
            ok_e = len(unl) == 1 and unl[0]["result"] in ok_cas_facts(ctx.facts_of(ev, ws[0]))
        else:
            st = [e for e in list_effects(res) if tag(e["base"]) == "call" and e["path"] and e["path"][-1] == "sentinel" or (e["kind"] == "store" and "sentinel" in show(e["base"]))]
            ok_e = bool(st) and all(s["seq"] < ws[0]["seq"] for s in st)
        yield Ob(key_of("C20-D5", b.path, "increment-after-unlink"), ok_e, "accounted only after the head was unlinked", ctx.loc(ws[0]))
        rets = [r for r in res.log if r["kind"] == "ret0" and not r["chain"]]
        # (a `return 0` for Freelist::None, when that test sits in this function instead of in its caller, is not a return of the loop)
        none_rets = [r for r in rets if r["value"] == const(0) and any(f[0] == "discr" and f[1] == field(SELF, "freelist") and f[2] == ("eq", 0) for f in ctx.facts_of(ev, r))]
        rets = [r for r in rets if r not in none_rets]
        # (likewise an Err(ReadOnly) under `self.ro`, when the helper repeats the read-only test of its caller)
        rets = [r for r in rets if not (tag(r["value"]) == "variant" and r["value"][2] == "Err" and r_is(r["value"], "ReadOnly") and ("bool", field(SELF, "ro"), True) in ctx.facts_of(ev, r))]
        if len(rets) == 1 and tag(rets[0]["value"]) == "variant" and rets[0]["value"][2] == "Ok" and len(rets[0]["value"][3]) == 1:
            pass    # the accumulator wrapped in Ok(..) when the helper returns a Result
        ok_r = len(rets) == 1
        if ok_r:
            fs = ctx.facts_of(ev, rets[0])
            sent = [f for f in fs if f[0] == "cmp" and f[1] == "Eq" and tag(f[3]) == "named" and f[3][1].startswith("SENTINEL_SEGMENT_NODE")]
            ok_r = len(sent) == 2
            if not ok_r:
                # the emptiness test kept in a flag (`let empty = size == SENTINEL && next == SENTINEL;`) or behind a helper's Option: every way to the return says both
                import dnf as D
                d = D.block_dnf(ev, res, b, rets[0]["bb"])
                d = D.expand_bool_joins(ev, res, b, d) if d is not None else None
                ok_r = bool(d) and all(len(set(f[3][1] for f in c if f[0] == "cmp" and f[1] == "Eq" and tag(f[3]) == "named" and f[3][1].startswith("SENTINEL_SEGMENT_NODE"))) == 2 for c in d)
        yield Ob(key_of("C20-D5", b.path, "return-only-on-empty"), ok_r, "returns only when the sentinel is (SENTINEL, SENTINEL), i.e. the list is empty", b.loc())


@rule("C20-D6", "C20", 4, "discard_freelist: read-only arenas get Err(ReadOnly); Freelist::None returns 0 without touching anything")
def d6(ctx):
    for fl in FLAVOURS:
        b = ctx.facts.one(r"^<%s::Arena as allocator::Allocator>::discard_freelist$" % fl)
        ev, res = ctx.eval(b, no_inline=NOINLINE)
        calls = [e for e in res.log if e["kind"] == "call" and e["callee"].endswith("discard_freelist_in")]
        ok = len(calls) == 1
        if ok:
            fs = ctx.facts_of(ev, calls[0])
            ok = ("bool", field(SELF, "ro"), False) in fs and any(f[0] == "discr" and f[1] == field(SELF, "freelist") and rel_excludes(f[2], 0) for f in fs)
        if not ok and len(calls) == 1:
            # the Freelist::None test made inside discard_freelist_in: every effect of the whole operation lies behind `writable` and `kind != None`
            ev2, res2 = ctx.eval(b, no_inline=tuple(p_ for p_ in NOINLINE if "discard_freelist_in" not in p_))
            effs = list_effects(res2) + discarded_writes(res2, fl)
            def guarded(e):
                fs_ = ctx.facts_of(ev2, e)
                return ("bool", field(SELF, "ro"), False) in fs_ and any(f[0] == "discr" and f[1] == field(SELF, "freelist") and rel_excludes(f[2], 0) for f in fs_)
            ok = bool(effs) and all(guarded(e) for e in effs)
        yield Ob(key_of("C20-D6", b.path, "guards"), ok, "discard_freelist_in reached only when writable and the freelist kind is not None", b.loc())
        errs = [r for r in res.log if r["kind"] == "ret0" and not r["chain"] and tag(r["value"]) == "variant" and r["value"][2] == "Err"]
        ok2 = len(errs) == 1 and ("bool", field(SELF, "ro"), True) in ctx.facts_of(ev, errs[0]) and r_is(errs[0]["value"], "ReadOnly")
        yield Ob(key_of("C20-D6", b.path, "ro-err"), ok2, "read-only: Err(ReadOnly)", b.loc())
        # and nothing but that: no Ok on a read-only arena, whatever its free-list kind (`match kind { None => Ok(0), _ if ro => Err(..), .. }`)
        oks = [r for r in res.log if r["kind"] == "ret0" and not r["chain"] and tag(r["value"]) in ("variant", "vsum") and "Ok" in show(r["value"])[:4]]
        ok3 = bool(oks) and all(("bool", field(SELF, "ro"), False) in ctx.facts_of(ev, r) for r in oks)
        yield Ob(key_of("C20-D6", b.path, "ok-only-when-writable"), ok3, "every Ok return (%d) lies behind the read-only test" % len(oks), b.loc())


def r_is(v, name):
    return tag(v) == "variant" and v[3] and tag(v[3][0]) == "variant" and v[3][0][2] == name


@rule("C20-D7", "C20", 3, "discarded() never decreases: an addition to the counter must not wrap around - it has to saturate or be checked. The counter is not bounded by the "
      "capacity (every recycled block adds its node overhead again, every discard_freelist the data sizes again), so a u32 wrap needs only time")
def d7(ctx):
    n = 0
    for fl in FLAVOURS:
        pats = [r"^<%s::Arena as allocator::Allocator>::(increase_discarded|dealloc)$" % fl,
                r"^%s::Arena::(discard_freelist_in|optimistic_dealloc|pessimistic_dealloc|try_new_segment|alloc_slow_path_optimistic|alloc_slow_path_pessimistic)$" % fl]
        for pat in pats:
            for b in ctx.facts.find(pat):
                ev, res = ctx.eval(b, no_inline=NOINLINE + (r"::increase_discarded$",))
                for e in discarded_writes(res, fl):
                    if e["chain"]:
                        continue
                    n += 1
                    if fl == "sync":
                        ok = e.get("atomic") not in ("fetch_add", "fetch_sub", "store", "swap")
                        how = "%s wraps modulo 2^32" % e.get("atomic")
                    else:
                        raw = [a for a in res.log if a["kind"] == "arith" and a["op"] == "Add" and not a["chain"] and a["seq"] < e["seq"] and term_eq(add(a["a"], a["b"]), e["value"])]
                        ok = not raw
                        how = "`discarded += n` is an unchecked u32 addition (panic with overflow checks, wrap-around without)"
                    yield Ob(key_of("C20-D7", b.path, "wrapping-add"), ok, "%s: %s" % (b.name, "the addition saturates / is checked" if ok else how), ctx.loc(e))
    yield Ob(key_of("C20-D7", "crate", "sites"), n >= 3, "%d additions to `discarded` examined" % n, None)


@rule("C20-D8", "C20", 2, "validate_segment only answers a question: nothing is written, counted or linked from it (the pop bodies ask it whether a remainder is worth "
      "splitting off - when it is not, the remainder stays inside the allocation; an answer computed by try_new_segment would add that remainder to discarded "
      "although nothing was released, and the bytes are given out again with the allocation)", also=("C10",))
def d8(ctx):
    for fl in FLAVOURS:
        b = ctx.facts.one(r"^%s::Arena::validate_segment$" % fl)
        ev, res = ctx.eval(b)
        effs = [e for e in res.log if is_raw_write(e) or is_atomic_write(e) or is_heap_store(e) or (e["kind"] == "call" and re.search(r"::increase_discarded$", e["callee"]))]
        effs += list(discarded_writes(res, fl))
        yield Ob(key_of("C20-D8", b.path, "no-effect"), not effs, "validate_segment has no effect (%d found%s)" % (len(effs), (": " + short(effs[0].get("callee") or effs[0]["kind"], 60)) if effs else ""), b.loc())


@rule("C20-D9", "C20", 4, "what is too small to become a segment is judged by the arena's minimum segment size as it is now - the value in the shared header, which "
      "set_minimum_segment_size writes and every handle of the arena reads: in validate_segment and try_new_segment the size tests read nothing of the arena but "
      "header().min_segment_size (a copy kept in the handle goes stale in every other handle when the minimum is changed)", also=("C10",))
def d9(ctx):
    for fl in FLAVOURS:
        for fn in ("validate_segment", "try_new_segment"):
            b = ctx.facts.one(r"^%s::Arena::%s$" % (fl, fn))
            ev, res = ctx.eval(b, no_inline=(r"increase_discarded$",))
            conds = [e["cond"] for e in res.log if e["kind"] == "switch" and not e["chain"]]
            hdr = ("call", "%s::Arena::header" % fl, (("param", 0, "self"),))

            def is_min(x):
                if tag(x) == "field" and len(x) == 3 and x[1] == hdr and x[2] == "min_segment_size":
                    return True
                return tag(x) == "load" and tag(x[-1]) == "heap" and x[-1][1] == hdr and tuple(x[-1][2]) == ("min_segment_size",)
            n_min, other = 0, []

            def walk(x):
                nonlocal n_min
                if is_min(x):
                    n_min += 1
                    return
                if isinstance(x, Lin):
                    for a in x.m:
                        walk(a)
                    return
                if not isinstance(x, tuple):
                    return
                if x == ("param", 0, "self") or tag(x) in ("load", "hload", "field", "heap"):
                    # any other state read through the handle or the heap
                    other.append(x)
                    return
                if tag(x) == "call" and x[1] == "align_offset":
                    for a in x[2]:
                        walk(a)
                    return
                for a in x[1:]:
                    if isinstance(a, (tuple, Lin)):
                        walk(a)
            # `a > b && c >= min` as the returned expression: the comparisons inside the returned values are size tests too
            def cmps(x, out, depth=0):
                if depth > 40:
                    return
                if isinstance(x, Lin):
                    for a_ in x.m:
                        cmps(a_, out, depth + 1)
                elif isinstance(x, (tuple, list)):
                    if tag(x) == "cmp":
                        out.append(x)
                        return
                    for a_ in x:
                        if isinstance(a_, (tuple, list, Lin)):
                            cmps(a_, out, depth + 1)
            for r in res.log:
                if r["kind"] == "ret0" and not r["chain"]:
                    cmps(r["value"], conds)
            for c in conds:
                walk(c)
            yield Ob(key_of("C20-D9", b.path, "threshold-is-header-minimum"), n_min >= 1 and not other,
                     "the size tests read header().min_segment_size (%d time(s)) and no other state (%s)" % (n_min, [short(o, 60) for o in other][:3]), b.loc())
