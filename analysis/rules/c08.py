"""C08 - alloc_bytes always returns zero-filled memory."""
import re
from engine import rule, Ob, key_of, EXPLAIN, ASSUME
from sym import Lin, add, sub, const, tag, show, is_const, as_lin, implied_facts, struct_get
from util import *
from order import Order, term_eq

EXPLAIN["C08"] = (
    "Decides, for both flavours and independent of backend and history: every Ok(Some(m)) return of alloc_bytes_in is preceded "
    "(dominated) by write_bytes(raw_mut_ptr + m.ptr_offset, 0, m.ptr_size) on the final values of those fields - on the bump "
    "path, and inside both free-list pop bodies whose Meta alloc_bytes_in hands on unchanged (Z1); Meta::clear zeroes exactly "
    "(ptr_offset, ptr_size) (Z2); alloc_bytes wraps that very Meta and the handle's offset()/capacity()/to_owned() expose the "
    "same two fields (Z3). Together with C01 (nobody else writes the range before it is returned) this is the property.")
ASSUME["C08"] = ["core::ptr::write_bytes(p, 0, n) zeroes [p, p+n)", "no other writer touches the range between the clear and the return (C01-U / C02-P1)"]

FLAVOURS = ("sync", "unsync")
SELF = ("param", 0, "self")
RAWMUT = ("call", "allocator::Allocator::raw_mut_ptr", (SELF,))


def zeroing_of(res, meta):
    po, ps = struct_get(meta, "ptr_offset"), struct_get(meta, "ptr_size")
    out = []
    for e in res.log:
        if e["kind"] == "call" and e.get("effect") == "write_bytes" and e["byte"] == const(0):
            dst = e["dst"]
            base_ok = isinstance(dst, Lin) and any(tag(a) == "call" and re.search(r"raw_mut_ptr$", a[1]) and a[2] == (SELF,) for a in dst.m)
            if not base_ok:
                continue
            raw = [a for a in dst.m if tag(a) == "call" and re.search(r"raw_mut_ptr$", a[1])][0]
            if term_eq(sub(dst, raw), po) and term_eq(e["count"], ps):
                out.append(e)
    return out


@rule("C08-Z1", "C08", 6, "every Ok return of a Meta from alloc_bytes_in's bump path and from both free-list pop bodies is dominated by "
      "write_bytes(raw_mut_ptr + m.ptr_offset, 0, m.ptr_size) evaluated on the returned field values")
def z1(ctx):
    for fl in FLAVOURS:
        specs = [("alloc_bytes_in", ("Ok", "Some")), ("alloc_slow_path_optimistic", ("Ok",)), ("alloc_slow_path_pessimistic", ("Ok",))]
        for name, shape in specs:
            b = ctx.facts.one(r"^%s::Arena::%s$" % (fl, name))
            ev, res = ctx.eval(b, no_inline=(r"alloc_slow_path_(optimistic|pessimistic)$",))
            found = 0
            for r in res.log:
                if r["kind"] != "ret0" or r["chain"]:
                    continue
                v = r["value"]
                m = v
                okshape = True
                for n in shape:
                    if tag(m) == "variant" and m[2] == n and m[3]:
                        m = m[3][0]
                    else:
                        okshape = False
                        break
                if not okshape or tag(m) != "struct" or m[1] != "Meta":
                    continue
                found += 1
                zs = [z for z in zeroing_of(res, m) if (b.dominates(z["chain"][0][1] if z["chain"] else z["bb"], r["bb"]))]
                yield Ob(key_of("C08-Z1", b.path, "zeroed-before-return", found), bool(zs),
                         "returned Meta{ptr_offset: %s, ptr_size: %s} %s" % (short(struct_get(m, "ptr_offset"), 70), short(struct_get(m, "ptr_size"), 50),
                                                                              "is cleared on every path to this return" if zs else "is NOT cleared (with these field values) on every path to this return"), ctx.loc(r))
            if found == 0:
                yield Ob(key_of("C08-Z1", b.path, "no-meta-return"), False, "no Ok(Meta) return found (anchor)", b.loc())
        # alloc_bytes_in hands the pop body's Meta on unchanged
        b = ctx.facts.one(r"^%s::Arena::alloc_bytes_in$" % fl)
        ev, res = ctx.eval(b, no_inline=(r"alloc_slow_path_(optimistic|pessimistic)$",))
        slow = [e for e in res.log if e["kind"] == "call" and not e["chain"] and re.search(r"alloc_slow_path_(optimistic|pessimistic)$", e["callee"])]
        for c in slow:
            want = ("payload", c["result"], "Ok", 0)
            hit = [r for r in res.log if r["kind"] == "ret0" and not r["chain"] and unwrap_variant(r["value"], "Ok", "Some") == want]
            yield Ob(key_of("C08-Z1", b.path, "pass-through-%s" % c["callee"].split("_")[-1]), len(hit) == 1,
                     "alloc_bytes_in returns Ok(Some(m)) with m exactly the Meta the pop body returned", ctx.loc(c))


@rule("C08-Z2", "C08", 1, "Meta::clear(&self, arena) is write_bytes(arena.raw_mut_ptr() + self.ptr_offset, 0, self.ptr_size) and nothing else")
def z2(ctx):
    b = ctx.facts.one(r"^Meta::clear$")
    ev, res = ctx.eval(b)
    ARENA = ("param", 1, "arena")
    ws = [e for e in res.log if is_raw_write(e)]
    ok = len(ws) == 1 and ws[0].get("effect") == "write_bytes" and ws[0]["byte"] == const(0)
    if ok:
        raw = ("call", "allocator::Allocator::raw_mut_ptr", (ARENA,))
        ok = term_eq(ws[0]["dst"], add(raw, field(SELF, "ptr_offset"))) and term_eq(ws[0]["count"], field(SELF, "ptr_size"))
    yield Ob(key_of("C08-Z2", b.path, "extent"), ok, "clear zeroes (raw + ptr_offset, ptr_size): %s" % ([short(ws[0]["dst"], 80), short(ws[0]["count"], 40)] if ws else None), b.loc())


@rule("C08-Z3", "C08", 8, "alloc_bytes wraps the allocator's Meta unchanged (BytesRefMut::new / to_owned keep it) and offset()/capacity() of both byte handles are Meta.ptr_offset / ptr_size")
def z3(ctx):
    for fl in FLAVOURS:
        b = ctx.facts.one(r"^<%s::Arena as allocator::Allocator>::alloc_bytes$" % fl)
        cl = ctx.facts.closures_of(b)
        ok = False
        for c in cl:
            ev, res = ctx.eval(c)
            for r in res.log:
                if r["kind"] == "ret0" and not r["chain"] and tag(r["value"]) == "struct" and r["value"][1] == "bytes::BytesRefMut":
                    al = struct_get(r["value"], "allocated")
                    if tag(al) == "payloads" or tag(al) == "payload" or "Some" in show(al):
                        ok = ok or (struct_get(r["value"], "len") == const(0))
        yield Ob(key_of("C08-Z3", b.path, "wraps-meta"), ok, "alloc_bytes: Some(m) => BytesRefMut{allocated: m, len: 0}", b.loc())
    for h, pat in (("BytesRefMut", r"^<bytes::BytesRefMut<'_, A> as Buffer>::(offset|capacity)$"), ("BytesMut", r"^<bytes::BytesMut<A> as Buffer>::(offset|capacity)$")):
        for b in ctx.facts.find(pat):
            ev, res = ctx.eval(b)
            want = field(SELF, "allocated", "ptr_offset" if b.name == "offset" else "ptr_size")
            yield Ob(key_of("C08-Z3", b.path, "accessor"), canon(res.ret) == want, "%s() returns %s" % (b.name, show(want)), b.loc())
    b = ctx.facts.one(r"^bytes::BytesRefMut::<'a, A>::to_owned$")
    ev, res = ctx.eval(b)
    oks = [r for r in res.log if r["kind"] == "ret0" and not r["chain"] and tag(r["value"]) == "struct" and r["value"][1] == "bytes::BytesMut" and tag(struct_get(r["value"], "arena")) == "variant" and struct_get(r["value"], "arena")[2] == "Left"]
    ok = len(oks) == 1 and canon(struct_get(oks[0]["value"], "allocated")) == field(SELF, "allocated") and canon(struct_get(oks[0]["value"], "len")) == field(SELF, "len")
    yield Ob(key_of("C08-Z3", b.path, "to_owned-keeps-meta"), ok, "to_owned: BytesMut{allocated: self.allocated, len: self.len}", b.loc())
    b = ctx.facts.one(r"^bytes::BytesRefMut::<'a, A>::new$")
    ev, res = ctx.eval(b)
    ok = tag(res.ret) == "struct" and struct_get(res.ret, "allocated") == ("param", 1, "allocated") and struct_get(res.ret, "len") == const(0)
    yield Ob(key_of("C08-Z3", b.path, "new-keeps-meta"), ok, "BytesRefMut::new(arena, m) = {allocated: m, len: 0, detach: false}", b.loc())
