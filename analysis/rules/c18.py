"""C18 - truncate changes the capacity and nothing else (unsync::Arena)."""
import re
from engine import rule, Ob, key_of, EXPLAIN, ASSUME
from sym import _walk_terms, Lin, add, sub, const, tag, show, is_const, as_lin, implied_facts, struct_get
from util import *
from order import Order, term_eq

EXPLAIN["C18"] = (
    "Decides for unsync::Arena::truncate and Memory::truncate: the read-only test comes first and returns PermissionDenied "
    "(T1, memmap builds); the size handed on is max(n, allocated()) (T2); Vec arm: a new buffer of that size receives exactly the "
    "first `allocated` bytes of the old one; anonymous-map arm: new[..allocated] <- old[..allocated]; file arm: set_len only grows "
    "the file, the re-map uses that capacity (T3); Memory.cap := size on every arm that changed the mapping and the read-only map arm "
    "changes nothing (T4); Arena.ptr / Arena.cap are refreshed from Memory before Ok is returned (T5); no store to the header, the "
    "cursor, discarded or a node word anywhere in truncate (T6). &mut self exclusivity is a compile-fail witness. Not decided: "
    "behaviour when the re-map itself fails (the old mapping is already gone).")
ASSUME["C18"] = ["memmap2::MmapOptions::len / map_anon / map_mut map exactly the requested length", "alloc_zeroed returns a zeroed buffer of the requested size"]

SELF = ("param", 0, "self")
SIZE = ("param", 1, "size")
MEMCFG = ("memmap", "memmap-nooverflow", "memmap-tracing")


def arena_truncate(ctx):
    return ctx.facts.one(r"^unsync::Arena::truncate$")


@rule("C18-T1", "C18", 1, "truncate on a read-only arena: the read-only test is the first branch and returns Err(PermissionDenied) before anything else", configs=MEMCFG)
def t1(ctx):
    b = arena_truncate(ctx)
    ev, res = ctx.eval(b, no_inline=(r"Memory::<.*>::truncate$",))
    RO = ("hload", SELF, ("ro",), ("v", 0))
    ok = res.conds.get(0) == RO
    errs = [r for r in res.log if r["kind"] == "ret0" and not r["chain"] and tag(r["value"]) == "variant" and r["value"][2] == "Err" and ("bool", RO, True) in ctx.facts_of(ev, r)]
    ok = ok and len(errs) == 1 and "PermissionDenied" in show(errs[0]["value"])
    mt = [e for e in res.log if e["kind"] == "call" and re.search(r"Memory::<.*>::truncate$", e["callee"])]
    ok = ok and len(mt) == 1 and ("bool", RO, False) in ctx.facts_of(ev, mt[0])
    yield Ob(key_of("C18-T1", b.path, "ro-first"), ok, "self.ro tested first; true edge returns PermissionDenied; Memory::truncate only on the writable path", b.loc())


@rule("C18-T2", "C18", 1, "the size handed to Memory::truncate is max(n, allocated()): n when allocated < n, allocated otherwise; `allocated` handed on is allocated()")
def t2(ctx):
    b = arena_truncate(ctx)
    ev, res = ctx.eval(b, no_inline=(r"Memory::<.*>::truncate$",))
    mt = [e for e in res.log if e["kind"] == "call" and re.search(r"Memory::<.*>::truncate$", e["callee"])]
    if len(mt) != 1:
        yield Ob(key_of("C18-T2", b.path, "call"), False, "expected one Memory::truncate call", b.loc())
        return
    e = mt[0]
    alloc = canon(e["args"][1])
    ok_a = tag(alloc) == "field" and alloc[2] == "allocated"
    alts = phi_alternatives(ctx, ev, res, e["args"][2])
    ok = len(alts) >= 1
    det = []
    want = ("max", *sorted([SIZE, alloc], key=repr))
    for v, gs in alts:
        fs = set(canon(f) for f in implied_facts(gs or [])) | set(canon(f) for f in ctx.facts_of(ev, e))
        o = Order(fs)
        v = canon(v)
        # every alternative equals max(n, allocated) under the guards of its path, however it is spelled (if / max / cmp::max)
        good = o.eq_cases(v, want)
        det.append((short(v, 40), good))
        ok = ok and good
    yield Ob(key_of("C18-T2", b.path, "floor"), ok and ok_a, "size' = n if allocated < n else allocated: %s" % det, ctx.loc(e))


@rule("C18-T3", "C18", lambda cfg: 3 if "memmap" in cfg else 1, "Memory::truncate: Vec arm copies exactly `allocated` bytes from the old into a new buffer of the new size; anon arm copies [..allocated]; "
      "file arm calls set_len only to grow and re-maps with the new capacity (C06: a mapping that ends behind the end of the file loses what is written there)", also=("C06", ("C16", "key:(vec|anon)-copy$")))
def t3(ctx):
    b = ctx.facts.one(r"^memory::Memory::<R, PR, H>::truncate$")
    ev, res = ctx.eval(b, no_inline=(r"to_mmap_options$",))
    ALLOC, SZ = ("param", 1, "allocated"), ("param", 2, "size")
    def nr(t):
        """a range kept in a local and used twice: `r.clone()` is r, `r.len()` is end - start"""
        def f(x):
            if tag(x) == "call" and len(x[2]) == 1 and tag(x[2][0]) == "ref" and tag(x[2][0][1]) == "tmp" and tag(x[2][0][1][1]) == "struct" and x[2][0][1][1][1].endswith("ops::Range"):
                r = x[2][0][1][1]
                if x[1].endswith("as std::clone::Clone>::clone") or x[1].endswith("as core::clone::Clone>::clone"):
                    return r
                if x[1].endswith("ExactSizeIterator::len"):
                    return sub(nr(struct_get(r, "end")), nr(struct_get(r, "start")))
            return None
        return term_map(t, f)

    def whole_prefix(v):
        """v = base[..allocated] or base[0..allocated]"""
        v = nr(v)
        if tag(v) == "call" and re.search(r"::index(_mut)?$", v[1]) and len(v[2]) == 2 and tag(v[2][1]) == "struct":
            r = v[2][1]
            nm = r[1].split("::")[-1]
            if nm == "RangeTo":
                return struct_get(r, "end") == ALLOC
            if nm == "Range":
                return struct_get(r, "start") == const(0) and struct_get(r, "end") == ALLOC
        return False
    cps = [e for e in res.log if e["kind"] == "call" and e.get("effect") == "copy" and not e["chain"]]
    ok = len(cps) == 1 and term_eq(nr(cps[0]["count"]), ALLOC)
    if ok:
        news = [e for e in res.log if e["kind"] == "call" and e["callee"].endswith("AlignedVec::new")]
        def base_only(v):
            l = as_lin(nr(v))
            return l.c == 0 and len(l.m) == 1 and list(l.m.values()) == [1]
        # both pointers are the starts of the buffers (`ptr.add(r.start)` with r.start = 0 folds away; any other offset shifts or shortens the copy)
        ok = base_only(cps[0]["src"]) and base_only(cps[0]["dst"])
        ok = ok and len(news) == 1 and news[0]["args"][0] == SZ and "Vec" in show(cps[0]["src"]) and mentions(cps[0]["dst"], struct_get(news[0]["result"], "ptr") if tag(news[0]["result"]) == "struct" else news[0]["result"])
    yield Ob(key_of("C18-T3", b.path, "vec-copy"), ok, "Vec arm: AlignedVec::new(size, align); copy_nonoverlapping(old, new, allocated)", ctx.loc(cps[0]) if cps else b.loc())
    if not ctx.memmap:
        return
    cfs = [e for e in res.log if e["kind"] == "call" and e.get("effect") == "copy_from_slice"]
    ok = len(cfs) == 1
    if ok:
        ok = whole_prefix(cfs[0]["dst"]) and whole_prefix(cfs[0]["src"])
    yield Ob(key_of("C18-T3", b.path, "anon-copy"), ok, "anonymous arm: new[..allocated].copy_from_slice(&old[..allocated])", ctx.loc(cfs[0]) if cfs else b.loc())
    sl = [e for e in res.log if e["kind"] == "call" and e["callee"].endswith("File::set_len")]
    ok = len(sl) == 1
    if ok:
        fs = ctx.facts_of(ev, sl[0])
        newlen = sl[0]["args"][1]
        ok = any(f[0] == "cmp" and f[1] == "Lt" and term_eq(canon(f[3]), canon(newlen)) for f in fs) and mentions(newlen, SZ)
    yield Ob(key_of("C18-T3", b.path, "file-set_len-grows-only"), ok, "file arm: set_len(offset + size) only when the file is shorter", ctx.loc(sl[0]) if sl else b.loc())
    wc = [e for e in res.log if e["kind"] == "call" and e["callee"].endswith("Options::with_capacity")]
    ok = len(wc) == 2 and all(e["args"][1] == SZ for e in wc)
    yield Ob(key_of("C18-T3", b.path, "remap-capacity"), ok, "both re-maps use with_capacity(size)", b.loc())


@rule("C18-T4", "C18", 3, "Memory.cap := size on every arm that re-created the buffer and on no path that fails; Memory.ptr is refreshed on each such arm; the read-only map arm returns without touching anything", also=("C04",))
def t4(ctx):
    b = ctx.facts.one(r"^memory::Memory::<R, PR, H>::truncate$")
    ev, res = ctx.eval(b, no_inline=(r"to_mmap_options$",))
    SZ = ("param", 2, "size")
    caps = [e for e in res.log if is_heap_store(e) and e["base"] == SELF and e["path"] == ("cap",)]
    ok = len(caps) >= 1 and all(e["value"] == SZ for e in caps)
    oks = [r for r in res.log if r["kind"] == "ret0" and not r["chain"] and tag(r["value"]) == "variant" and r["value"][2] == "Ok"]
    # every way to an Ok return passes a cap store, except on the Mmap (read-only) arm, which stores nothing at all
    import dnf as D
    good = True
    stop = frozenset(e["bb"] for e in caps if not e["chain"])

    def arm_of(fs):
        for f in fs:
            if f[0] == "discr" and "backend" in show(f[1]) and f[2][0] == "eq":
                return ctx.facts.variant_by_discr("memory::MemoryBackend", f[2][1])
        return None
    for r in oks:
        if r["bb"] in stop:
            continue        # the store is in the returning block itself
        around = D.block_dnf(ev, res, b, r["bb"], stop=stop)
        if around is None:
            good = False
            continue
        good = good and all(arm_of(c) == "Mmap" for c in around)
    on_map_arm = [e for e in res.log if (is_heap_store(e) or is_raw_write(e)) and arm_of(ctx.facts_of(ev, e)) == "Mmap"]
    good = good and not on_map_arm
    # ... and on no other path: a store to cap / ptr that an error return can follow leaves the arena with a capacity (or a pointer) its backing does not have
    errs = [r for r in res.log if r["kind"] == "ret0" and not r["chain"] and (tag(r["value"]) == "variant" and r["value"][2] == "Err" or tag(r["value"]) == "vsum")]
    early = [e for e in res.log if is_heap_store(e) and not e["chain"] and e["base"] == SELF and e["path"] in (("cap",), ("ptr",))
             and any((r["bb"] in b.reach(e["bb"]) and r["bb"] != e["bb"]) or (r["bb"] == e["bb"] and r["seq"] > e["seq"]) for r in errs)]
    yield Ob(key_of("C18-T4", b.path, "stores-only-on-success"), not early,
             "no store to Memory.cap / Memory.ptr can be followed by an error return (%d such store(s)%s)" % (len(early), (": " + ctx.loc(early[0])) if early else ""), ctx.loc(early[0]) if early else b.loc())
    yield Ob(key_of("C18-T4", b.path, "cap-updated"), ok and good, "cap := size before every Ok except the untouched read-only map arm", b.loc())
    ptrs = [e for e in res.log if is_heap_store(e) and e["base"] == SELF and e["path"] == ("ptr",)]
    n_arms = 3 if ctx.memmap else 1
    yield Ob(key_of("C18-T4", b.path, "ptr-updated"), len(ptrs) == n_arms, "Memory.ptr refreshed on each of the %d re-creating arms (%d stores)" % (n_arms, len(ptrs)), b.loc())


@rule("C18-T5", "C18", 1, "Arena.ptr and Arena.cap are refreshed from Memory (as_mut_ptr(), cap()) after Memory::truncate and before Ok is returned", also=("C04",))
def t5(ctx):
    b = arena_truncate(ctx)
    ev, res = ctx.eval(b, no_inline=(r"Memory::<.*>::truncate$",))
    oks = [r for r in res.log if r["kind"] == "ret0" and not r["chain"] and ((tag(r["value"]) == "variant" and r["value"][2] == "Ok") or r["value"] == ("constval", "()", "()"))]
    mt = [e for e in res.log if e["kind"] == "call" and re.search(r"Memory::<.*>::truncate$", e["callee"])]
    good = bool(oks) and len(mt) == 1
    for r in oks:
        for fld in ("ptr", "cap"):
            st = [e for e in res.log if is_heap_store(e) and e["base"] == SELF and e["path"] == (fld,) and b.dominates(e["bb"], r["bb"]) and e["seq"] > mt[0]["seq"]]
            v = canon(st[-1]["value"]) if st else None
            good = good and st and tag(v) == "field" and v[2] == fld and "inner" in show(v)
    yield Ob(key_of("C18-T5", b.path, "refresh"), bool(good), "self.ptr = memory.as_mut_ptr(); self.cap = memory.cap() dominate the Ok return", b.loc())


@rule("C18-T6", "C18", 1, "truncate writes nothing into the header, the cursor, discarded or any node word")
def t6(ctx):
    b = arena_truncate(ctx)
    ev, res = ctx.eval(b)
    bad = []
    for e in res.log:
        if e["kind"] == "store" and e.get("how") == "store" and (("header" in show(e["base"])) or any(p in ("allocated", "discarded", "min_segment_size", "sentinel") for p in e["path"] if isinstance(p, str))):
            bad.append(e)
        if e["kind"] == "call" and e.get("atomic") and e["atomic"] != "load":
            bad.append(e)
    reads_ok = True
    yield Ob(key_of("C18-T6", b.path, "no-header-effect"), not bad, "no store to header / cursor / discarded / node words (%d found)" % len(bad), b.loc(), {"at": [ctx.loc(e) for e in bad][:3]})


@rule("C18-T7", "C18", 1, "truncate replaces the backing store (new Vec / new mapping, the old one is freed or unmapped) and refreshes only this Arena value's cached "
      "ptr / cap: it may run only when no other Arena value - a clone, or the clone inside an owned handle - shares the Memory, i.e. under a guard refs() == 1; "
      "otherwise every other handle keeps a dangling base pointer (use after free from safe code)", also=("C13",))
def t7(ctx):
    b = arena_truncate(ctx)
    ev, res = ctx.eval(b, no_inline=(r"Memory::<.*>::truncate$",))
    mt = [e for e in res.log if e["kind"] == "call" and re.search(r"Memory::<.*>::truncate$", e["callee"])]
    if len(mt) != 1:
        yield Ob(key_of("C18-T7", b.path, "call"), False, "expected one Memory::truncate call", b.loc())
        return
    fs = ctx.facts_of(ev, mt[0])
    ok = False
    for f in fs:
        if f[0] == "cmp" and f[1] in ("Le", "Lt", "Eq") and "refs" in show(f[2]) and is_const(f[3]) and ((f[1] == "Lt" and f[3].c <= 2) or (f[1] in ("Le", "Eq") and f[3].c <= 1)):
            ok = True
    yield Ob(key_of("C18-T7", b.path, "exclusive"), ok, "Memory::truncate is reached only when refs() == 1: %s" % ("guard found" if ok else "NO guard on the reference count - clones and owned handles keep the old base pointer"),
             ctx.loc(mt[0]), {"facts": sorted(show(f) for f in fs if f[0] == "cmp")[:6]})


@rule("C18-T8", "C18", 1, "capacity() = max(n, allocated()) needs n to fit the arena's 32-bit sizes: every narrowing of the requested size to u32 on the truncate path is "
      "dominated by a guard n <= u32::MAX (a larger request must be refused, not truncated to n mod 2^32)")
def t8(ctx):
    b = arena_truncate(ctx)
    ev, res = ctx.eval(b)
    SZ = ("param", 1, "size")
    casts = [c for c in res.log if c["kind"] == "cast" and c.get("ty") == "u32" and mentions(c["value"], SZ)]
    bad = 0
    for c in casts:
        fs = set(canon(f) for f in ctx.facts_of(ev, c))
        # the value is max(n, allocated) in some spelling: it fits when n does (allocated() is a u32 cursor)
        ok = Order(fs).le(SZ, const(2**32 - 1))
        if not ok:
            bad += 1
            yield Ob(key_of("C18-T8", c["body"].path, "size-narrowed-unguarded", bad), False, "`%s as u32` without a guard n <= u32::MAX: truncate(2^32 + 64) sets the capacity to 64" % short(c["value"], 60), ctx.loc(c))
    yield Ob(key_of("C18-T8", b.path, "narrowing-casts"), len(casts) >= 1, "%d narrowing cast(s) of the requested size on the truncate path, %d unguarded" % (len(casts), bad), b.loc(), trivial=bad == 0)


@rule("C18-T9", "C18", 1, "a failing truncate has no effect: in the file arm the old mapping is released only when the new one exists - no fallible step (`?`) lies between the "
      "release of the old mapping and the store of the new one (otherwise an I/O error leaves the arena pointing at unmapped memory, and the buffer is freed again on drop)",
      configs=MEMCFG)
def t9(ctx):
    b = ctx.facts.one(r"^memory::Memory::<R, PR, H>::truncate$")
    ev, res = ctx.eval(b, no_inline=(r"to_mmap_options$",))
    drops = [e for e in res.log if e["kind"] == "drop" and not e["chain"] and re.search(r"Box<memmap2::MmapMut", e.get("ty") or "")]
    # `drop(Box::from_raw(old))` releases the same way as letting the box go out of scope
    for e in res.log:
        if e["kind"] == "call" and not e["chain"] and re.search(r"^(std|core)::mem::drop$", e["callee"]) and e["args"] and "from_raw" in show(e["args"][0]):
            drops.append({"kind": "drop", "value": e["args"][0], "seq": e["seq"], "bb": e["bb"], "chain": e["chain"], "body": e.get("body"), "si": e.get("si")})
    stores = [e for e in res.log if e["kind"] == "store" and not e["chain"] and e["path"] and e["path"][-1] == "buf"]
    between = []
    swaps = [e for e in res.log if e["kind"] == "call" and not e["chain"] and e["callee"].endswith("mem::replace") and "buf" in show(e["args"][0])]
    if len(drops) == 1 and swaps and mentions(drops[0]["value"], swaps[0]["result"]):
        # the value dropped is what mem::replace took out after putting the new mapping in: released last by construction
        yield Ob(key_of("C18-T9", b.path, "old-mapping-released-last"), True, "file arm: the old mapping is the value returned by mem::replace(buf, new) and is dropped afterwards", ctx.loc(drops[0]))
        return
    ok = len(drops) == 1 and len(stores) == 1
    if ok:
        d, st = drops[0], stores[0]
        if d["seq"] < st["seq"]:
            # the old mapping is gone first: every error return reachable from the drop before the store is a dangling state
            between = [r for r in res.log if r["kind"] == "ret0" and not r["chain"] and tag(r["value"]) == "variant" and r["value"][2] == "Err"
                       and r["bb"] in b.reach(d["bb"]) and st["bb"] not in b.reach(r["bb"]) and d["seq"] < r["seq"]]
            ok = not between
    yield Ob(key_of("C18-T9", b.path, "old-mapping-released-last"), ok,
             "file arm: %s" % ("the old mapping is dropped after the new one is stored" if ok else "%d error return(s) between the release of the old mapping and the store of the new one: %s" %
                               (len(between), [ctx.loc(r) for r in between][:3])), ctx.loc(drops[0]) if drops else b.loc())


@rule("C18-T10", "C18", 6, "a copy-on-write arena (Options::map_copy) keeps its private pages: truncate must re-create the mapping in the same mode (or refuse), not re-map the file "
      "shared - that drops every private modification (the header included: allocated() changes) and makes later writes go to the file", configs=MEMCFG)
def t10(ctx):
    b = ctx.facts.one(r"^memory::Memory::<R, PR, H>::truncate$")
    a = None
    for x in ctx.facts.adts.values():
        if x["path"].endswith("MemoryBackend"):
            a = x
    fields = [f["name"] for v in (a["variants"] if a else []) if v.get("name") == "MmapMut" for f in v["fields"]]
    remembers = any(re.search(r"copy|cow|private|mode|remap|mapper", f) for f in fields)
    callees = [(t.get("resolved") or t.get("callee") or "") for _, t in b.calls()]
    shared_remap = any(c.endswith("memory::mmap_mut") for c in callees)
    # ... and truncate must consult it before it re-maps
    ev, res = ctx.eval(b, no_inline=(r"to_mmap_options$",))
    remaps = [e for e in res.log if e["kind"] == "call" and not e["chain"] and e["callee"].endswith("memory::mmap_mut")]
    consulted = bool(remaps) and all(any(f[0] == "bool" and re.search(r"copy|cow|private|mode", show(f[1])) for f in ctx.facts_of(ev, e)) for e in remaps)
    ok = (remembers and consulted) or not shared_remap
    # ... and what it consults is the truth: each open wrapper hands map_mut_in the flag that describes the mapping function it hands over, and map_mut_in stores
    # that parameter (nothing else) in the backend
    for w in ctx.facts.find(r"^memory::Memory::<R, PR, H>::map_(mut|copy)(_with_path_builder)?$"):
        evw, resw = ctx.eval(w, no_inline=(r"::map_mut_in$",))
        calls = [e for e in resw.log if e["kind"] == "call" and e["callee"].endswith("::map_mut_in")]
        okw, got = len(calls) == 1, None
        if okw:
            fns = [x for x in calls[0]["args"] if tag(x) == "fn"]
            flags = [x for x in calls[0]["args"] if is_const(x)]
            okw = len(fns) == 1 and len(flags) == 1
            if okw:
                got = (show(flags[0]), fns[0][1])
                okw = (flags[0] == const(1)) == fns[0][1].endswith("memory::mmap_copy")
        yield Ob(key_of("C18-T10", w.path, "mode-flag-matches-mapping-function"), okw, "%s hands map_mut_in (copy flag, mapping function) = %s" % (w.name, got), w.loc())
    idx = fields.index("copy") if "copy" in fields else None
    stored = []
    for c in ctx.facts.find(r"^memory::Memory::<R, PR, H>::map_mut_in(::\{closure#0\})?$"):
        evc, resc = ctx.eval(c)
        for r in resc.log:
            if r["kind"] == "ret0" and not r["chain"]:
                def visit(t):
                    if tag(t) == "variant" and str(t[1]).endswith("MemoryBackend") and t[2] == "MmapMut" and idx is not None and len(t[3]) > idx:
                        stored.append(t[3][idx])
                _walk_terms(r["value"], visit)
    okc = bool(stored) and all(x in (("upvar", "copy"), ("param", 2, "copy")) or show(x) in ("^copy", "copy") for x in stored)
    yield Ob(key_of("C18-T10", b.path.replace("truncate", "map_mut_in"), "mode-flag-stored"), okc, "MmapMut{copy} is built from map_mut_in's `copy` parameter: %s" % sorted(set(show(x) for x in stored)), b.loc())
    yield Ob(key_of("C18-T10", b.path, "copy-on-write-mode-kept"), ok,
             "MemoryBackend::MmapMut fields %s %s; truncate %s" % (fields, "record the mapping mode" if remembers else "do not record whether the mapping is private (map_copy) or shared (map_mut)",
                                                               "re-maps with mmap_mut (shared)" if shared_remap else "does not re-map shared"), b.loc())
