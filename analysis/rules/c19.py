"""C19 - checksum covers exactly the allocated bytes after the reserved prefix (ordered contiguous cover)."""
import re
from engine import rule, Ob, key_of, EXPLAIN, ASSUME
from sym import Lin, add, sub, const, tag, show, is_const, as_lin, implied_facts, struct_get, mul
from util import *
from order import Order, term_eq

EXPLAIN["C19"] = (
    "Decides that Allocator::checksum feeds the hasher an ordered, gap-free, overlap-free cover of data = allocated_memory()[reserved..], whatever the content "
    "and the length: X1 `data` is allocated_memory() indexed from the length of the reserved prefix; X2 one hasher is built from the caller's builder, every "
    "update / digest goes to it and the result returned is its digest; X3 a symbolic position (bytes of `data` consumed so far) is propagated over the CFG - it is 0 "
    "at entry, every update must start exactly at the position and moves it to the end of its slice, positions agree at joins under the guards of the incoming "
    "edges, a loop carries the invariant `position = start of the loop's update` (checked at loop entry with the initial values of the loop variables and "
    "preserved over the back edge with their next values; a `for i in a..b` loop contributes i <= b, hence i = b at its exit), and the position equals data.len() "
    "at every return. The arithmetic is exact: products are distributed ((k + 1) * p = k * p + p), x = y * (x / y) + x % y with 0 <= x % y < y is an axiom, "
    "linear consequences are decided by Fourier-Motzkin. An equal digest then follows from the streaming contract of Checksumer (update(a); update(b) = "
    "update(a ++ b)), which is the assumption every chunked use of a hasher relies on. A single update(data) and `for c in data.chunks(n) { update(c) }` are "
    "covers by construction / by the contract of slice::chunks.")
ASSUME["C19"] = ["Checksumer::update is a streaming fold: feeding a ++ b in two updates equals one update (dbutils contract)",
                 "page_size() != 0 (the division asserts it)", "slice::chunks yields consecutive, gap-free sub-slices in order (std contract)"]

SELF = ("param", 0, "self")
CKS = ("param", 1, "cks")


def _strip(t):
    """drop the call-site tags of pure accessor calls so that two reads of the same accessor are one value"""
    def f(x):
        if tag(x) == "call" and len(x) > 3:
            return ("call", x[1], tuple(term_map(a, f) if isinstance(a, (tuple, Lin)) else a for a in x[2]))
        return None
    return term_map(t, f)


def _subst(t, mp, depth=0):
    """substitute atoms and re-normalise products ((k + 1) * p -> k * p + p)"""
    if depth > 40:
        return t
    if isinstance(t, (tuple, Lin)) and t in mp and mp[t] is not None:
        return mp[t]
    if isinstance(t, Lin):
        from sym import scale
        out = const(t.c)
        for a, c in t.m.items():
            out = add(out, scale(_subst(a, mp, depth + 1), c))
        return out
    if isinstance(t, tuple):
        if tag(t) == "mul":
            return mul(_subst(t[1], mp, depth + 1), _subst(t[2], mp, depth + 1))
        return tuple(_subst(x, mp, depth + 1) if isinstance(x, (tuple, Lin)) else x for x in t)
    return t


def _field_of(v, path):
    for p in path:
        if tag(v) == "struct":
            v = struct_get(v, p)
        else:
            return None
    return v


@rule("C19-X1", "C19", 2, "checksum: `data` is allocated_memory() indexed from the length of the reserved prefix, and the hasher is built once from the caller's builder; "
      "every update / digest is applied to that hasher and its digest is what is returned")
def x1(ctx):
    b = ctx.facts.one(r"^allocator::Allocator::checksum$")
    ev, res = ctx.eval(b)
    D, TOTAL, why = data_slice(res)
    yield Ob(key_of("C19-X1", b.path, "data-slice"), D is not None, why, b.loc())
    builds = [e for e in res.log if e["kind"] == "call" and not e["chain"] and e["callee"].endswith("BuildChecksumer::build_checksumer")]
    ups = [e for e in res.log if e["kind"] == "call" and not e["chain"] and re.search(r"Checksumer::\w+$", e["callee"]) and not e["callee"].endswith("build_checksumer")]
    ok = len(builds) == 1 and builds[0]["args"][0] == CKS
    recv = set(repr(e["args"][0]) for e in ups)
    other = [e["callee"].split("::")[-1] for e in ups if e["callee"].split("::")[-1] not in ("update", "digest")]
    dig = [e for e in ups if e["callee"].endswith("::digest")]
    ok = ok and len(recv) == 1 and not other and len(dig) >= 1 and all(r["value"] in [d["result"] for d in dig] for r in res.log if r["kind"] == "ret0" and not r["chain"])
    yield Ob(key_of("C19-X1", b.path, "one-hasher"), ok, "one build_checksumer(cks); %d update / digest call(s) on one receiver; other hasher calls: %s; the digest is returned" % (len(ups), other), b.loc())


def data_slice(res):
    """-> (D, TOTAL, explanation): D the value every update slices, TOTAL its length"""
    idx = [e for e in res.log if e["kind"] == "call" and not e["chain"] and re.search(r"::index$", e["callee"]) and tag(e["args"][1]) == "struct" and e["args"][1][1].endswith("RangeFrom")]
    for e in idx:
        base, rng = e["args"][0], e["args"][1]
        st = struct_get(rng, "start")
        sb, ss = show(_strip(base)), show(_strip(st))
        base_ok = sb in ("slice(raw_ptr(self), allocated(self))", "allocated_memory(self)")
        start_ok = ss in ("len(reserved_slice(self))", "reserved_bytes(self)")
        if base_ok and start_ok:
            D = e["result"]
            lens = [c for c in res.log if c["kind"] == "call" and not c["chain"] and c["callee"].endswith("<impl [T]>::len") and c["args"] and c["args"][0] == D]
            total = lens[0]["result"] if lens else ("len", D)
            return D, total, "data = %s[%s..]" % (sb, ss)
    return None, None, "no `allocated_memory()[reserved..]` slice found (%d RangeFrom index site(s))" % len(idx)


def slice_bounds(v, D, TOTAL, depth=0):
    """[start, end) of v inside D; a sub-slice of a sub-slice (`let (head, data) = data.split_at(h)`, `let data = &data[h..]`) is placed by adding the offsets"""
    if v == D:
        return const(0), TOTAL
    if depth < 4 and tag(v) == "call" and re.search(r"::index$", v[1]) and len(v[2]) == 2 and tag(v[2][1]) == "struct":
        base = slice_bounds(v[2][0], D, TOTAL, depth + 1)
        if base is None:
            return None
        bs, be = base
        r = v[2][1]
        nm = r[1].split("::")[-1]
        s_, e_ = struct_get(r, "start"), struct_get(r, "end")
        if nm == "Range" and s_ is not None and e_ is not None:
            return add(bs, s_), add(bs, e_)
        if nm == "RangeFrom" and s_ is not None:
            return add(bs, s_), be
        if nm == "RangeTo" and e_ is not None:
            return bs, add(bs, e_)
        if nm == "RangeFull":
            return bs, be
    return None


def _empty_facts(fs):
    """`s.is_empty()` known true / false says len(s) = 0 / len(s) >= 1"""
    out = set(fs)
    for f in fs:
        if isinstance(f, tuple) and len(f) == 3 and f[0] == "bool" and tag(f[1]) == "call" and f[1][1].endswith("<impl [T]>::is_empty") and len(f[1][2]) == 1:
            ln = ("len", f[1][2][0])
            out.add(("cmp", "Eq", ln, const(0)) if f[2] else ("cmp", "Ge", ln, const(1)))
    return out


@rule("C19-X3", "C19", 2, "checksum: the update calls form an ordered contiguous cover of data - the consumed position starts at 0, every update starts at the position and "
      "advances it to its end, positions agree at joins, loops preserve `position = start of their update`, and the position is data.len() at every return")
def x3(ctx):
    b = ctx.facts.one(r"^allocator::Allocator::checksum$")
    ev, res = ctx.eval(b)
    D, TOTAL, why = data_slice(res)
    if D is None:
        yield Ob(key_of("C19-X3", b.path, "data-slice"), False, why, b.loc())
        yield Ob(key_of("C19-X3", b.path, "ends-at-len"), False, "no cover can be established without the data slice", b.loc())
        return
    LEN = lambda t: _subst(t, {})
    updates = [e for e in res.log if e["kind"] == "call" and not e["chain"] and e["callee"].endswith("Checksumer::update")]
    # `chunks.for_each(|c| hasher.update(c))`: the closure's update, applied to every chunk in order, stands at the call site of for_each
    each = [e for e in res.log if e["kind"] == "call" and len(e["chain"]) == 1 and e.get("foreach") and e["callee"].endswith("Checksumer::update")
            and e["args"][1] == ("payload", e["foreach"], "Some", 0)]
    yield Ob(key_of("C19-X3", b.path, "has-updates"), len(updates) + len(each) >= 1, "%d update site(s)" % (len(updates) + len(each)), b.loc())
    # normalise: the length of data is one term wherever it is read
    def N(t):
        def f(x):
            if x != TOTAL and ((tag(x) == "call" and x[1].endswith("<impl [T]>::len") and len(x[2]) == 1 and x[2][0] == D) or (tag(x) == "len" and len(x) == 2 and x[1] == D)):
                return TOTAL
            # the length of a sub-slice: len(x[s..]) = len(x) - s, len(x[s..e]) = e - s, len(x[..e]) = e (the indexing itself panics when out of range)
            if x != TOTAL and tag(x) == "len" and len(x) == 2 and tag(x[1]) == "call" and x[1][1].endswith("::index") and len(x[1][2]) == 2 and tag(x[1][2][1]) == "struct":
                base, rng = x[1][2]
                s_, e_ = struct_get(rng, "start"), struct_get(rng, "end")
                kind = rng[1].split("::")[-1]
                if kind == "RangeFrom" and s_ is not None:
                    return sub(N(("len", base)), N(s_))
                if kind == "Range" and s_ is not None and e_ is not None:
                    return sub(N(e_), N(s_))
                if kind == "RangeTo" and e_ is not None:
                    return N(e_)
            return None
        return term_map(t, f)
    TOT = N(TOTAL)
    back = set(b.back_edges())
    heads = sorted(set(v for _, v in back))
    loops = {}
    for h in heads:
        body_ = set()
        for u, v in back:
            if v == h:
                body_ |= b.natural_loop((u, v))
        loops[h] = body_
    chunk_loops = {}

    AUX = {}

    def aux_for(bb):
        return set(f for h, f in AUX.items() if b.dominates(h, bb))

    def facts_at(bb):
        return _empty_facts(set(implied_facts(ev.guards(res, bb)))) | aux_for(bb)

    def facts_edge(p, j):
        return _empty_facts(set(implied_facts(ev.guards_edge(res, p, j)))) | aux_for(p)

    def eq(fs, x, y):
        x, y = N(x), N(y)
        if term_eq(x, y):
            return True
        return Order(set(N(f) if isinstance(f, tuple) else f for f in fs)).eq(x, y)

    # loop invariants
    INV = {}
    problems = []
    for h in heads:
        ups = [e for e in updates if e["bb"] in loops[h]]
        inner = [h2 for h2 in heads if h2 != h and h2 in loops[h]]
        if inner:
            problems.append(("nested-loop", b.loc(h), "nested loops around update calls are not handled"))
            INV[h] = ("fail",)
            continue
        if not ups:
            INV[h] = None
            continue
        if len(ups) != 1:
            problems.append(("loop-shape", b.loc(h), "%d update sites inside one loop" % len(ups)))
            INV[h] = ("fail",)
            continue
        u = ups[0]
        latches = [x for x, v in back if v == h]
        reach = b.reach(h, removed=frozenset(back), stop=frozenset([u["bb"]]))
        if any(l in reach for l in latches):
            problems.append(("loop-shape", b.loc(h), "an iteration can reach the back edge without passing the update"))
            INV[h] = ("fail",)
            continue
        arg = u["args"][1]
        if tag(arg) == "payload" and tag(arg[1]) == "chunksnext":
            # chunks over data or over a sub-slice data[s..e]: the loop feeds [s, e) in order; chunks_exact leaves a partial last chunk out, so its
            # slice must be a whole number of chunks (its length a product with the chunk size as a factor)
            cn = arg[1]
            sbx = slice_bounds(cn[1], D, TOTAL)
            if sbx is None:
                problems.append(("update-arg", ev_loc(ctx, u), "the loop chunks something that is not a sub-slice of data: %s" % short(cn[1], 80)))
                INV[h] = ("fail",)
                continue
            s0, e0 = N(sbx[0]), N(sbx[1])
            if len(cn) > 3 and cn[3] == "exact":
                ln = sub(e0, s0)
                n_ = cn[2]
                whole = tag(ln) == "mul" and (term_eq(ln[1], n_) or term_eq(ln[2], n_))
                if isinstance(ln, Lin) and len(ln.m) == 1 and ln.c == 0:
                    (a_, c_), = ln.m.items()
                    whole = c_ == 1 and tag(a_) == "mul" and (term_eq(a_[1], n_) or term_eq(a_[2], n_))
                if not whole:
                    problems.append(("chunks-exact-tail", ev_loc(ctx, u), "chunks_exact(%s) over a slice of length %s may leave a partial chunk unfed" % (short(n_, 30), short(ln, 60))))
                    INV[h] = ("fail",)
                    continue
            INV[h] = ("chunks", cn, s0, e0)
            continue
        sb = slice_bounds(arg, D, TOTAL)
        if sb is None:
            problems.append(("update-arg", ev_loc(ctx, u), "the loop's update is not applied to a sub-slice of data: %s" % short(arg, 80)))
            INV[h] = ("fail",)
            continue
        INV[h] = ("pos", N(sb[0]))

    def head_phis(h, t):
        out = set()
        def f(x):
            if tag(x) == "phi" and str(x[1][-1]).endswith("@%d" % h) and len(x[1]) == 1:
                out.add(x)
            return None
        term_map(t, f)
        return out

    def phi_value(x, env):
        key = x[2]
        if isinstance(key, tuple):
            return _field_of(env.get(key[0]), key[1:])
        return env.get(key)

    # auxiliary loop invariant "the position never exceeds data.len()": inductive when it holds at loop entry and the loop condition implies it for the next
    # iteration (`while off + n <= len { .. off += n }`); it is what turns `!(off < len)` after the loop into off = len
    for h in heads:
        inv = INV.get(h)
        if not inv or inv[0] != "pos":
            continue
        I = inv[1]
        ins = [q for q in b.pred[h] if (q, h) not in back and q in res.env_out]
        lat = [q for q, v in back if v == h and q in res.env_out]

        def inst(q):
            mp = {x: phi_value(x, res.env_out[q]) for x in head_phis(h, I)}
            return None if any(v is None for v in mp.values()) else N(_subst(I, mp))
        cand = ("cmp", "Le", I, TOT)
        e_ok = bool(ins) and all(inst(q) is not None and Order(set(implied_facts(ev.guards_edge(res, q, h)))).le(inst(q), TOT) for q in ins)
        s_ok = bool(lat) and all(inst(q) is not None and Order(set(implied_facts(ev.guards_edge(res, q, h))) | {cand}).le(inst(q), TOT) for q in lat)
        if e_ok and s_ok:
            AUX[h] = cand

    pos_out = {}
    order_ = [x for x in b.rpo()]
    for bb in order_:
        if b.blocks[bb].get("cleanup"):
            continue
        fwd = [p for p in b.pred[bb] if (p, bb) not in back and p in pos_out]
        if bb == 0:
            pin = const(0)
        else:
            if not fwd:
                continue
            cands = []
            for p in fwd:
                pp = pos_out[p]
                # leaving a `for i in a..e` loop: i <= e is invariant (a <= e at entry, i + 1 <= e after every `Some`), so i = e at the exit
                for h in heads:
                    if p in loops[h] and bb not in loops[h]:
                        c = res.conds.get(p)
                        if tag(c) == "discr" and tag(c[1]) == "rangenext":
                            k, E = c[1][1], c[1][2]
                            if tag(k) == "phi" and k in head_phis(h, k):
                                ins = [q for q in b.pred[h] if (q, h) not in back and q in res.env_out]
                                lat = [q for q, v in back if v == h and q in res.env_out]
                                init = [phi_value(k, res.env_out[q]) for q in ins]
                                nxt = [phi_value(k, res.env_out[q]) for q in lat]
                                okc = bool(init) and bool(nxt) and all(i is not None and Order(facts_edge(q, h)).le(i, E) for i, q in zip(init, ins)) and all(n is not None and term_eq(n, add(k, const(1))) for n in nxt)
                                if okc:
                                    pp = _subst(pp, {k: E})
                                else:
                                    problems.append(("range-counter", b.loc(h), "cannot establish i <= end for the range loop"))
                cands.append((p, pp))
            pin = None
            for _, c in cands:
                if all(eq(facts_edge(p, bb), pp, c) for p, pp in cands):
                    pin = c
                    break
            if pin is None:
                problems.append(("join", b.loc(bb), "positions disagree at a join: %s" % [short(N(pp), 60) for _, pp in cands]))
                pin = cands[0][1]
            if bb in heads:
                inv = INV.get(bb)
                if inv is None:
                    pass
                elif inv[0] == "pos":
                    I = inv[1]
                    for p, pp in cands:
                        env = res.env_out.get(p, {})
                        mp = {x: phi_value(x, env) for x in head_phis(bb, I)}
                        if any(v is None for v in mp.values()) or not eq(facts_edge(p, bb), pp, _subst(I, mp)):
                            problems.append(("loop-entry", b.loc(bb), "at loop entry the position %s is not the start of the first update %s" % (short(N(pp), 50), short(_subst(I, {k: v for k, v in mp.items() if v is not None}), 60))))
                    pin = I
                elif inv[0] == "chunks":
                    for p, pp in cands:
                        if not eq(facts_edge(p, bb), pp, inv[2]):
                            problems.append(("loop-entry", b.loc(bb), "a chunks() loop over data[%s..] starts at position %s" % (short(inv[2], 30), short(N(pp), 50))))
                    pin = ("chunks-pos", inv[1])
        pos = pin
        here = [u for u in updates if u["bb"] == bb] + [u for u in each if u["chain"][0][1] == bb]
        for e in sorted(here, key=lambda u: u["seq"]):
            if e.get("foreach"):
                cn = e["foreach"]
                sbx = slice_bounds(cn[1], D, TOTAL)
                okx = sbx is not None
                if okx and len(cn) > 3 and cn[3] == "exact":
                    ln = sub(N(sbx[1]), N(sbx[0]))
                    okx = tag(ln) == "mul" and (term_eq(ln[1], cn[2]) or term_eq(ln[2], cn[2]))
                    if isinstance(ln, Lin) and len(ln.m) == 1 and ln.c == 0:
                        (a_, c_), = ln.m.items()
                        okx = c_ == 1 and tag(a_) == "mul" and (term_eq(a_[1], cn[2]) or term_eq(a_[2], cn[2]))
                partial = False
                if not okx and sbx is not None and len(cn) > 3 and cn[3] == "exact":
                    # chunks_exact over a slice that need not be a whole number of chunks feeds all but its last len % n bytes: the position stops there,
                    # and whoever comes next (`remainder()`) has to start there
                    partial = True
                elif not okx:
                    problems.append(("update-arg", ev_loc(ctx, e), "for_each over chunks of something that is not a whole number of chunks of a sub-slice of data: %s" % short(cn[1], 80)))
                    continue
                fs = _empty_facts(set(implied_facts(ctx.guards_of(ev, e))))
                if not eq(fs, N(sbx[0]), pos):
                    problems.append(("gap-or-overlap", ev_loc(ctx, e), "the chunk loop starts at %s but %s bytes have been fed so far" % (short(N(sbx[0]), 60), short(N(pos), 60))))
                pos = N(sbx[1])
                if partial:
                    ln_ = sub(N(sbx[1]), N(sbx[0]))
                    pos = sub(N(sbx[1]), ("rem", ln_, N(cn[2])))
                continue
            h_in = [h for h in heads if bb in loops[h]]
            if h_in and INV.get(h_in[0]) and INV[h_in[0]][0] == "chunks":
                continue   # covered by the contract of slice::chunks
            sb = slice_bounds(e["args"][1], D, TOTAL)
            if sb is None:
                problems.append(("update-arg", ev_loc(ctx, e), "update is not applied to a sub-slice of data: %s" % short(e["args"][1], 80)))
                continue
            s_, e_ = N(sb[0]), N(sb[1])
            fs = _empty_facts(set(implied_facts(ctx.guards_of(ev, e))))
            if not eq(fs, s_, pos):
                problems.append(("gap-or-overlap", ev_loc(ctx, e), "update starts at %s but %s bytes have been fed so far" % (short(s_, 60), short(N(pos), 60))))
            pos = e_
        pos_out[bb] = pos
        for (u_, h) in back:
            if u_ == bb:
                inv = INV.get(h)
                if inv is None:
                    if h in pos_out and not eq(facts_edge(bb, h), pos, pos_out[h]):
                        problems.append(("loop-step", b.loc(h), "a loop without update changes the position"))
                elif inv[0] == "pos":
                    I = inv[1]
                    env = res.env_out.get(bb, {})
                    mp = {x: phi_value(x, env) for x in head_phis(h, I)}
                    if any(v is None for v in mp.values()) or not eq(facts_edge(bb, h), pos, _subst(I, mp)):
                        problems.append(("loop-step", b.loc(h), "after one iteration the position %s is not the start of the next update %s" % (short(N(pos), 60), short(N(_subst(I, {k: v for k, v in mp.items() if v is not None})), 60))))
        # leaving a chunks loop on None: everything was fed
        for h in heads:
            if bb in loops[h] and INV.get(h) and INV[h][0] == "chunks":
                c = res.conds.get(bb)
                if tag(c) == "discr" and c[1] == INV[h][1]:
                    pos_out[bb] = INV[h][3]
    for key, loc, what in problems:
        yield Ob(key_of("C19-X3", b.path, key), False, what, loc)
    if not problems:
        yield Ob(key_of("C19-X3", b.path, "contiguous"), True, "every update starts where the previous one ended (%d site(s), %d loop(s))" % (len(updates), len(heads)), b.loc())
    rets = [r for r in b.returns() if r in pos_out]
    okr = bool(rets)
    det = []
    for r in rets:
        good = eq(facts_at(r), pos_out[r], TOT)
        det.append((short(N(pos_out[r]), 70), good))
        okr = okr and good
    yield Ob(key_of("C19-X3", b.path, "ends-at-len"), okr, "position at return = data.len(): %s" % det, b.loc())
    yield Ob(key_of("C19-X3", b.path, "starts-at-zero"), True, "position 0 at entry by construction; first update checked against it", b.loc(), trivial=True)


def ev_loc(ctx, e):
    return ctx.loc(e)
