"""C17 - rewind clamps into the data area; clear restores the pristine arena."""
import re
from engine import rule, Ob, key_of, EXPLAIN, ASSUME
from sym import Lin, add, sub, const, tag, show, is_const, as_lin, implied_facts, struct_get
from util import *
from order import Order, term_eq

EXPLAIN["C17"] = (
    "Decides, for rewind in both flavours: every path to the return passes the cursor store (W1); on every path class "
    "the stored term equals clamp(x) = min(cap, max(data_offset, x)) for x = n | cap - n | allocated + d under that path's "
    "guards (W2); the Current arm's addition cannot overflow (W3); rewind has no other effect (W4). For clear: read-only "
    "guard first, then Memory::clear writes H::new(data_offset, current min_segment_size) - whose own aggregate has an "
    "empty sentinel and discarded = 0 - and zeroes exactly [data_offset, cap) (Cl1-Cl4). Symbolic position payloads, so the "
    "whole u32 / i64 range is covered. Not decided: equality with a fresh arena over subsequent histories (follows from "
    "C16 constructor agreement).")
ASSUME["C17"] = ["0 <= data_offset <= cap (established by the constructors, C16-L3)",
                 "i64 saturating addition is identified with exact addition: results only differ beyond +-2^63 where the clamp agrees"]

FLAVOURS = ("sync", "unsync")


def arena_fn(ctx, fl, name):
    return ctx.facts.one(r"^<%s::Arena as allocator::Allocator>::%s$" % (fl, name))


def cursor_stores(res, fl):
    out = []
    for e in res.log:
        if e["kind"] != "store":
            continue
        if fl == "sync" and e.get("how") == "atomic-store" and tag(e["base"]) == "heap" and e["base"][2] == ("allocated",):
            out.append(e)
        if fl == "unsync" and e.get("how") == "store" and e["path"] == ("allocated",) and tag(e["base"]) == "call" and e["base"][1].endswith("::header"):
            out.append(e)
    return out


def option_cases(ev, res, t, depth=0):
    """The ways an Option-valued term can turn out: [(payload or None, guard pairs)] - a join of this frame by incoming edge, `checked_sub`, `Result::ok` of an
    integer `try_from`, `Some(v).filter(|_| c)` / `c.then_some(v)`, `a.or(b)`, literals.  None when the term is not understood."""
    if depth > 6:
        return None
    T = lambda c: (c, ("eq", 1))
    F = lambda c: (c, ("eq", 0))
    tg = tag(t)
    if tg == "variant" and t[2] == "Some":
        return [(t[3][0], [])]
    if tg == "variant" and t[2] == "None":
        return [(None, [])]
    if tg == "phi" and len(t) > 4 and t[4] and all(o is not None for o in t[4]):
        try:
            jb = int(str(t[1][-1]).split("@")[-1])
        except ValueError:
            return None
        out = []
        for alt, o in zip(t[3], t[4]):
            sub_ = option_cases(ev, res, alt, depth + 1)
            if sub_ is None:
                return None
            eg = list(ev.guards_edge(res, o, jb))
            out.extend((p_, eg + g_) for p_, g_ in sub_)
        return out
    if tg == "call" and isinstance(t[1], str) and t[1].endswith("checked_sub") and len(t[2]) == 2:
        a, b_ = t[2]
        return [(sub(a, b_), [T(("cmp", "Le", b_, a))]), (None, [T(("cmp", "Lt", a, b_))])]
    if tg == "filter" and tag(t[1]) == "variant" and t[1][2] == "Some":
        return [(t[1][3][0], [T(t[2])]), (None, [F(t[2])])]
    if tg == "call" and isinstance(t[1], str) and re.search(r"Result::<.*>::ok$", t[1]) and len(t[2]) == 1 and tag(t[2][0]) == "tryfrom":
        x, ty = t[2][0][1], t[2][0][2]
        rng = {"u8": (0, 2**8 - 1), "u16": (0, 2**16 - 1), "u32": (0, 2**32 - 1), "u64": (0, 2**64 - 1), "usize": (0, 2**64 - 1)}.get(ty)
        if rng is None:
            return None
        return [(x, [T(("cmp", "Ge", x, const(rng[0]))), T(("cmp", "Le", x, const(rng[1])))]), (None, [T(("cmp", "Lt", x, const(rng[0])))]), (None, [T(("cmp", "Gt", x, const(rng[1])))])]
    if tg == "call" and isinstance(t[1], str) and re.search(r"Option::<.*>::or$", t[1]) and len(t[2]) == 2:
        a_, b_ = option_cases(ev, res, t[2][0], depth + 1), option_cases(ev, res, t[2][1], depth + 1)
        if a_ is None or b_ is None:
            return None
        out = [(p_, g_) for p_, g_ in a_ if p_ is not None]
        for p_, g_ in a_:
            if p_ is None:
                out.extend((q_, g_ + h_) for q_, h_ in b_)
        return out
    return None


def resimplify_minmax(v):
    """min / max terms rebuilt after a substitution (operands sorted as the evaluator sorts them)"""
    def f(x):
        if tag(x) in ("min", "max") and len(x) == 3:
            a, b_ = term_map(x[1], f), term_map(x[2], f)
            return (x[0], *sorted([a, b_], key=repr))
        return None
    return term_map(v, f)


def clamp_ok(order, v, x, do, cap):
    """v == min(cap, max(do, x)) under the facts of `order`"""
    mx = ("max", *sorted([do, x], key=repr))
    full = ("min", *sorted([cap, mx], key=repr))
    if v == full:
        return True
    if term_eq(v, cap) and order.le(cap, x):
        return True
    if term_eq(v, do) and order.le(x, do):
        return True
    if v == mx and order.le(x, cap):
        return True
    if term_eq(v, x) and order.le(do, x) and order.le(x, cap):
        return True
    # any other spelling (clamp, saturating_sub + max, ...): equality by case analysis over the min / max / satsub atoms
    return order.eq_cases(v, full)


@rule("C17-W1", "C17", 2, "rewind: every path from entry to the return passes through the store to the cursor (no arm returns without storing)")
def w1(ctx):
    for fl in FLAVOURS:
        b = arena_fn(ctx, fl, "rewind")
        ev, res = ctx.eval(b)
        st = [e for e in cursor_stores(res, fl) if not e["chain"]]
        if len(st) != 1:
            yield Ob(key_of("C17-W1", b.path, "store"), False, "expected exactly one cursor store in rewind, found %d" % len(st), b.loc())
            continue
        s = st[0]
        for r in b.returns():
            ok = b.dominates(s["bb"], r)
            bypass = None
            if not ok:
                # name the bypassing predecessor chain
                reach = b.reach(0, stop=frozenset({s["bb"]}))
                bypass = sorted(x for x in reach if r in b.succ[x])
            yield Ob(key_of("C17-W1", b.path, "must-store"), ok,
                     "cursor store (bb%d) dominates the return (bb%d)%s" % (s["bb"], r, "" if ok else ": a path reaches the return without storing, via block(s) %s (%s)" % (bypass, ", ".join(b.loc(x) for x in bypass or []))),
                     ctx.loc(s))


@rule("C17-W2", "C17", 10, "rewind: on every path class the stored cursor equals min(cap, max(data_offset, x)), x = n (Start) | cap - n (End) | allocated + d (Current) "
      "(C06: a cursor outside [data_offset, cap] in the mapped header is refused by every later open)", also=("C06",))
def w2(ctx):
    for fl in FLAVOURS:
        b = arena_fn(ctx, fl, "rewind")
        ev, res = ctx.eval(b)
        st = [e for e in cursor_stores(res, fl) if not e["chain"]]
        if len(st) != 1:
            continue
        s = st[0]
        SELF = ("param", 0, "self")
        POS = ("param", 1, "pos")
        do, cap = field(SELF, "data_offset"), field(SELF, "cap")
        alts = phi_alternatives(ctx, ev, res, s["value"])
        # the value of allocated read at entry
        if fl == "sync":
            ld = [e for e in res.log if e["kind"] == "call" and e.get("atomic") == "load" and e["target"][2] == ("allocated",)]
            cur = ld[0]["result"] if ld else None
        else:
            cur = None
            for e in res.log:
                if e["kind"] == "arith" and term_contains(e["a"], lambda t: tag(t) == "hload" and t[2] == ("allocated",)):
                    cur = e["a"]
            if cur is None:
                cur = ("hload", ("call", "unsync::Arena::header", (SELF,)), ("allocated",), ("v", 0))
        xs = {"Start": ("payload", POS, "Start", 0), "End": sub(cap, ("payload", POS, "End", 0)), "Current": add(cur, ("payload", POS, "Current", 0))}
        discr = {0: "Start", 1: "End", 2: "Current"}
        n = 0
        # `target.map_or(data_offset, |o| o.clamp(data_offset, cap))` over a target that one helper computes for all three arms: the stored value is a join
        # without edges of its own - it is taken apart by the ways the Option can turn out, each with the arm's guards
        val0 = s["value"]
        if (len(alts) >= 1 and any(gs is None for _, gs in alts) and tag(val0) == "phi" and len(val0[3]) == 2):
            tgt_terms = []
            term_map(val0, lambda x: tgt_terms.append(x[1]) or None if (tag(x) == "payload" and x[2] == "Some" and str(x[3]) == "0" and tag(x[1]) in ("phi", "call", "filter")) else None)
            cases = option_cases(ev, res, tgt_terms[0]) if len(set(map(repr, tgt_terms))) == 1 else None
            if cases:
                T_ = tgt_terms[0]
                mapped = [a for a in val0[3] if mentions(a, ("payload", T_, "Some", 0))]
                dflt = [a for a in val0[3] if not mentions(a, ("payload", T_, "Some", 0))]
                if len(mapped) == 1 and len(dflt) == 1:
                    alts = []
                    for p_, g_ in cases:
                        v_ = dflt[0] if p_ is None else term_map(mapped[0], lambda x, p_=p_: p_ if x == ("payload", T_, "Some", 0) else None)
                        alts.append((resimplify_minmax(v_), g_))
        for v, gs in alts:
            if gs is None:
                yield Ob(key_of("C17-W2", b.path, "alt-unknown"), False, "a stored alternative has no path guards: %s" % short(v, 100), ctx.loc(s))
                continue
            fs = implied_facts(gs)
            arm = None
            for f in fs:
                if f[0] == "discr" and f[1] == POS and f[2][0] == "eq":
                    arm = ctx.facts.variant_by_discr("ArenaPosition", f[2][1])
            if arm is None:
                yield Ob(key_of("C17-W2", b.path, "arm-unknown"), False, "cannot tell which ArenaPosition arm produced %s" % short(v, 100), ctx.loc(s))
                continue
            order = Order(fs, extra_ge0=[sub(cap, do), sub(const(2**32 - 1), cap)])      # data_offset <= cap (C16-L3), cap is a u32
            ok = clamp_ok(order, v, xs[arm], do, cap)
            if not ok:
                # an alternative that arrives over several source paths (`Ok(_) | Err(_) => cap`): judge every way of getting there
                import dnf as D

                def flat(x, acc):
                    if tag(x) == "phi" and len(x) > 4:
                        try:
                            jb_ = int(str(x[1][-1]).split("@")[-1])
                        except ValueError:
                            return
                        for a_, o_ in zip(x[3], x[4]):
                            if tag(a_) == "phi" and len(a_) > 4:
                                flat(a_, acc)
                            elif o_ is not None:
                                acc.append((a_, o_, jb_))
                srcs = []
                flat(s["value"], srcs)
                srcs = [(o_, jb_) for a_, o_, jb_ in srcs if a_ == v]
                if srcs:
                    ok = True
                    for o_, jb_ in srcs:
                        cond = D.block_dnf(ev, res, b, o_)
                        edge = D.guard_dnf([g for g in ev.guards_edge(res, o_, jb_) if g not in ev.guards(res, o_)])
                        if cond is None:
                            ok = False
                            break
                        for c in cond:
                            for e_ in edge:
                                conj = set(c) | set(e_)
                                if D.conj_unsat(conj):
                                    continue
                                if not clamp_ok(Order(conj, extra_ge0=[sub(cap, do), sub(const(2**32 - 1), cap)]), v, xs[arm], do, cap):
                                    ok = False
            n += 1
            yield Ob(key_of("C17-W2", b.path, "clamp-%s" % arm, n), ok,
                     "%s arm: stored %s %s clamp(%s) under {%s}" % (arm, short(v, 90), "==" if ok else "is NOT provably", short(xs[arm], 60),
                                                                    "; ".join(sorted(show(f) for f in fs if f[0] == "cmp"))[:200]), ctx.loc(s))
        arms_seen = set()
        for v, gs in alts:
            for f in implied_facts(gs or []):
                if f[0] == "discr" and f[1] == POS and f[2][0] == "eq":
                    arms_seen.add(f[2][1])
        yield Ob(key_of("C17-W2", b.path, "all-arms"), arms_seen == {0, 1, 2}, "stored alternatives cover Start, End and Current (%s)" % sorted(arms_seen), ctx.loc(s))


@rule("C17-W3", "C17", 2, "rewind: arithmetic on the caller-supplied position payload cannot overflow (checked/saturating, or bounded by a guard)")
def w3(ctx):
    for fl in FLAVOURS:
        b = arena_fn(ctx, fl, "rewind")
        ev, res = ctx.eval(b)
        POS = ("param", 1, "pos")
        sites = [a for a in res.log if a["kind"] == "arith" and (mentions(a["a"], POS) or mentions(a["b"], POS))]
        if not sites:
            yield Ob(key_of("C17-W3", b.path, "no-raw-arith"), True, "no unchecked arithmetic on the position payload", b.loc())
        for a in sites:
            o, _ = order_for(ctx, ev, a)
            ok = overflow_discharged(o, a)
            yield Ob(key_of("C17-W3", b.path, "payload-arith"), ok, "%s(%s, %s) %s" % (a["op"], short(a["a"], 60), short(a["b"], 60), "bounded" if ok else "can overflow for extreme payloads (panic / wrap-around)"), ctx.loc(a))


@rule("C17-W4", "C17", 2, "rewind has no effect other than the cursor store")
def w4(ctx):
    for fl in FLAVOURS:
        b = arena_fn(ctx, fl, "rewind")
        ev, res = ctx.eval(b)
        cs = cursor_stores(res, fl)
        other = [e for e in res.log if (is_raw_write(e) or is_atomic_write(e) or is_heap_store(e) or (e["kind"] == "store")) and e not in cs
                 and not (e["kind"] == "call" and e.get("atomic") == "store")]
        yield Ob(key_of("C17-W4", b.path, "only-cursor"), not other, "no other store / raw write / RMW in rewind (%d found)" % len(other), b.loc(),
                 {"others": [ctx.loc(e) for e in other][:4]})


@rule("C17-Cl1", "C17", 4, "clear: the read-only test is the first branch and returns Err(ReadOnly); Memory::clear is called only on the writable path, and on every "
      "writable path (C20, C10: clear resets discarded and the list whatever the cursor is - a sentinel that survives clear links segments of the old contents)", also=("C20", "C10"))
def cl1(ctx):
    for fl in FLAVOURS:
        b = arena_fn(ctx, fl, "clear")
        ev, res = ctx.eval(b, no_inline=(r"Memory::<.*>::clear$",))
        SELF = ("param", 0, "self")
        calls = [e for e in res.log if e["kind"] == "call" and re.search(r"Memory::<.*>::clear$", e["callee"])]
        ok = len(calls) == 1
        if ok:
            fs = ctx.facts_of(ev, calls[0])
            ok = ("bool", field(SELF, "ro"), False) in fs
        yield Ob(key_of("C17-Cl1", b.path, "ro-guard"), ok, "Memory::clear reached only when self.ro is false", b.loc())
        # and it is reached on every writable path: an Ok return that skips it (`if allocated == data_offset { return Ok(()) }`) leaves discarded, the free
        # list and whatever lies above a rewound cursor as they were
        oks = [e for e in res.log if e["kind"] == "ret0" and not e["chain"] and tag(e["value"]) == "variant" and e["value"][2] == "Ok"]
        okc = len(calls) == 1 and bool(oks) and all(b.dominates(calls[0]["bb"], e["bb"]) for e in oks)
        yield Ob(key_of("C17-Cl1", b.path, "ok-only-after-clear"), okc, "every Ok return of clear() lies behind the call of Memory::clear (%d Ok return(s))" % len(oks), b.loc())
        errs = [e for e in res.log if e["kind"] == "ret0" and not e["chain"] and tag(e["value"]) == "variant" and e["value"][2] == "Err"]
        ok2 = any(("bool", field(SELF, "ro"), True) in ctx.facts_of(ev, e) and tag(e["value"][3][0]) == "variant" and e["value"][3][0][2] == "ReadOnly" for e in errs)
        yield Ob(key_of("C17-Cl1", b.path, "ro-err"), ok2, "read-only arena: clear returns Err(ReadOnly)", b.loc())


@rule("C17-Cl2", "C17", 4, "Memory::clear: zeroes exactly [data_offset, cap); writes H::new(data_offset, load_min_segment_size()) at the header; "
      "data_offset = alignUp(H, reserved) + align_of H + size_of H (unified) | reserved + 1 (plain); nothing else is written")
def cl2(ctx):
    b = ctx.facts.one(r"^memory::Memory::<R, PR, H>::clear$")
    ev, res = ctx.eval(b)
    SELF = ("param", 0, "self")
    reserved = ("hload", SELF, ("reserved",), ("v", 0))
    A, S = ("align_of", "H"), ("size_of", "H")
    hoff = add(("alignUp", A, reserved), A)
    d_unify = add(hoff, S)
    d_plain = add(reserved, const(1))
    wb = [e for e in res.log if e["kind"] == "call" and e.get("effect") == "write_bytes"]
    pw = [e for e in res.log if e["kind"] == "call" and e.get("effect") == "ptr_write"]
    news = [e for e in res.log if e["kind"] == "call" and e["callee"].endswith("Header::new")]
    yield Ob(key_of("C17-Cl2", b.path, "one-zeroing"), len(wb) == 1 and wb[0]["byte"] == const(0), "exactly one write_bytes(.., 0, ..)", b.loc())
    if wb:
        e = wb[0]
        dst, cnt = e["dst"], e["count"]
        # dst = self.ptr + D ; count = cap - D with D the phi {d_unify | d_plain}
        ptr = ("hload", SELF, ("ptr",), ("v", 0))
        capv = ("hload", SELF, ("cap",), ("v", 0))
        D = sub(dst, ptr)
        ok = term_eq(add(cnt, D), capv)
        yield Ob(key_of("C17-Cl2", b.path, "zero-extent"), ok, "zeroed extent is [D, cap): dst - ptr = %s, count = %s" % (short(D, 100), short(cnt, 100)), ctx.loc(e))
        alts = [a for a, _ in phi_alternatives(ctx, ev, res, D)] if tag(D) == "phi" else [D]
        okd = set(map(repr, alts)) == set(map(repr, [d_unify, d_plain]))
        yield Ob(key_of("C17-Cl2", b.path, "data-offset-formula"), okd, "D in {alignUp(H,reserved)+align_of H+size_of H, reserved+1}: %s" % [short(a, 80) for a in alts], ctx.loc(e))
    ms = [e for e in res.log if e["kind"] == "call" and e["callee"].endswith("load_min_segment_size")]
    okn = len(news) == 2 and len(ms) == 1 and all(n["args"][1] == ms[0]["result"] for n in news)
    yield Ob(key_of("C17-Cl2", b.path, "min-seg-kept"), okn, "both H::new calls take the minimum segment size currently in force", b.loc())
    if len(news) == 2:
        # the cursor argument of each H::new is the data offset of the layout its call site belongs to (self.unify true / false), whether it is
        # computed in place or taken from a value joined earlier under the same test
        IMM = {"unify", "reserved", "ptr", "cap"}
        U = canon(("hload", SELF, ("unify",), ("v", 0)), IMM)
        okc = True
        det = []
        for n in news:
            for (val,), fs in split_on_own_phis(ctx, ev, res, n, [n["args"][0]]):
                fs = set(canon(f, IMM) for f in fs)
                if ("bool", U, True) in fs and ("bool", U, False) in fs:
                    continue   # the value joined on the other layout's edge cannot reach this call site
                want = d_unify if ("bool", U, True) in fs else (d_plain if ("bool", U, False) in fs else None)
                good = want is not None and term_eq(canon(val, IMM), canon(want, IMM))
                det.append((short(val, 60), good))
                okc = okc and good
        yield Ob(key_of("C17-Cl2", b.path, "cursor-init"), okc and len(det) >= 2, "H::new cursor argument is data_offset in both layouts: %s" % det, b.loc())
    okw = len(pw) == 1 and term_eq(sub(pw[0]["dst"], ("hload", SELF, ("ptr",), ("v", 0))), hoff) and news and pw[0]["value"] in [n["result"] for n in news]
    yield Ob(key_of("C17-Cl2", b.path, "header-write"), bool(okw), "unified layout: header written at ptr + alignUp(H,reserved)+align_of H with the new H", b.loc())
    stores = [e for e in res.log if is_heap_store(e)]
    paths = sorted(set(e["path"][0] for e in stores if e["base"] == SELF))
    yield Ob(key_of("C17-Cl2", b.path, "fields"), paths == ["data_offset", "header_ptr"] and all(e["base"] == SELF for e in stores),
             "Memory fields updated: %s (only header_ptr and data_offset)" % paths, b.loc())


@rule("C17-Cl3", "C17", 4, "Header::new(size, min): allocated = size, sentinel = (SENTINEL, SENTINEL) i.e. empty list, min_segment_size = min, discarded = 0; "
      "load_min_segment_size / load_allocated read those fields", also=("C05", "C11"))
def cl3(ctx):
    for fl in FLAVOURS:
        b = ctx.facts.one(r"^<%s::sealed::Header as sealed::Header>::new$" % fl)
        ev, res = ctx.eval(b)
        v = res.ret
        ok = tag(v) == "struct"
        det = {}
        if ok:
            size, mn = ("param", 0, "size"), ("param", 1, "min_segment_size")
            unwrap = lambda x: x[1] if tag(x) == "atomic_new" else x
            al, ms, di, se = (unwrap(struct_get(v, k)) for k in ("allocated", "min_segment_size", "discarded", "sentinel"))
            se = unwrap(struct_get(se, "size_and_next") if tag(se) == "struct" and struct_get(se, "size_and_next") is not None else (struct_get(se, "0") if tag(se) == "struct" else se))
            se = unwrap(se)
            if tag(se) == "call" and se[1].endswith("UnsafeCell::<T>::new"):
                se = se[2][0]
            det = {"allocated": show(al), "min": show(ms), "discarded": show(di), "sentinel": show(se)}
            ok = al == size and ms == mn and di == const(0) and tag(se) == "pack" and all(tag(x) == "named" and x[1].startswith("SENTINEL_SEGMENT_NODE") and x[2] == 0xFFFFFFFF for x in se[1:])
        yield Ob(key_of("C17-Cl3", b.path, "fields"), ok, "Header::new aggregate: %s" % det, b.loc())
        # the accessors Memory uses to carry state over (clear keeps the minimum segment size, reopen validates the cursor) read the field they are named after
        for acc, fld in (("load_min_segment_size", "min_segment_size"), ("load_allocated", "allocated")):
            ab = ctx.facts.find(r"^<%s::sealed::Header as sealed::Header>::%s$" % (fl, acc))
            if not ab:
                continue      # (load_allocated exists with memmap only)
            ev2, res2 = ctx.eval(ab[0])
            r_ = res2.ret
            if tag(r_) == "load":
                got = r_[2][2][-1] if tag(r_[2]) == "heap" and r_[2][2] else None
            else:
                rc = canon(r_)
                got = rc[2] if tag(rc) == "field" else (rc[2][-1] if tag(rc) == "hload" and rc[2] else None)
            yield Ob(key_of("C17-Cl3", ab[0].path, "reads-its-field"), got == fld, "%s returns the header's `%s` (reads `%s`)" % (acc, fld, got), ab[0].loc())


@rule("C17-W5", "C17", 2, "rewind: a narrowing cast of the (64-bit) target position to u32 is dominated by guards bounding it inside [0, cap] - a truncating cast would "
      "land a far-away target somewhere inside the arena instead of clamping it")
def w5(ctx):
    for fl in FLAVOURS:
        b = arena_fn(ctx, fl, "rewind")
        ev, res = ctx.eval(b)
        SELF = ("param", 0, "self")
        POS = ("param", 1, "pos")
        cap = field(SELF, "cap")
        casts = [c for c in res.log if c["kind"] == "cast" and not c["chain"] and c["ty"] == "u32" and mentions(c["value"], ("payload", POS, "Current", 0))]
        if not casts:
            yield Ob(key_of("C17-W5", b.path, "no-narrowing-cast"), True, "the Current target is never narrowed to u32 by a cast", b.loc())
        for i, c in enumerate(casts):
            order, fs = order_for(ctx, ev, c)
            v = canon(c["value"])
            ok = order.le(const(0), v) and order.le(v, cap)
            yield Ob(key_of("C17-W5", b.path, "narrowing-cast", i + 1), ok, "`%s as u32` %s" % (short(v, 70), "is bounded by dominating guards (0 <= v <= cap)" if ok else "is NOT bounded: values >= 2^32 are truncated before the clamp"), ctx.loc(c))


@rule("C17-Cl4", "C17", 6, "after clear() (and after a rewind) the handles allocated before still exist and are dropped later - the documented `good practice` of clear() "
      "does exactly that: dealloc must not count or link an extent that is not below the cursor (otherwise discarded() of a cleared arena is not 0, or the free "
      "list points above the cursor and the bump allocator and the list hand out the same bytes): every discard / insert effect of dealloc is dominated by "
      "offset + size <= cursor", also=("C01", "C10"))
def cl4(ctx):
    from order import atoms_deep
    OFFp, SZp = ("param", 1, "offset"), ("param", 2, "size")
    for fl in FLAVOURS:
        b = ctx.facts.one(r"^<%s::Arena as allocator::Allocator>::dealloc$" % fl)
        ev, res = ctx.eval(b, no_inline=(r"_dealloc$", r"increase_discarded$"))
        effs = [e for e in res.log if e["kind"] == "call" and not e["chain"] and re.search(r"(optimistic|pessimistic)_dealloc$|increase_discarded$", e["callee"])]
        for e in effs:
            fs = set(canon(f) for f in ctx.facts_of(ev, e))
            cands = set()
            for f in fs:
                if f[0] == "cmp":
                    for t in (f[2], f[3]):
                        for a in atoms_deep(t):
                            if "allocated" in show(a):
                                cands.add(a)
            o = Order(fs)
            ok = any(o.le(add(OFFp, SZp), c) for c in cands)
            role = re.search(r"(optimistic_dealloc|pessimistic_dealloc|increase_discarded)$", e["callee"]).group(1)
            yield Ob(key_of("C17-Cl4", b.path, "below-cursor:" + role), ok,
                     "%s::dealloc: %s %s" % (fl, role, "only under offset + size <= cursor" if ok else
                                             "is reached for an extent above the cursor (a handle dropped after clear() / rewind)"), ctx.loc(e))
        yield Ob(key_of("C17-Cl4", b.path, "effects"), len(effs) == 3, "%d discard / insert effect(s) in %s::dealloc" % (len(effs), fl), b.loc())
