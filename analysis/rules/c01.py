"""C01 - live allocations are exclusive, in bounds and untouched (single thread): per-operation extent lemmas."""
import re
from engine import rule, Ob, key_of, EXPLAIN, ASSUME
from sym import Lin, add, sub, const, tag, show, is_const, as_lin, implied_facts, struct_get
from util import *
from order import Order, term_eq
from proto import NOINLINE

EXPLAIN["C01"] = (
    "Decides the preservation lemmas of the disjointness invariant I (live handle extents, free-list segments and fresh space [cursor, cap) "
    "are pairwise disjoint inside [data_offset, cap), accessible range inside the owned extent), for both flavours and symbolic sizes / T: "
    "B bump: the cursor moves from the handed-out memory_offset to memory_offset + memory_size, guarded by <= cap, accessible range inside "
    "(B1 = C04-E2, B2, B3 = C03 inside-fresh); R release: the on-top arm is taken only when offset + size is the cursor and stores offset (R1), "
    "Freelist::None only accounts (R2 = C20-D3), a new segment lies inside the released extent, is 8-aligned and its data ends where the extent "
    "ends (R3), its header word is pack(data_size, next) at its own offset (R4 = C02-P2 link); P pop: Meta = (node, node+8, size) with size <= data "
    "size (P1 = C03-A0), the remainder starts where the accessible range ends and ends where the segment ended, and is split off exactly when "
    "memory_size was reduced (P2), re-alignment stays inside the popped space (P3 = C03 inside-recycled); D drop releases exactly "
    "(memory_offset, memory_size) (D1 = C13-H1) and nobody rewrites a handle's Meta (D2); U the set of functions that write into arena memory "
    "is exactly the enumerated one (U). The induction over histories (I holds initially; each API call is a finite composition of these moves) is "
    "the written argument of DESIGN Appendix A.1, not machine-checked.")
ASSUME["C01"] = ["induction schema of DESIGN A.1", "arithmetic over Z (overflow is C04-E4)", "frame: node words of listed segments are written only by list operations (U)",
                 "dealloc's safety contract (no double free, extent was handed out) for explicit dealloc calls"]

FLAVOURS = ("sync", "unsync")
SELF = ("param", 0, "self")
NOSLOW = (r"::alloc_slow_path_(optimistic|pessimistic)$", r"::alloc_bytes_in$")


def cursor_update(res, fl):
    for e in res.log:
        if e["chain"]:
            continue
        if fl == "sync" and e["kind"] == "call" and e.get("atomic") in ("compare_exchange", "compare_exchange_weak") and tag(e["target"]) == "heap" and e["target"][2] == ("allocated",):
            return e, e["expected"], e["new"]
        if fl == "unsync" and e["kind"] == "store" and e.get("how") == "store" and e["path"] == ("allocated",) and tag(e["base"]) == "call":
            return e, None, e["value"]
    return None, None, None


@rule("C01-B2", "C01", 6, "bump: the handed-out extent is exactly what the cursor moved over: memory_offset = old cursor, memory_offset + memory_size = new cursor", also=(("C02", "sync"), "C04"))
def b2(ctx):
    for fl in FLAVOURS:
        for name in ("alloc_bytes_in", "alloc_aligned_bytes_in", "alloc_in"):
            b = ctx.facts.one(r"^%s::Arena::%s$" % (fl, name))
            ev, res = ctx.eval(b, no_inline=NOSLOW)
            e, old, new = cursor_update(res, fl)
            if e is None:
                yield Ob(key_of("C01-B2", b.path, "cursor-update"), False, "no cursor update found", b.loc())
                continue
            metas = []
            for r in res.log:
                if r["kind"] == "ret0" and not r["chain"]:
                    m = unwrap_variant(r["value"], "Ok", "Some")
                    if tag(m) == "struct" and not mentions(m, ("payload",)) and "alloc_slow_path" not in show(m):
                        metas.append((r, m))
            if len(metas) != 1:
                yield Ob(key_of("C01-B2", b.path, "fresh-meta"), False, "expected one fresh Meta return, found %d" % len(metas), b.loc())
                continue
            r, m = metas[0]
            mo, ms = canon(struct_get(m, "memory_offset")), canon(struct_get(m, "memory_size"))
            if fl == "unsync":
                # old cursor = the value read from header.allocated before the store
                olds = [a for a in as_lin(canon(new)).m if tag(a) == "field" and a[2] == "allocated"] + [x for x in [canon(new)] if False]
                old_t = mo
                ok_old = tag(mo) == "field" and mo[2] == "allocated"
            else:
                old_t = old
                ok_old = mo == old
            ok_new = term_eq(add(mo, ms), canon(new))
            yield Ob(key_of("C01-B2", b.path, "extent-is-cursor-delta"), ok_old and ok_new,
                     "memory_offset = old cursor (%s), memory_offset + memory_size = new cursor (%s): %s / %s" % (short(mo, 50), short(canon(new), 70), ok_old, ok_new), ctx.loc(r))


HANDLES = (("bytes::BytesMut<A>", 0), ("bytes::BytesRefMut<'_, A>", 0), ("object::Owned<T, A>", 0), ("object::RefMut<'_, T, A>", 0))
ACCESSORS = {"offset": "ptr_offset", "capacity": "ptr_size", "buffer_offset": "memory_offset", "buffer_capacity": "memory_size"}


@rule("C01-A1", "C01", 16, "the ranges the properties speak of are the Meta's: on all four handle types offset() / capacity() are Meta.ptr_offset / ptr_size (the accessible "
      "range) and buffer_offset() / buffer_capacity() are Meta.memory_offset / memory_size (the extent the allocator handed out, which dealloc(buffer_offset, "
      "buffer_capacity) gives back)", also=("C03", "C13", ("C02", "!unsync"), "C10"))
def a1(ctx):
    for h, _ in HANDLES:
        for acc, fld in sorted(ACCESSORS.items()):
            b = ctx.facts.one("^<%s as Buffer>::%s$" % (re.escape(h), acc))
            ev, res = ctx.eval(b)
            want = field(SELF, "allocated", fld)
            yield Ob(key_of("C01-A1", b.path, "accessor"), canon(res.ret, {"allocated"}) == want, "%s() returns %s: %s" % (acc, show(want), short(res.ret, 60)), b.loc())


@rule("C01-R1", "C01", 2, "release on top: dealloc lowers the cursor to `offset` only when the cursor equals offset + size (so exactly the released extent returns to fresh space)")
def r1(ctx):
    OFF, SIZE = ("param", 1, "offset"), ("param", 2, "size")
    for fl in FLAVOURS:
        b = ctx.facts.one(r"^<%s::Arena as allocator::Allocator>::dealloc$" % fl)
        ev, res = ctx.eval(b, no_inline=(r"::(optimistic|pessimistic)_dealloc$",))
        e, old, new = cursor_update(res, fl)
        if e is None:
            yield Ob(key_of("C01-R1", b.path, "cursor-update"), False, "no cursor update in dealloc", b.loc())
            continue
        if fl == "sync":
            ok = term_eq(old, add(OFF, SIZE)) and new == OFF
        else:
            fs = set(canon(f) for f in ctx.facts_of(ev, e))
            ok = new == OFF and any(f[0] == "cmp" and f[1] == "Eq" and term_eq(f[3], add(OFF, SIZE)) and tag(f[2]) == "field" and f[2][2] == "allocated" for f in fs)
        yield Ob(key_of("C01-R1", b.path, "on-top"), ok, "cursor := offset guarded by cursor == offset + size", ctx.loc(e))
        # the on-top arm returns true without any other effect
        rets = [r for r in res.log if r["kind"] == "ret0" and not r["chain"] and r["value"] == const(1)]
        yield Ob(key_of("C01-R1", b.path, "returns-true"), len(rets) >= 1, "dealloc reports success on the on-top arm", b.loc())


@rule("C01-R3", "C01", 2, "try_new_segment(offset, size): the segment lies inside the released extent - offset <= ptr_offset = alignUp(8, offset), data_offset = ptr_offset + 8, "
      "data_offset + data_size = offset + size, data_size >= min_segment_size (C20: a release too small to become a segment is never linked)", also=(("C02", "sync"), "C04", "C10", "C20"))
def r3(ctx):
    OFF, SIZE = ("param", 1, "offset"), ("param", 2, "size")
    for fl in FLAVOURS:
        b = ctx.facts.one(r"^%s::Arena::try_new_segment$" % fl)
        ev, res = ctx.eval(b)
        somes = [r for r in res.log if r["kind"] == "ret0" and not r["chain"] and tag(r["value"]) == "variant" and r["value"][2] == "Some"]
        if len(somes) != 1:
            yield Ob(key_of("C01-R3", b.path, "some-return"), False, "expected one Some return", b.loc())
            continue
        seg = somes[0]["value"][3][0]
        po, do, ds = struct_get(seg, "ptr_offset"), struct_get(seg, "data_offset"), struct_get(seg, "data_size")
        order, fs = order_for(ctx, ev, somes[0])
        ok = po == ("alignUp", const(8), OFF) and term_eq(do, add(po, const(8))) and term_eq(add(do, ds), add(OFF, SIZE)) and order.le(OFF, po)
        yield Ob(key_of("C01-R3", b.path, "segment-extent"), ok, "Segment{ptr_offset: %s, data_offset: %s, data_size: %s}" % (short(po, 40), short(do, 40), short(ds, 60)), ctx.loc(somes[0]))
        ok_pos = order.le(const(1), ds)
        yield Ob(key_of("C01-R3", b.path, "data-size-positive"), ok_pos, "data_size >= 1 on the accept path (node + padding < size)", ctx.loc(somes[0]))
        msz = [f for f in fs if f[0] == "cmp" and f[1] == "Ge" and "min_segment_size" in show(f[3]) and term_eq(canon(f[2]), canon(ds))]
        yield Ob(key_of("C01-R3", b.path, "min-segment-size"), bool(msz), "accept path guarded by data_size >= min_segment_size", ctx.loc(somes[0]))


@rule("C01-R4u", "C01", 2, "unsync insertion: the new node's own word is pack(data_size, next) stored at its own offset before the predecessor's word is redirected to it "
      "(sync: C02-P2/P3)", also=("C10",))
def r4u(ctx):
    for name in ("optimistic_dealloc", "pessimistic_dealloc"):
        b = ctx.facts.one(r"^unsync::Arena::%s$" % name)
        ev, res = ctx.eval(b, no_inline=NOINLINE)
        st = [e for e in res.log if e["kind"] == "store" and e.get("how") == "store" and tag(e["base"]) != "param" and e["path"] not in (("discarded",),)]
        ok = len(st) == 2
        if ok:
            own, link = st
            seg_off = None
            ok = tag(own["value"]) == "pack" and tag(link["value"]) == "pack" and own["seq"] < link["seq"]
            if ok:
                nxt = own["value"][2]
                new_next = link["value"][2]
                # link word = pack(hi(pred word), own offset); own header next = lo(pred word); own header stored at ptr + own offset
                ok = tag(nxt) == "lo" and link["value"][1] == ("hi", nxt[1]) and mentions(own["base"], new_next)
        yield Ob(key_of("C01-R4u", b.path, "header-then-link"), ok, "own word = pack(data_size, lo(pred)), stored at ptr + own offset, then pred := pack(hi(pred), own offset)", b.loc())


@rule("C01-P2", "C01", 4, "pop remainder: the part given back starts at the end of the accessible range (node + 8 + size), ends where the segment ended (node + 8 + data size), "
      "and it is split off exactly on the path where memory_size was reduced to `size`", also=("C10",))
def p2(ctx):
    SIZE = ("param", 1, "size")
    for fl in FLAVOURS:
        for name in ("alloc_slow_path_optimistic", "alloc_slow_path_pessimistic"):
            b = ctx.facts.one(r"^%s::Arena::%s$" % (fl, name))
            ev, res = ctx.eval(b, no_inline=(r"::(optimistic|pessimistic)_dealloc$", r"::validate_segment$", r"::remaining$"))
            back = [e for e in res.log if e["kind"] == "call" and not e["chain"] and re.search(r"::(optimistic|pessimistic)_dealloc$", e["callee"])]
            val = [e for e in res.log if e["kind"] == "call" and not e["chain"] and e["callee"].endswith("validate_segment")]
            metas = [(r, r["value"][3][0]) for r in res.log if r["kind"] == "ret0" and not r["chain"] and tag(r["value"]) == "variant" and r["value"][2] == "Ok"]
            if len(back) != 1 or len(val) != 1 or len(metas) != 1:
                yield Ob(key_of("C01-P2", b.path, "anchors"), False, "expected one give-back call, one validate_segment, one Ok return (%d, %d, %d)" % (len(back), len(val), len(metas)), b.loc())
                continue
            r, m = metas[0]
            mo, po = canon(struct_get(m, "memory_offset")), canon(struct_get(m, "ptr_offset"))
            off, rem = canon(back[0]["args"][1]), canon(back[0]["args"][2])
            alts = phi_alternatives(ctx, ev, res, struct_get(m, "memory_size"))
            his = [canon(a) for a, _ in alts if tag(canon(a)) == "hi"]
            ok = term_eq(off, add(po, SIZE)) and bool(his) and term_eq(add(off, rem), add(add(mo, const(8)), his[0]))
            yield Ob(key_of("C01-P2", b.path, "remainder-extent"), ok, "give back (%s, %s): starts at ptr_offset + size, ends at node + 8 + data size" % (short(off, 60), short(rem, 60)), ctx.loc(back[0]))
            same = val[0]["args"][1:] == back[0]["args"][1:]
            fs = ctx.facts_of(ev, back[0])
            guarded = ("bool", val[0]["result"], True) in fs
            yield Ob(key_of("C01-P2", b.path, "validated"), same and guarded, "the remainder is inserted only when validate_segment accepted the same (offset, size)", ctx.loc(back[0]))
            # memory_size alternatives: `size` exactly on the split path, data size otherwise
            good = len(alts) == 2
            for a, gs in alts:
                fa = implied_facts(gs or [])
                split = ("bool", val[0]["result"], True) in fa
                a = canon(a)
                good = good and ((a == SIZE and split) or (tag(a) == "hi" and ("bool", val[0]["result"], False) in fa))
            yield Ob(key_of("C01-P2", b.path, "owned-end"), good, "memory_size = size iff the tail was split off (else the whole data size): owned extent ends where the remainder begins", ctx.loc(r))


@rule("C01-D2", "C01", 8, "nobody rewrites a handle's Meta: the four Meta fields are assigned only in Meta::{new, null, align_to, align_bytes_to} and the pop bodies; "
      "the `allocated` field of a handle is set only by constructor aggregates")
def d2(ctx):
    allowed = re.compile(r"^(Meta::(new|null|align_to|align_bytes_to)|(sync|unsync)::Arena::alloc_slow_path_(optimistic|pessimistic))$")
    n = 0
    for b in ctx.facts.own:
        for bi in sorted(b.reachable):
            for si, st in enumerate(b.blocks[bi]["stmts"]):
                pl = st["place"]
                fs = [p for p in pl["proj"] if isinstance(p, dict) and "f" in p]
                if fs and fs[-1].get("adt") == "Meta" and fs[-1]["f"] in ("memory_offset", "memory_size", "ptr_offset", "ptr_size"):
                    n += 1
                    # a store through a handle (self.allocated.x = ..) is never allowed; a store to a local Meta is allowed in the listed bodies
                    through_handle = any(isinstance(p, dict) and p.get("f") == "allocated" for p in pl["proj"])
                    ok = bool(allowed.match(b.path)) and not through_handle
                    yield Ob(key_of("C01-D2", b.path, "meta-field-store"), ok, "Meta.%s assigned in %s%s" % (fs[-1]["f"], b.path, " THROUGH A HANDLE" if through_handle else ""), b.loc(bi, si))
                if fs and fs[-1]["f"] == "allocated" and fs[-1].get("adt") in ("bytes::BytesMut", "bytes::BytesRefMut", "object::Owned", "object::RefMut") and len(fs) >= 1 and pl["proj"] and pl["proj"][-1] == fs[-1]:
                    yield Ob(key_of("C01-D2", b.path, "handle-meta-store"), False, "handle.allocated reassigned in %s" % b.path, b.loc(bi, si))
        for bi in sorted(b.reachable):
            for si, st in enumerate(b.blocks[bi]["stmts"]):
                rv = st["rv"]
                if rv["k"] == "agg" and isinstance(rv["kind"], dict) and rv["kind"].get("adt") == "Meta":
                    # (the pop bodies may write the fields of the Meta they hand out one by one or all at once)
                    ok = b.path in ("Meta::new", "Meta::null") or bool(re.match(r"^(sync|unsync)::Arena::alloc_slow_path_(optimistic|pessimistic)$", b.path))
                    yield Ob(key_of("C01-D2", b.path, "meta-aggregate"), ok, "Meta aggregate built in %s" % b.path, b.loc(bi, si))


# functions that may write into the arena's backing memory, with the reason why that write is covered by a lemma
WRITERS = {
    r"^Meta::clear$": "zeroes (ptr_offset, ptr_size) of a Meta just taken (C08-Z1/Z2)",
    r"^memory::Memory::<R, PR, H>::(alloc|clear|truncate)$": "constructor / clear / truncate (C16, C17, C18)",
    r"^memory::Memory::<R, PR, H>::(map_anon|map_mut_in)::\{closure#0\}$": "constructors (C09, C16)",
    r"^memory::Memory::<R, PR, H>::truncate::\{closure#0\}$": "anonymous-map truncate copy (C18-T3)",
    r"^write_sanity$": "identification block, constructors only (C09-Op4, C16-L9)",
    r"^(sync|unsync)::Segment::update_next_node$": "own header of a segment being inserted (R4)",
    r"^sync::Arena::(alloc_bytes_in|alloc_aligned_bytes_in|alloc_in)$": "cursor CAS (B)",
    r"^sync::Arena::(alloc_slow_path_optimistic|alloc_slow_path_pessimistic|discard_freelist_in)$": "mark / unlink CAS, restoring store (P, C02)",
    r"^sync::Arena::(optimistic_dealloc|pessimistic_dealloc)$": "link CAS (R4)",
    r"^<sync::Arena as allocator::Allocator>::(dealloc|rewind|increase_discarded|set_minimum_segment_size)$": "cursor / counters (R1, C17, C20)",
    r"^unsync::Arena::(alloc_bytes_in|alloc_aligned_bytes_in|alloc_in|alloc_slow_path_optimistic|alloc_slow_path_pessimistic|discard_freelist_in|optimistic_dealloc|pessimistic_dealloc)$": "plain-store twins of the sync writers",
    r"^<unsync::Arena as allocator::Allocator>::(dealloc|rewind|increase_discarded|set_minimum_segment_size)$": "cursor / counters",
    r"^bytes::(BytesMut|BytesRefMut)::<.*>::(put_\w+_unchecked|put_slice_unchecked|put_u8_unchecked|set_len|put|put_aligned)$": "handle writers, bounded by C14",
    r"^object::(Owned|RefMut)::<.*>::write$": "typed handle write into its own slot (C03-A2p: pointer = raw + ptr_offset)",
    r"^<(sync|unsync)::Arena as allocator::Allocator>::alloc$": "initialises the MaybeUninit slot of the value it is about to hand out",
    r"^<(sync|unsync)::sealed::Header as sealed::Header>::new$": "builds a header value (no memory write by itself)",
    r"^<(sync|unsync)::Arena as (std|core)::clone::Clone>::clone$|^<(sync|unsync)::Arena as (std|core)::ops::Drop>::drop$": "reference count (not arena memory)",
    r"^<(std|core)::cell::UnsafeCell<usize> as sealed::RefCounter>::(fetch_add|fetch_sub)$": "unsync reference count (not arena memory)",
    r"^<(std|core)::sync::atomic::Atomic<usize> as sealed::RefCounter>::(fetch_add|fetch_sub)$": "sync reference count (not arena memory)",
    r"^common::UnsafeCellExt::as_inner_ref_mut$|^unsync::SegmentNode::as_inner_mut$": "accessor handing out the mutable reference; its callers are the writers and are listed here",
    r"^memory::Memory::<R, PR, H>::(set_remove_on_drop|unmount)$": "remove-on-drop flag / teardown (not arena memory)",
    r"^<(sync|unsync)::Arena as allocator::Allocator>::remove_on_drop$": "remove-on-drop flag (not arena memory)",
}


@rule("C01-U", "C01", 30, "untouched: the set of functions containing a raw write (write_bytes / copy / ptr::write / copy_from_slice), an atomic store / RMW / CAS, or a store through "
      "an UnsafeCell accessor is exactly the enumerated writer set - every one of them is covered by a lemma; a new writer is an alarm")
def u(ctx):
    pats = [(re.compile(k), v) for k, v in WRITERS.items()]
    for b in ctx.facts.own:
        kinds = set()
        for bi, t in b.calls():
            c = t.get("resolved") or t.get("callee") or ""
            if re.search(r"(ptr::write_bytes|intrinsics::write_bytes|ptr::copy_nonoverlapping|ptr::copy$|ptr::write$|mut_ptr::<impl \*mut T>::write(_bytes|_unaligned|_volatile)?$|slice::<impl \[T\]>::copy_from_slice$|ptr::swap|mem::swap|mem::replace$)", c):
                kinds.add(c.split("::")[-1])
            if re.search(r"atomic::Atomic(::<\w+>)?::(store|swap|compare_exchange|compare_exchange_weak|fetch_\w+)$", c):
                kinds.add("atomic-" + c.split("::")[-1])
            if re.search(r"as_inner_ref_mut$|as_inner_mut$", c):
                kinds.add("cell-mut")
        # plain stores through a raw deref of a header / node obtained from header_mut()
        if any((t.get("callee") or "").endswith("::header_mut") for _, t in b.calls()):
            for bi in sorted(b.reachable):
                for st in b.blocks[bi]["stmts"]:
                    pl = st["place"]
                    if pl["proj"] and pl["proj"][0] == "deref" and any(isinstance(p, dict) and p.get("adt", "").endswith("sealed::Header") for p in pl["proj"]):
                        kinds.add("header-store")
        if not kinds or "fmt" in b.path:
            continue
        hit = [v for p, v in pats if p.search(b.path)]
        if not hit and b.kind == "Closure" and b.parent_fn:
            # a closure inside an enumerated writer is part of that function: the lemma that covers the function reads it with its closures evaluated in place
            hit = ["closure of %s: %s" % (b.parent_fn, v) for p, v in pats if p.search(b.parent_fn)]
        yield Ob(key_of("C01-U", b.path, "writer"), bool(hit), "%s writes memory (%s): %s" % (b.path, ", ".join(sorted(kinds)), hit[0] if hit else "NOT in the enumerated writer set - which lemma covers it?"), b.loc())
