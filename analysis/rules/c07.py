"""C07 - every operation on a shared arena finishes, whatever the other threads do."""
import re
from engine import rule, Ob, key_of, EXPLAIN, ASSUME
from sym import Lin, add, sub, const, tag, show, is_const, as_lin, implied_facts, struct_get
from util import *
from proto import *

EXPLAIN["C07"] = (
    "Decides structural necessary conditions of termination on every sync.rs list operation. T1 (mark/unlink pairing): "
    "from the success edge of a mark CAS (size := REMOVED on a still-linked node) every path reaches the success edge of the "
    "unlink CAS for that node, or a store restoring the node's word, before any back edge or return - otherwise the node stays "
    "marked and linked for ever and every traversal waits on it. T3 (progress tokens): every cycle of every loop passes a "
    "failed-CAS edge, a wait-on-marker edge, a change of a loop-carried variable (traversal advance / retry counter) or a "
    "store; a cycle with none would spin without any other thread being able to release it. T4: the retry loops of the three "
    "allocation bodies are bounded by the retry counter. T5: the in-band marker is unambiguous - a linked node word carries the REMOVED size (0) only "
    "through a mark CAS (published sizes are >= 1, the own word packs that size, the link CAS keeps a size compared != REMOVED), otherwise the "
    "wait-on-marker cycles accepted by T3 wait for nobody. Not decided: termination under fairness in general, nor that a "
    "waited-for marker is eventually released (that is exactly what T1 is necessary for).")
ASSUME["C07"] = ["a failed CAS means another thread made progress (lock-freedom argument)", "the list is finite and acyclic (C10, DESIGN A.2)",
                 "wait-on-marker cycles are justified only if every marker completes or undoes its mark (T1)"]

MARKING = ("alloc_slow_path_optimistic", "alloc_slow_path_pessimistic", "discard_freelist_in")


@rule("C07-T1", "C07", 3, "mark/unlink pairing: after a successful mark CAS every path reaches the unlink CAS's success edge or a store restoring the "
      "node's word before looping back or returning (a lost unlink CAS must not leave the node marked and linked)", also=("C06",))
def t1(ctx):
    for name in MARKING:
        b, ev, res = sync_eval(ctx, name)
        marks = [e for e in cas_entries(res) if classify_cas(res, e) == "mark"]
        unl = [e for e in cas_entries(res) if classify_cas(res, e) == "unlink"]
        if len(marks) != 1:
            yield Ob(key_of("C07-T1", b.path, "mark-cas"), False, "expected one mark CAS, found %d" % len(marks), b.loc())
            continue
        m = marks[0]
        ok_edges, _ = success_edges(b, res, m)
        if not ok_edges:
            yield Ob(key_of("C07-T1", b.path, "mark-success-edge"), False, "cannot find the success edge of the mark CAS", ctx.loc(m))
            continue
        # resolved points: success edges of the unlink CAS (same node: new next = lo(mark.expected)), restoring stores
        resolved_edges = set()
        for u in unl:
            if u["new"][2] == ("lo", m["expected"]):
                oke, _ = success_edges(b, res, u)
                resolved_edges |= set(oke)
        restore_blocks = set()
        for e in res.log:
            if e["chain"]:
                continue
            if e["kind"] == "call" and e.get("atomic") in ("store", "compare_exchange", "compare_exchange_weak", "swap") and e.get("target") == m["target"]:
                nv = e.get("new")
                if nv == m["expected"] and e["seq"] > m["seq"]:
                    restore_blocks.add(e["bb"])
        back = set(b.back_edges())
        rets = set(b.returns())
        # explore from the mark's success edge
        bad = None
        seen = set()
        stack = [(y, [x, y]) for x, y in ok_edges]
        while stack and bad is None:
            cur, path = stack.pop()
            if cur in seen:
                continue
            seen.add(cur)
            if cur in restore_blocks:
                continue
            if cur in rets:
                bad = ("return", path)
                break
            for nx in b.succ[cur]:
                if (cur, nx) in resolved_edges:
                    continue
                if (cur, nx) in back:
                    bad = ("back-edge", path + [nx])
                    break
                stack.append((nx, path + [nx]))
        if bad:
            kind, path = bad
            # name the last branch on the path
            last_sw = [x for x in path if b.blocks[x]["term"]["k"] == "switch"]
            where = b.loc(last_sw[-1]) if last_sw else ctx.loc(m)
            yield Ob(key_of("C07-T1", b.path, "unlink-failure-leaves-mark"), False,
                     "after the mark CAS succeeded (%s) a path reaches a %s without unlinking or restoring the node: blocks %s - the Err arm of the "
                     "unlink CAS restarts the loop, the node stays REMOVED and linked, and every traversal then waits on it for ever" % (ctx.loc(m), kind, path[-6:]), where)
        else:
            yield Ob(key_of("C07-T1", b.path, "unlink-failure-leaves-mark"), True, "every path from the mark's success edge unlinks or restores the node", ctx.loc(m))


def loop_report(ctx, b, ev, res):
    """for every back edge: does every path from the loop header to it carry a progress token?"""
    out = []
    backs = b.back_edges()
    headers = sorted(set(v for _, v in backs))
    for h in headers:
        latches = [u for u, v in backs if v == h]
        body = set()
        for u in latches:
            body |= b.natural_loop((u, h))
        body &= set(b.reachable)      # blocks that inlining / jump threading left without predecessors are not part of any cycle
        # loop-carried locals: those that are phi at the header
        env_h = res.env_in.get(h, {})
        carried = set()
        for l, v in env_h.items():
            if tag(v) == "phi" and str(v[1][-1]).endswith("@%d" % h) and v[2] == l:
                carried.add(l)
        heap_carried = False
        # tokens
        edge_tok = {}
        blk_tok = {}
        stale_waits = []
        for x in body:
            t = b.blocks[x]["term"]
            c = res.conds.get(x)
            if t["k"] == "switch" and c is not None:
                # failed CAS
                failv = None
                if tag(c) == "discr" and tag(c[1]) == "cas":
                    failv = 1
                elif tag(c) == "is" and tag(c[2]) == "cas":
                    failv = 1 if c[1] == "is_err" else 0
                arm_vals = {int(v): bb for v, bb in t["arms"]}
                if failv is not None:
                    tgt = arm_vals.get(failv, t["otherwise"])
                    edge_tok.setdefault((x, tgt), set()).add("failed-cas")
                # wait on marker: comparison with REMOVED, true edge
                def wait_edge(x, tgt, c):
                    # waiting is progress only if the cycle re-reads what the marker's completion changes: a marker completes by unlinking the node
                    # from its predecessor (the node's own word then stays REMOVED for as long as its memory is allocated) or undoes the mark.  A
                    # cycle that keeps the loop-carried link it followed (the predecessor word / next offset) and re-reads only the marked node's word
                    # waits for ever once the unlink succeeded and the new owner keeps the memory.
                    hp = set()
                    term_contains(c, lambda t_: hp.add(t_) or False if (tag(t_) == "phi" and str(t_[1][-1]).endswith("@%d" % h) and len(t_[1]) == 1 and isinstance(t_[2], int)) else False)
                    stale = False
                    if hp:
                        inside = b.reach(tgt, removed=frozenset(backs), stop=frozenset()) & body
                        for u in latches:
                            if u in inside or u == tgt:
                                envu = res.env_out.get(u, {})
                                if all(envu.get(p_[2]) == p_ for p_ in hp):
                                    stale = True
                        if not stale:
                            # the latch may be shared with paths that do update the link (`continue` from several places): what counts is whether THIS
                            # wait can get back to the loop head without passing an assignment of the loop-carried values its test was computed from
                            assigned = set()
                            for y in body:
                                blk = b.blocks[y]
                                if any(st["place"]["l"] in set(p_[2] for p_ in hp) and not st["place"]["proj"] for st in blk["stmts"]):
                                    assigned.add(y)
                                tt = blk["term"]
                                if tt["k"] == "call" and not tt["dest"]["proj"] and tt["dest"]["l"] in set(p_[2] for p_ in hp):
                                    assigned.add(y)
                            if tgt not in assigned:
                                around = b.reach(tgt, removed=frozenset(backs), stop=frozenset(assigned)) & body
                                if any(u in around or u == tgt for u in latches):
                                    stale = True
                    if stale:
                        stale_waits.append((x, tgt))
                    else:
                        edge_tok.setdefault((x, tgt), set()).add("wait-on-marker")

                if tag(c) == "cmp" and c[1] in ("Eq", "Ne") and (is_removed(c[2]) or is_removed(c[3])):
                    truev = 1 if c[1] == "Eq" else 0
                    tgt = arm_vals.get(truev, t["otherwise"]) if truev in arm_vals or truev == 1 else t["otherwise"]
                    if truev == 1 and 1 not in arm_vals:
                        tgt = t["otherwise"]
                    wait_edge(x, tgt, c)
                elif tag(c) != "cmp" and failv is None:
                    # the same test written as a pattern: `match (size, next) { (_, REMOVED) => { wait; continue } .. }` - an arm whose edge says `half == REMOVED`
                    own = set(ev.guards(res, x, b))
                    for tgt in sorted(set([bb_ for _, bb_ in t["arms"]] + [t["otherwise"]])):
                        eg = [g for g in ev.guards_edge(res, x, tgt, b) if g not in own]
                        rem = [f for f in implied_facts(eg) if f[0] == "cmp" and f[1] == "Eq" and (is_removed(f[2]) or is_removed(f[3]))]
                        if rem:
                            wait_edge(x, tgt, rem[0])
            # state change of a loop-carried local / a store / a successful list update
            for si, st in enumerate(b.blocks[x]["stmts"]):
                pl = st["place"]
                if pl["l"] in carried and not pl["proj"]:
                    blk_tok.setdefault(x, set()).add("carried-var-update")
            if t["k"] == "call" and t["dest"]["l"] in carried and not t["dest"]["proj"]:
                blk_tok.setdefault(x, set()).add("carried-var-update")
        for e in res.log:
            if e["chain"]:
                top = e["chain"][0][1]
            else:
                top = e["bb"]
            if top in body and (is_heap_store(e) or (e["kind"] == "call" and e.get("atomic") in ("store", "fetch_add"))) and not (is_heap_store(e) and tag(e["base"]) == "param"):
                blk_tok.setdefault(top, set()).add("store")
        # must-dataflow: has[b] = token at b or all in-loop forward preds have it (incl. edge tokens)
        order = [x for x in b.rpo() if x in body]
        has = {x: False for x in body}
        changed = True
        has[h] = bool(blk_tok.get(h))
        for _ in range(len(order) + 2):
            changed = False
            for x in order:
                if x == h:
                    continue
                preds = [p for p in b.pred[x] if p in body and (p, x) not in backs]
                if not preds:
                    continue
                val = bool(blk_tok.get(x)) or all(has[p] or bool(edge_tok.get((p, x))) for p in preds)
                if val != has[x]:
                    has[x] = val
                    changed = True
            if not changed:
                break
        for u in latches:
            toks = set()
            for x in body:
                toks |= blk_tok.get(x, set())
            for (x, y), tk in edge_tok.items():
                toks |= tk
            ok = has[u] or bool(edge_tok.get((u, h)))
            if stale_waits:
                toks = set(toks) | {"STALE-WAIT at %s" % ", ".join(sorted(set(b.loc(x_) for x_, _ in stale_waits)))}
            out.append((h, u, ok, sorted(toks)))
    return out


LOOP_BODIES = ("alloc_bytes_in", "alloc_aligned_bytes_in", "alloc_in", "alloc_slow_path_optimistic", "alloc_slow_path_pessimistic",
               "discard_freelist_in", "optimistic_dealloc", "pessimistic_dealloc", "find_position", "find_prev_and_next")

# cycles that carry no token by construction, each by exact key with the reason
CONTRACT_ONLY = {
    "C07-T3:sync::Arena::optimistic_dealloc:loop": "the `found ourselves` guard (segment already linked) is reachable only after a double free, which violates dealloc's safety contract; every other cycle has a token",
    "C07-T3:sync::Arena::pessimistic_dealloc:loop": "same `found ourselves` guard as optimistic_dealloc (contract violation only)",
}


@rule("C07-T3", "C07", 13, "every loop cycle of the list operations passes a progress token: a failed-CAS edge, a wait-on-marker edge (compared REMOVED), an update of a "
      "loop-carried variable (traversal advance, retry counter) or a store")
def t3(ctx):
    for name in LOOP_BODIES:
        b, ev, res = sync_eval(ctx, name)
        rep = loop_report(ctx, b, ev, res)
        if not rep:
            yield Ob(key_of("C07-T3", b.path, "no-loop"), False, "expected at least one loop in %s" % name, b.loc())
        n = 0
        for h, u, ok, toks in rep:
            n += 1
            key = key_of("C07-T3", b.path, "loop")
            if not ok and key in CONTRACT_ONLY:
                # a token-free cycle is tolerated only if it goes through the contract-only guard: the cycle must contain a
                # comparison of the node being inserted with the found successor
                conds = [res.conds[x] for x in b.natural_loop((u, h)) if x in res.conds]
                guard = [c for c in conds if tag(c) == "cmp" and c[1] == "Eq" and any("try_new_segment" in show(x) for x in (c[2], c[3])) and any(tag(x) == "lo" for x in (c[2], c[3]))]
                yield Ob(key + ":%d" % n, bool(guard), "loop head bb%d: token-free cycle only through the contract-only `found ourselves` guard (%s)" % (h, CONTRACT_ONLY[key][:60]), b.loc(h),
                         {"tokens": toks})
                continue
            yield Ob(key + ":%d" % n, ok, "loop head bb%d, latch bb%d: %s (tokens in loop: %s)" % (h, u, "every path to the back edge carries a progress token" if ok else "a path reaches the back edge WITHOUT any progress token", toks),
                     b.loc(h), {"tokens": toks})


@rule("C07-T3u", "C07", 4, "unsync loops: every cycle changes a loop-carried variable or stores (single thread: no waiting)")
def t3u(ctx):
    for name in ("find_position", "find_prev_and_next", "optimistic_dealloc", "discard_freelist_in"):
        b = ctx.facts.one(r"^unsync::Arena::%s$" % name)
        ev, res = ctx.eval(b, no_inline=NOINLINE)
        rep = loop_report(ctx, b, ev, res)
        if not rep:
            yield Ob(key_of("C07-T3u", b.path, "no-loop"), False, "expected a loop", b.loc())
        n = 0
        for h, u, ok, toks in rep:
            n += 1
            key = key_of("C07-T3u", b.path, "loop")
            if not ok and name == "optimistic_dealloc":
                conds = [res.conds[x] for x in b.natural_loop((u, h)) if x in res.conds]
                guard = [c for c in conds if tag(c) == "cmp" and c[1] in ("Eq", "Ne") and any("try_new_segment" in show(x) for x in (c[2], c[3]))]
                yield Ob(key + ":%d" % n, bool(guard), "token-free cycle only through the contract-only `found ourselves` guard", b.loc(h))
                continue
            yield Ob(key + ":%d" % n, ok, "loop head bb%d: %s (tokens: %s)" % (h, "progress token on every path" if ok else "NO progress token on some path", toks), b.loc(h))


@rule("C07-T4", "C07", 3, "bounded retry: in the three allocation bodies the slow-path retry loop increments a counter on every cycle and exits when it reaches the bound computed from max_retries")
def t4(ctx):
    SELF = ("param", 0, "self")
    for name in ("alloc_bytes_in", "alloc_aligned_bytes_in", "alloc_in"):
        b, ev, res = sync_eval(ctx, name)
        backs = b.back_edges()
        found = False
        for u, h in backs:
            env_h = res.env_in.get(h, {})
            env_u = res.env_out.get(u, {})
            for l, v in env_h.items():
                if tag(v) == "phi" and v[2] == l and str(v[1][-1]).endswith("@%d" % h):
                    nv = env_u.get(l)
                    if nv is not None and term_eq(nv, add(v, const(1))):
                        # exit test on the same counter
                        body = b.natural_loop((u, h))
                        # counter == bound, counter >= bound (or the mirrored spellings), the bound being a function of max_retries only
                        exits = [c for x, c in res.conds.items() if x in body and tag(c) == "cmp" and mentions(c, field(SELF, "max_retries")) and
                                 ((c[1] in ("Eq", "Ge", "Gt") and c[2] == v and not mentions(c[3], v)) or (c[1] in ("Eq", "Le", "Lt") and c[3] == v and not mentions(c[2], v)))]
                        # the exit edge leaves the loop
                        if exits:
                            found = True
        yield Ob(key_of("C07-T4", b.path, "bounded-retry"), found, "retry counter += 1 on the back edge and the loop exits when the counter reaches a bound computed from max_retries", b.loc())


@rule("C07-T5", "C07", 6, "the in-band marker is unambiguous: the size half REMOVED (0) of a linked node word is produced only by a mark CAS - every node published by "
      "try_new_segment has data_size >= 1, the own-header store packs exactly that data_size, and the link CAS keeps the predecessor's size which was compared != REMOVED "
      "(otherwise every traversal waits for ever on a node nobody is unlinking)")
def t5(ctx):
    from order import Order
    b = ctx.facts.one(r"^sync::Arena::try_new_segment$")
    ev, res = ctx.eval(b)
    somes = [r for r in res.log if r["kind"] == "ret0" and not r["chain"] and tag(r["value"]) == "variant" and r["value"][2] == "Some"]
    if len(somes) != 1:
        yield Ob(key_of("C07-T5", b.path, "some-return"), False, "expected one Some return", b.loc())
    else:
        ds = struct_get(somes[0]["value"][3][0], "data_size")
        order, fs = order_for(ctx, ev, somes[0])
        yield Ob(key_of("C07-T5", b.path, "published-size-not-marker"), order.le(const(1), ds), "data_size = %s >= 1 on the accept path (REMOVED = 0 is never a real size)" % short(ds, 60), ctx.loc(somes[0]))
    for name in ("optimistic_dealloc", "pessimistic_dealloc"):
        b, ev, res = sync_eval(ctx, name)
        seg = [e for e in res.log if e["kind"] == "call" and not e["chain"] and e["callee"].endswith("::try_new_segment")]
        stores = [e for e in res.log if e["kind"] == "call" and e.get("atomic") == "store" and tag(e.get("new")) == "pack"]
        ok = len(seg) == 1 and len(stores) == 1
        if ok:
            want = ("field", ("payload", seg[0]["result"], "Some", 0), "data_size")
            got = canon(stores[0]["new"][1])
            ok = got == want or show(got) == show(want)
        yield Ob(key_of("C07-T5", b.path, "own-word-size"), ok, "own header = pack(segment.data_size, ..): %s" % (short(stores[0]["new"], 90) if stores else "no store"), ctx.loc(stores[0]) if stores else b.loc())
        links = [e for e in cas_entries(res) if classify_cas(res, e) == "link"]
        okl = len(links) == 1
        if okl:
            e = links[0]
            fs = ctx.facts_of(ev, e)
            hi = ("hi", e["expected"])
            okl = e["new"][1] == hi and any(f[0] == "cmp" and f[1] == "Ne" and ((f[2] == hi and is_removed(f[3])) or (f[3] == hi and is_removed(f[2]))) for f in fs)
        yield Ob(key_of("C07-T5", b.path, "link-keeps-unmarked-size"), okl, "link CAS writes pack(hi(expected), new node) under hi(expected) != REMOVED", ctx.loc(links[0]) if links else b.loc())
    # the marker value itself
    vals = set()
    for name in MARKING:
        b, ev, res = sync_eval(ctx, name)
        for e in cas_entries(res):
            if classify_cas(res, e) == "mark":
                vals.add(e["new"][1])
    okv = len(vals) == 1 and all(len(v) > 2 and v[2] == 0 for v in vals)
    yield Ob(key_of("C07-T5", "sync", "marker-is-zero"), okv, "REMOVED_SEGMENT_NODE = 0 in every mark CAS (so data_size >= 1 keeps real sizes apart from the marker)", None)


@rule("C07-T6", "C07", 3, "a pop unlinks its victim from a word that is known to be in the list: the sentinel, or a predecessor whose membership is protected (version bits "
      "in the words, a reclamation scheme, or a re-read of the link that led to the predecessor after the mark). A predecessor reached through a link read earlier can "
      "have been popped and be on its way back in (own word stored, valid looking, not yet linked): the unlink CAS on its word succeeds, the victim is handed out "
      "while its real predecessor still links it, and every later traversal waits on that removed node for ever")
def t6(ctx):
    sn = ctx.facts.adts.get("sync::SegmentNode")
    one_word = sn is not None and re.search(r"Atomic<u64>$", sn["variants"][0]["fields"][0]["ty"]) is not None
    smr = any(re.search(r"crossbeam_epoch|epoch::pin|hazard|haphazard|seize::", (t.get("resolved") or t.get("callee") or "")) for b in ctx.facts.own for _, t in b.calls())
    for name in MARKING:
        b, ev, res = sync_eval(ctx, name)
        marks = [e for e in cas_entries(res) if classify_cas(res, e) == "mark"]
        unl = [e for e in cas_entries(res) if classify_cas(res, e) == "unlink"]
        if len(marks) != 1 or len(unl) != 1:
            yield Ob(key_of("C07-T6", b.path, "anchors"), False, "expected one mark and one unlink CAS", b.loc())
            continue
        m, u = marks[0], unl[0]
        from_sentinel = re.search(r"\.sentinel\]?$", show(u["target"])) is not None and "find_prev" not in show(u["target"])
        tagged = not (tag(m["new"]) == "pack" and tag(u["new"]) == "pack" and one_word)
        # a re-read, after the mark, of some word other than the victim's and the predecessor's own (the link that led to the predecessor)
        reval = [e for e in res.log if e["kind"] == "call" and e.get("atomic") == "load" and not e["chain"] and m["seq"] < e["seq"] < u["seq"]
                 and e.get("target") not in (u["target"], m["target"])]
        ok = from_sentinel or tagged or smr or bool(reval)
        yield Ob(key_of("C07-T6", b.path, "unlink-from-a-word-known-to-be-linked"), ok,
                 "%s: the victim is unlinked from %s" % (name, "the sentinel" if from_sentinel else
                                                         "the predecessor returned by the traversal (%s): no version bits, no reclamation scheme, the link to the predecessor is not read again after the mark" % short(u["target"], 70)),
                 ctx.loc(u))
