"""C02 - live allocations stay exclusive and intact under every thread interleaving (CAS protocol clauses)."""
import re
from engine import rule, Ob, key_of, EXPLAIN, ASSUME
from sym import Lin, add, sub, const, tag, show, is_const, as_lin, implied_facts, struct_get
from util import *
from order import Order, term_eq
from proto import *

EXPLAIN["C02"] = (
    "Decides the CAS-protocol clauses that exclusivity under interleavings needs (necessary, not sufficient): P1 a range leaves "
    "the list only past the success edges of the mark CAS and the unlink CAS; P2 expected-value discipline - every CAS's new value "
    "is computed from the very word it expects (mark: pack(REMOVED, lo(w)); unlink: pack(hi(p), lo(w)); link: pack(hi(p), own offset) "
    "with own header pack(size, lo(p))); P3 the own-header store dominates the link CAS; P4 the cursor is only moved by CAS in the "
    "shared paths, new derived from expected, the handed-out offset is the CAS's expected value; P5 no accessible range produced by "
    "a pop path contains the node word (ptr_offset >= node + 8); P6 no CAS ever expects a word whose size is REMOVED (so a marked "
    "word is frozen and the marker may restore it); P7 search coherence of the traversals; P8 re-use (ABA) safety of the two-step pop - the words have no "
    "version bits, there is no reclamation scheme and the link is not re-validated between mark and unlink: reported as a known finding with a gdb-forced "
    "schedule that hands one segment to two callers. Not decided: linearizability.")
ASSUME["C02"] = ["no safe-memory-reclamation analysis: a thread preempted between reading a predecessor and loading the node it names may load a word that has gone back to bump space",
                 "unsync::Arena is !Send/!Sync (witness W3), so only sync::Arena is shared", "C01 lemmas hold on sync as well (evaluated on both flavours)"]

POPS = ("alloc_slow_path_optimistic", "alloc_slow_path_pessimistic")
MARKING = POPS + ("discard_freelist_in",)
LINKING = ("optimistic_dealloc", "pessimistic_dealloc")
BUMPING = ("alloc_bytes_in", "alloc_aligned_bytes_in", "alloc_in")


@rule("C02-P1", "C02", 3, "a range leaves the free list (is handed out, or accounted as discarded) only past the success edges of both the mark CAS and the unlink CAS", also=("C06",))
def p1(ctx):
    for name in MARKING:
        b, ev, res = sync_eval(ctx, name)
        marks = [e for e in cas_entries(res) if classify_cas(res, e) == "mark"]
        unl = [e for e in cas_entries(res) if classify_cas(res, e) == "unlink"]
        if len(marks) != 1 or len(unl) != 1:
            yield Ob(key_of("C02-P1", b.path, "cas-pair"), False, "expected one mark and one unlink CAS (%d, %d)" % (len(marks), len(unl)), b.loc())
            continue
        if name in POPS:
            outs = [e for e in res.log if e["kind"] == "ret0" and not e["chain"] and tag(e["value"]) == "variant" and e["value"][2] == "Ok"]
        else:
            outs = [e for e in res.log if e["kind"] == "call" and e.get("atomic") == "fetch_add" and "discarded" in show(e["target"])]
        if not outs:
            yield Ob(key_of("C02-P1", b.path, "hand-out"), False, "no hand-out site found", b.loc())
        for i, e in enumerate(outs):
            okc = ok_cas_facts(ctx.facts_of(ev, e))
            ok = marks[0]["result"] in okc and unl[0]["result"] in okc
            yield Ob(key_of("C02-P1", b.path, "hand-out-after-both-cas"), ok, "hand-out / accounting dominated by mark-success and unlink-success", ctx.loc(e))
        # the unlink is attempted only after the mark succeeded
        oku = marks[0]["result"] in ok_cas_facts(ctx.facts_of(ev, unl[0]))
        yield Ob(key_of("C02-P1", b.path, "unlink-after-mark"), oku, "unlink CAS attempted only on the mark's success edge", ctx.loc(unl[0]))


@rule("C02-P2", "C02", 8, "expected-value discipline: each node-word CAS's new value is computed from the word it expects", also=("C01",))
def p2(ctx):
    for name in MARKING:
        b, ev, res = sync_eval(ctx, name)
        for e in cas_entries(res):
            k = classify_cas(res, e)
            if k == "mark":
                ok = e["new"] == ("pack", e["new"][1], ("lo", e["expected"])) and is_removed(e["new"][1])
                # the expected word was loaded from the CAS target
                ld = e["expected"]
                ok2 = (tag(ld) == "load" and ld[2] == e["target"]) or tag(ld) in ("payload", "field", "phi", "payloads") or "find_prev_and_next" in show(ld)
                yield Ob(key_of("C02-P2", b.path, "mark"), ok and ok2, "mark: new = pack(REMOVED, lo(expected)); expected is the word loaded from the target", ctx.loc(e), {"new": short(e["new"], 120)})
            elif k == "unlink":
                marks = [m for m in cas_entries(res) if classify_cas(res, m) == "mark"]
                ok = bool(marks) and e["new"] == ("pack", ("hi", e["expected"]), ("lo", marks[0]["expected"]))
                yield Ob(key_of("C02-P2", b.path, "unlink"), ok, "unlink: new = pack(hi(expected), lo(marked word))", ctx.loc(e), {"new": short(e["new"], 120)})
            elif k == "other-node":
                yield Ob(key_of("C02-P2", b.path, "unclassified-cas"), False, "a node-word CAS that is neither mark, unlink nor link: new = %s" % short(e["new"], 100), ctx.loc(e))
    for name in LINKING:
        b, ev, res = sync_eval(ctx, name)
        links = [e for e in cas_entries(res) if classify_cas(res, e) == "link"]
        others = [e for e in cas_entries(res) if classify_cas(res, e) not in ("link",)]
        for e in others:
            yield Ob(key_of("C02-P2", b.path, "unclassified-cas"), False, "unexpected CAS kind %s in an insertion" % classify_cas(res, e), ctx.loc(e))
        for e in links:
            # own header written before: store to (self.ptr + own offset) of pack(data_size, lo(expected))
            own = e["new"][2]
            hdr = [s for s in res.log if s["kind"] == "call" and s.get("atomic") == "store" and s["seq"] < e["seq"] and tag(s.get("new")) == "pack" and s["new"][2] == ("lo", e["expected"])]
            ok = len(hdr) >= 1 and any(term_contains(s["target"], lambda t: t == own) for s in hdr)
            # expected and target come from the same search result
            yield Ob(key_of("C02-P2", b.path, "link"), ok, "link: new = pack(hi(expected), own offset) and own header = pack(data_size, lo(expected)) stored at the own offset", ctx.loc(e),
                     {"own": short(own, 80), "headers": [short(s["new"], 100) for s in hdr]})


@rule("C02-P3", "C02", 2, "header before link: the store of the new node's own header dominates the link CAS", also=("C06", "C01",))
def p3(ctx):
    for name in LINKING:
        b, ev, res = sync_eval(ctx, name)
        links = [e for e in cas_entries(res) if classify_cas(res, e) == "link"]
        for e in links:
            hdr = [s for s in res.log if s["kind"] == "call" and s.get("atomic") == "store" and tag(s.get("new")) == "pack" and s["new"][2] == ("lo", e["expected"])]
            ok = any(b.dominates(s["chain"][0][1] if s["chain"] else s["bb"], e["bb"]) and s["seq"] < e["seq"] for s in hdr)
            yield Ob(key_of("C02-P3", b.path, "header-before-link"), ok, "own-header store dominates the link CAS", ctx.loc(e))
        if not links:
            yield Ob(key_of("C02-P3", b.path, "header-before-link"), False, "no link CAS found", b.loc())


@rule("C02-P4", "C02", 7, "the cursor moves only by CAS in the shared paths; new is derived from expected; the handed-out offset is the CAS's own expected value", also=("C06",))
def p4(ctx):
    for name in BUMPING:
        b, ev, res = sync_eval(ctx, name)
        cs = [e for e in cas_entries(res) if classify_cas(res, e) == "cursor"]
        for e in cs:
            okd = mentions(e["new"], e["expected"])
            yield Ob(key_of("C02-P4", b.path, "new-from-expected"), okd, "cursor CAS: new (%s) computed from expected (%s)" % (short(e["new"], 70), short(e["expected"], 40)), ctx.loc(e))
            metas = [r for r in res.log if r["kind"] == "ret0" and not r["chain"] and unwrap_variant(r["value"], "Ok", "Some") is not None and e["result"] in ok_cas_facts(ctx.facts_of(ev, r))]
            okm = bool(metas) and all(struct_get(unwrap_variant(r["value"], "Ok", "Some"), "memory_offset") == e["expected"] for r in metas if tag(unwrap_variant(r["value"], "Ok", "Some")) == "struct")
            yield Ob(key_of("C02-P4", b.path, "offset-is-cas-expected"), okm, "the handed-out memory_offset is the value the successful CAS replaced", ctx.loc(e))
            # nothing the CAS publishes or the hand-out uses comes from an older read of the cursor: a retry after a lost CAS recomputes everything (padding,
            # end) from the value it now expects - a term hoisted out of the retry loop (`let padding = align_offset(first_read) - first_read`) reserves
            # the wrong range as soon as another thread moved the cursor in between
            stale = []
            def grab(t, e=e):
                if tag(t) == "load" and len(t) > 2 and is_cursor(t[2]) and t != e["expected"]:
                    stale.append(t)
                return None
            for v in [e["new"]] + [unwrap_variant(r["value"], "Ok", "Some") for r in metas]:
                if isinstance(v, (tuple, Lin)):
                    term_map(v, grab)
            yield Ob(key_of("C02-P4", b.path, "no-stale-cursor-read"), not stale, "the new cursor and the handed-out extent use no read of the cursor other than the CAS's expected value%s" %
                     (": %s" % short(stale[0], 80) if stale else ""), ctx.loc(e))
    # who stores the cursor: plain atomic stores only in rewind / (clear via Memory) - not in alloc/dealloc paths
    n = 0
    for b in ctx.facts.find(r"^(sync::Arena::|<sync::Arena as )"):
        for bi, t in b.calls():
            c = t.get("callee") or ""
            if re.search(r"Atomic::<u32>::(store|swap|fetch_add|fetch_sub)$", c):
                ev, res = ctx.eval(b, no_inline=NOINLINE)
                for e in res.log:
                    if e["kind"] == "call" and not e["chain"] and e["bb"] == bi and is_cursor(e.get("target")):
                        n += 1
                        ok = b.name in ("rewind",)
                        yield Ob(key_of("C02-P4", b.path, "plain-cursor-store"), ok, "non-CAS write of the cursor in %s (allowed only in rewind, documented not thread-safe)" % b.name, b.loc(bi))
    if n == 0:
        yield Ob(key_of("C02-P4", "sync", "plain-cursor-store"), False, "expected the rewind store as positive control", None)


def node_of(res, name):
    """term of the popped node's offset N in a pop body"""
    marks = [e for e in cas_entries(res) if classify_cas(res, e) == "mark"]
    if not marks:
        return None
    tgt = marks[0]["target"]  # ('heap', self.ptr + N, ())
    if tag(tgt) == "heap" and isinstance(tgt[1], Lin):
        ptr = [a for a in tgt[1].m if tag(a) == "field" and a[2] == "ptr"]
        if ptr:
            return sub(tgt[1], ptr[0])
    return None


@rule("C02-P5", "C02", 6, "no accessible range produced by a free-list pop contains the node word: ptr_offset >= node + 8 for the Meta leaving alloc_bytes_in, "
      "alloc_aligned_bytes_in and alloc_in on their slow arms (stale traversers may still load / CAS that word)", also=("C12",))
def p5(ctx):
    # (a) the pop bodies themselves
    for name in POPS:
        b, ev, res = sync_eval(ctx, name)
        N = node_of(res, name)
        if name.endswith("pessimistic"):
            # the node is named by the predecessor's word returned by the search: N = lo(prev word); that the `next` reference
            # returned alongside designates ptr + N is the search's coherence invariant (rule C02-P7)
            marks = [e for e in cas_entries(res) if classify_cas(res, e) == "mark"]
            unl = [e for e in cas_entries(res) if classify_cas(res, e) == "unlink"]
            N = ("lo", unl[0]["expected"]) if unl else None
        for r in res.log:
            if r["kind"] == "ret0" and not r["chain"] and tag(r["value"]) == "variant" and r["value"][2] == "Ok":
                m = r["value"][3][0]
                po = struct_get(m, "ptr_offset")
                ok = N is not None and term_eq(po, add(N, const(8))) and term_eq(struct_get(m, "memory_offset"), N)
                yield Ob(key_of("C02-P5", b.path, "pop-meta"), ok, "pop returns Meta{memory_offset: node, ptr_offset: node + 8}: %s, %s" % (short(struct_get(m, "memory_offset"), 60), short(po, 60)), ctx.loc(r))
    # (b) what the three entry points do with a popped Meta
    # only the shared flavour matters here: in unsync nobody else can still hold a reference to the popped node
    for fl in ("sync",):
        for name in BUMPING:
            b = ctx.facts.one(r"^%s::Arena::%s$" % (fl, name))
            ev, res = ctx.eval(b, no_inline=(r"::alloc_slow_path_(optimistic|pessimistic)$", r"::alloc_bytes_in$"))
            slow = [e for e in res.log if e["kind"] == "call" and not e["chain"] and re.search(r"alloc_slow_path_(optimistic|pessimistic)$", e["callee"])]
            for c in slow:
                arm = "optimistic" if c["callee"].endswith("optimistic") else "pessimistic"
                popped = ("payload", c["result"], "Ok", 0)
                mo = ("field", popped, "memory_offset")
                po0 = ("field", popped, "ptr_offset")
                for r in res.log:
                    if r["kind"] != "ret0" or r["chain"]:
                        continue
                    m = unwrap_variant(r["value"], "Ok", "Some")
                    if m is None or not mentions(m, popped):
                        continue
                    po = struct_get(m, "ptr_offset") if tag(m) == "struct" else (po0 if m == popped else None)
                    # by (a): popped.ptr_offset = popped.memory_offset + 8.  The outgoing ptr_offset must be >= that.
                    order = Order([("cmp", "Eq", po0, add(mo, const(8)))])
                    ok = po is not None and order.le(add(mo, const(8)), po)
                    yield Ob(key_of("C02-P5", b.path, "slow-%s" % arm), ok,
                             "slow arm (%s): outgoing ptr_offset = %s %s node + 8 - %s" % (arm, short(po, 80), ">=" if ok else "is NOT provably >=",
                                                                                           "the node word stays outside the accessible range" if ok else
                                                                                           "re-aligning from memory_offset (= the node offset) puts the user's bytes over the node word that stale traversers may still load or CAS"), ctx.loc(c))


@rule("C02-P6", "C02", 8, "a marked word is frozen: every node-word CAS is dominated by a test that the size half of its expected value is not REMOVED "
      "(so no CAS can succeed on a marked word, and the marker's restoring store cannot lose an update)", also=("C07",))
def p6(ctx):
    for name in MARKING + LINKING:
        b, ev, res = sync_eval(ctx, name)
        for e in cas_entries(res):
            k = classify_cas(res, e)
            if k == "cursor":
                continue
            fs = ctx.facts_of(ev, e)
            exp = e["expected"]
            hi_exp = ("hi", exp)
            ok = False
            for f in fs:
                if f[0] == "cmp" and f[1] == "Ne" and ((f[2] == hi_exp and is_removed(f[3])) or (f[3] == hi_exp and is_removed(f[2]))):
                    ok = True
            # the sentinel's size half is SENTINEL_SEGMENT_NODE_SIZE != REMOVED: accept a proof that hi(exp) == SENTINEL size or that the target is the sentinel word
            if not ok and tag(e["target"]) == "heap" and e["target"][2] and e["target"][2][-1] == "sentinel":
                ok = True
            # values returned by find_prev_and_next are not REMOVED on the Some path (checked inside the search): accept the local re-test only
            yield Ob(key_of("C02-P6", b.path, "%s-expected-not-removed" % k), ok, "%s CAS: hi(expected) != REMOVED is established before the CAS (%s)" % (k, "yes" if ok else "NOT established"), ctx.loc(e))


@rule("C02-P7", "C02", 8, "search coherence (loop invariant of find_position / find_prev_and_next, both flavours): on every edge into the loop head the cached word "
      "`current_node` is the value read from `current`, and the cached halves are its halves (next_offset = lo, size = hi); the returned pairs are "
      "(word, reference) of the same node and `next` = node(lo(current word))")
def p7(ctx):
    for fl in ("sync", "unsync"):
        for name in ("find_position", "find_prev_and_next"):
            b = ctx.facts.one(r"^%s::Arena::%s$" % (fl, name))
            ev, res = ctx.eval(b, no_inline=NOINLINE)
            names = search_roles(b, res)     # by type and data flow, not by source name
            must = ("current", "current_node", "next_offset")
            if any(n not in names for n in must):
                from facts import AnchorError
                raise AnchorError("locals %s not found in %s" % (must, b.path))
            # the cached size half is optional: a traversal that never tests the size of `current` (unsync has no marks) need not keep it
            has_size = "current_node_size" in names
            need = must + (("current_node_size",) if has_size else ())
            backs = b.back_edges()
            heads = sorted(set(v for _, v in backs))
            if len(heads) != 1:
                yield Ob(key_of("C02-P7", b.path, "one-loop"), False, "expected one loop", b.loc())
                continue
            h = heads[0]
            n = 0
            for p in b.pred[h]:
                env = res.env_out.get(p)
                if env is None:
                    continue
                n += 1
                cur, cn, no = (env.get(names[x]) for x in must)
                cs = env.get(names["current_node_size"]) if has_size else None
                henv = res.env_in.get(h, {})
                if all(env.get(names[x]) == henv.get(names[x]) for x in need):
                    yield Ob(key_of("C02-P7", b.path, "invariant-edge", n), True, "edge bb%d -> loop head leaves the four cached values unchanged (inductive step trivial)" % p, b.loc(p))
                    continue
                def same_place(hl, ptr):
                    return tag(hl) == "hload" and ev._target(ptr) == ("heap", hl[1], tuple(hl[2]))
                if fl == "unsync":
                    # current_node is a reference to the word; its value is the load through it
                    word = ("hload", cn, (), None)
                    ok_load = cn == cur or (tag(cn) != "phi" and term_eq(cn, cur))
                    ok_lo = tag(no) == "lo" and same_place(no[1], cn)
                    ok_hi = (not has_size) or (tag(cs) == "hi" and same_place(cs[1], cn))
                else:
                    ok_load = tag(cn) == "load" and cn[2] == ("heap", cur, ()) or (tag(cn) == "load" and tag(cur) == "ref" and cn[2] == cur[1])
                    ok_lo = no == ("lo", cn)
                    ok_hi = (not has_size) or cs == ("hi", cn)
                yield Ob(key_of("C02-P7", b.path, "invariant-edge", n), bool(ok_load and ok_lo and ok_hi),
                         "edge bb%d -> loop head: current_node read from current: %s; next_offset = lo(current_node): %s; size = hi(current_node): %s" % (p, bool(ok_load), bool(ok_lo), bool(ok_hi)), b.loc(p))
            # returns
            for r in res.log:
                if r["kind"] != "ret0" or r["chain"]:
                    continue
                v = r["value"]
                if name == "find_prev_and_next":
                    v = unwrap_variant(v, "Some")
                    if v is None:
                        continue
                    pairs = list(v[1]) if tag(v) == "tuple" else []
                else:
                    pairs = [v]
                env = res.env_in.get(r["bb"], {})
                okr = bool(pairs)
                for i, pr in enumerate(pairs):
                    if tag(pr) != "tuple" or len(pr[1]) != 2:
                        okr = False
                        continue
                if name == "find_prev_and_next" and okr and len(pairs) == 2:
                    (w0, r0), (w1, r1) = pairs[0][1], pairs[1][1]
                    # next reference = node(lo(current word)): r1 == self.ptr + next_offset where next_offset = lo(w0) (by the invariant)
                    SELF = ("param", 0, "self")
                    no = res.env_out.get(r["bb"], {}).get(names["next_offset"])
                    okr = term_eq(r1, add(field(SELF, "ptr"), no)) if no is not None and isinstance(add(field(SELF, "ptr"), no), (Lin, tuple)) else False
                    if fl == "sync":
                        okr = okr and tag(w1) == "load" and w1[2] == ("heap", r1, ())
                    else:
                        okr = okr and (tag(w1) == "hload" and ev._target(r1) == ("heap", w1[1], tuple(w1[2])))
                yield Ob(key_of("C02-P7", b.path, "returned-pairs"), okr, "returned (word, reference) pairs are coherent; next = node(next_offset)", ctx.loc(r))


@rule("C02-P8", "C02", 3, "re-use (ABA) safety of the two-step pop: node addresses are recycled (a popped segment is released and re-inserted at the same address) while other "
      "threads may still hold the link they read before; the pop is safe against that only if the words carry a version / tag, or the memory is protected by a "
      "reclamation scheme (epoch, hazard pointers), or the link is re-validated after the mark. None of the three: a delayed popper marks a node whose owner is "
      "re-inserting it (own word stored, not yet linked), the owner's retry erases the mark with its blind own-word store, and the popper's unlink CAS succeeds on a "
      "link word that has returned to its old value - one segment is handed to two callers")
def p8(ctx):
    sn = ctx.facts.adts.get("sync::SegmentNode")
    one_word = sn is not None and re.search(r"Atomic<u64>$", sn["variants"][0]["fields"][0]["ty"]) is not None
    # does any crate body use a reclamation scheme?
    smr = False
    for b in ctx.facts.own:
        for _, t in b.calls():
            c = t.get("resolved") or t.get("callee") or ""
            if re.search(r"crossbeam_epoch|epoch::pin|hazard|haphazard|seize::", c):
                smr = True
    for name in MARKING:
        b, ev, res = sync_eval(ctx, name)
        marks = [e for e in cas_entries(res) if classify_cas(res, e) == "mark"]
        unl = [e for e in cas_entries(res) if classify_cas(res, e) == "unlink"]
        if len(marks) != 1 or len(unl) != 1:
            yield Ob(key_of("C02-P8", b.path, "anchors"), False, "expected one mark and one unlink CAS", b.loc())
            continue
        m, u = marks[0], unl[0]
        # version bits: the words written are pack(size, next) with both halves fully used (u32, u32)
        tagged = not (tag(m["new"]) == "pack" and tag(u["new"]) == "pack" and one_word)
        # re-validation: a load of the link (the unlink's target) between the mark and the unlink
        reval = [e for e in res.log if e["kind"] == "call" and e.get("atomic") == "load" and not e["chain"] and m["seq"] < e["seq"] < u["seq"] and e.get("target") == u["target"]]
        # the unlink expects a word that was read before the mark
        stale_expected = not mentions(u["expected"], m["result"]) and not reval
        ok = tagged or smr or not stale_expected
        yield Ob(key_of("C02-P8", b.path, "unlink-cas-is-aba-prone"), ok,
                 "%s: words are pack(size: u32, next: u32) in one u64 (%s), reclamation scheme: %s, link re-read between mark and unlink: %s" %
                 (name, "no version bits" if not tagged else "tagged", "yes" if smr else "none", "yes" if reval else "no"), ctx.loc(u))
