"""C06 - a process crash at any point leaves a file that reopens to a consistent arena (write-ordering clauses)."""
import re
from engine import rule, Ob, key_of, EXPLAIN, ASSUME
from sym import Lin, add, sub, const, tag, show, is_const, as_lin, implied_facts, struct_get
from util import *
from order import Order, term_eq
from proto import *

EXPLAIN["C06"] = (
    "Decides the order of persistent writes inside each operation (program order = persistence order for a killed process on a shared mapping) - not "
    "crash behaviour over crash points x histories. K1 the cursor and every node word is one atomic location updated by one atomic operation (type and "
    "callee facts), so no torn intermediate value exists; K2 a range is removed from the persistent 'available' state before it is handed out (C02-P1 / "
    "P4); K3 a new node's own header is stored before the CAS that links it (C02-P3); K4 the zeroing of a freshly bumped range is dominated by the "
    "success edge of the cursor CAS (a crash never leaves zeroed-but-unowned live data); K5 reopen re-zeroes only above the stored cursor (C05-S3, "
    "C09-Op2); K6 recovery: a persistent intermediate state set at one site must be undone on every path of the same operation or by the open path - "
    "the REMOVED mark on a still-linked node is undone only by the marking thread itself (C07-T1), nothing reachable from the open path touches node "
    "words, and every traversal waits on such a node: a crash between the two CAS of a pop leaves a file on which alloc / dealloc spin for ever. "
    "K6 is reported as a known finding (one key per marking site). K7 clear() resets the in-file header (empty sentinel, cursor at data_offset) before it zeroes "
    "the data area: zeroing turns node words into 0 = REMOVED, so the list must be unpublished first.")
ASSUME["C06"] = ["a killed process loses no store already performed on the shared mapping (page cache)", "no power-loss / torn-page model",
                 "histories x crash points are not enumerated: only per-operation write order is decided"]

MARKING = ("alloc_slow_path_optimistic", "alloc_slow_path_pessimistic", "discard_freelist_in")
MEMCFG = ("memmap", "memmap-nooverflow", "memmap-tracing")


@rule("C06-K1", "C06", 3, "the cursor and the node word are single atomic locations (AtomicU32 / AtomicU64) and every write to them in sync.rs is one atomic operation")
def k1(ctx):
    a = ctx.facts.adts.get("sync::sealed::Header")
    tys = {f["name"]: f["ty"] for f in a["variants"][0]["fields"]} if a else {}
    ok = bool(re.search(r"Atomic<u32>$", tys.get("allocated", ""))) and tys.get("sentinel") == "sync::SegmentNode"
    yield Ob(key_of("C06-K1", "sync::sealed::Header", "atomic-cursor"), ok, "Header.allocated: %s, sentinel: %s" % (tys.get("allocated"), tys.get("sentinel")), "%s:%s" % (a["file"], a["line"]) if a else None)
    sn = ctx.facts.adts.get("sync::SegmentNode")
    ok = sn is not None and re.search(r"Atomic<u64>$", sn["variants"][0]["fields"][0]["ty"]) is not None
    yield Ob(key_of("C06-K1", "sync::SegmentNode", "atomic-word"), ok, "SegmentNode is one AtomicU64", "%s:%s" % (sn["file"], sn["line"]) if sn else None)
    # no raw (non-atomic) write targets a node word or the header in sync.rs list operations
    bad = []
    for name in SYNC_BODIES:
        b, ev, res = sync_eval(ctx, name)
        for e in res.log:
            if e["kind"] == "store" and e.get("how") == "store" and tag(e["base"]) != "param" and not e["chain"]:
                bad.append((name, ctx.loc(e)))
    yield Ob(key_of("C06-K1", "sync", "no-plain-store"), not bad, "no plain (non-atomic) store to arena memory in the sync list operations (%d)" % len(bad), None, {"at": bad[:3]})


@rule("C06-K4", "C06", 3, "bump paths: the zeroing / hand-out of a fresh range is dominated by the success edge of the cursor CAS (the range is owned in the file before it is written)")
def k4(ctx):
    for name in ("alloc_bytes_in", "alloc_aligned_bytes_in", "alloc_in"):
        b, ev, res = sync_eval(ctx, name)
        cs = [e for e in cas_entries(res) if classify_cas(res, e) == "cursor"]
        if len(cs) != 1:
            yield Ob(key_of("C06-K4", b.path, "cursor-cas"), False, "expected one cursor CAS", b.loc())
            continue
        outs = [e for e in res.log if is_raw_write(e)] + [r for r in res.log if r["kind"] == "ret0" and not r["chain"] and unwrap_variant(r["value"], "Ok", "Some") is not None
                                                          and tag(unwrap_variant(r["value"], "Ok", "Some")) == "struct" and "alloc_slow_path" not in show(r["value"])]
        ok = bool(outs) and all(cs[0]["result"] in ok_cas_facts(ctx.facts_of(ev, e)) for e in outs)
        yield Ob(key_of("C06-K4", b.path, "cas-before-write"), ok, "%d write / hand-out site(s), all on the CAS success edge" % len(outs), ctx.loc(cs[0]))


def open_path_bodies(ctx):
    roots = ctx.facts.find(r"^memory::Memory::<R, PR, H>::(map_mut_in|map_in|map_mut|map|map_copy|map_copy_read_only)") + ctx.facts.find(r"^<(sync|unsync)::Arena as (?:std|core)::convert::From<memory::Memory")
    roots += ctx.facts.find(r"^options::open_options::<impl options::Options>::(map_mut|map|map_copy|map_copy_read_only)")
    seen = {}
    stack = list(roots)
    while stack:
        b = stack.pop()
        if b.path in seen:
            continue
        seen[b.path] = b
        for _, t in b.calls():
            c = t.get("resolved") or t.get("callee")
            nb = ctx.facts.body(c) if c else None
            if nb is not None and not nb.file.startswith("/"):
                stack.append(nb)
        for cl in ctx.facts.closures_of(b):
            stack.append(cl)
    return seen


@rule("C06-K6", "C06", 3, "recovery: the persistent REMOVED mark on a still-linked node must be undone by the open path if the marker can die between its two CAS - "
      "some function reachable from the constructors must repair node words", configs=MEMCFG)
def k6(ctx):
    opened = open_path_bodies(ctx)
    # does anything on the open path write a node word (a 64-bit atomic store/CAS, or a call of a list operation)?
    repair = []
    for p, b in opened.items():
        for bi, t in b.calls():
            c = t.get("resolved") or t.get("callee") or ""
            if re.search(r"Atomic::<u64>::(store|compare_exchange|compare_exchange_weak|swap)$", c) or re.search(r"::(find_position|find_prev_and_next|discard_freelist_in|optimistic_dealloc|pessimistic_dealloc)$", c):
                repair.append((p, b.loc(bi)))
    for name in MARKING:
        b, ev, res = sync_eval(ctx, name)
        marks = [e for e in cas_entries(res) if classify_cas(res, e) == "mark"]
        unl = [e for e in cas_entries(res) if classify_cas(res, e) == "unlink"]
        if len(marks) != 1 or len(unl) != 1:
            yield Ob(key_of("C06-K6", b.path, "anchors"), False, "expected one mark and one unlink CAS", b.loc())
            continue
        # the window exists iff the unlink is a separate later atomic operation
        window = unl[0]["seq"] > marks[0]["seq"]
        ok = (not window) or bool(repair)
        yield Ob(key_of("C06-K6", b.path, "mark-window-has-no-recovery"), ok,
                 "mark CAS (%s) and unlink CAS (%s) are two persistent steps; %s" % (ctx.loc(marks[0]), ctx.loc(unl[0]),
                                                                                   "the open path repairs node words at %s" % (repair[:2],) if repair else
                                                                                   "no function reachable from the %d open-path bodies touches a node word, and traversals wait on REMOVED nodes: a crash inside the window "
                                                                                   "leaves a file on which alloc / dealloc / discard_freelist spin for ever" % len(opened)), ctx.loc(marks[0]))


@rule("C06-K7", "C06", 2, "clear: the list is unpublished before its nodes are destroyed - on the in-file (unified) layout the header reset (cursor := data_offset, "
      "sentinel := empty) is stored before the data area is zeroed, so a kill inside the wipe never leaves a sentinel pointing at a zeroed node word (0 = REMOVED: "
      "every traversal would wait on it for ever)", configs=MEMCFG)
def k7(ctx):
    b = ctx.facts.one(r"^memory::Memory::<R, PR, H>::clear$")
    ev, res = ctx.eval(b)
    SELF = ("param", 0, "self")
    IMM = {"unify"}
    U = canon(("hload", SELF, ("unify",), ("v", 0)), IMM)
    wb = [e for e in res.log if e["kind"] == "call" and e.get("effect") == "write_bytes" and not e["chain"]]
    hw = [e for e in res.log if e["kind"] == "call" and e.get("effect") == "ptr_write" and not e["chain"]]
    yield Ob(key_of("C06-K7", b.path, "anchors"), len(wb) >= 1 and len(hw) >= 1, "%d zeroing write(s), %d header write(s) in Memory::clear" % (len(wb), len(hw)), b.loc())
    # edges taken only when the header is NOT in the mapping (self.unify false) do not matter for the file
    removed = set()
    for x, c in res.conds.items():
        if canon(c, IMM) == U:
            t = b.blocks[x]["term"]
            for v, bb in t["arms"]:
                if int(v) == 0:
                    removed.add((x, bb))
    stop = frozenset(e["bb"] for e in hw)
    reach = b.reach(0, removed=frozenset(removed), stop=stop)
    for e in wb:
        same_block_before = any(h["bb"] == e["bb"] and h["seq"] < e["seq"] for h in hw)
        ok = same_block_before or (e["bb"] not in reach) or (e["bb"] in stop and any(h["bb"] == e["bb"] and h["seq"] < e["seq"] for h in hw))
        yield Ob(key_of("C06-K7", b.path, "header-reset-before-wipe"), ok, "every path (self.unify) to the zeroing of the data area passes the header write first", ctx.loc(e))


@rule("C06-K8", "C06", 1, "creating a file: the identification block (what makes a later open accept the file) is written after the header is complete - a kill between the "
      "two must leave a file that is refused, not one that validates with cursor 0 (every allocation would then start at offset 0, over the identification block and the header)",
      configs=MEMCFG)
def k8(ctx):
    b = ctx.facts.one(r"^memory::Memory::<R, PR, H>::map_mut_in::\{closure#0\}$")
    ev, res = ctx.eval(b, no_inline=(r"::mlock$",))
    CN = ("upvar", "create_new")
    hdr = [e for e in res.log if e["kind"] == "call" and e.get("effect") == "ptr_write" and ("bool", CN, True) in ctx.facts_of(ev, e)]
    ident = [e for e in res.log if (e["kind"] == "call" and e.get("effect") == "copy_from_slice") or (e["kind"] == "store" and e["path"] and isinstance(e["path"][-1], tuple) and e["path"][-1][0] == "idx")]
    # (the writes of write_sanity, whether in its own body or in a closure it runs)
    ident = [e for e in ident if e["body"].name == "write_sanity" or any(p_ == "write_sanity" for p_, _ in e["chain"])]
    ok = len(hdr) == 1 and len(ident) >= 3 and all(hdr[0]["seq"] < e["seq"] for e in ident)
    yield Ob(key_of("C06-K8", b.path, "header-before-identification"), ok,
             "create path: header write (%s) %s the %d identification-block writes" % (ctx.loc(hdr[0]) if hdr else "none", "precedes" if ok else "does NOT precede", len(ident)), ctx.loc(hdr[0]) if hdr else b.loc())


@rule("C06-K9", "C06", 2, "opening an existing file: the stored cursor is validated against [data_offset, mapped capacity] before the arena is built - a file with cursor 0 "
      "(killed during creation), or one opened with a capacity smaller than what was allocated, must be refused: otherwise allocations start inside the header, or "
      "allocated_memory() / the readers reach beyond the mapping", configs=MEMCFG, also=("C09", "C05", "C15"))
def k9(ctx):
    for name in ("map_mut_in", "map_in"):
        b = ctx.facts.one(r"^memory::Memory::<R, PR, H>::%s::\{closure#0\}$" % name)
        ev, res = ctx.eval(b, no_inline=(r"::mlock$", r"^sanity_check$"))
        aggs = [e for e in res.log if e["kind"] == "agg" and e["adt"] == "memory::Memory" and not e["chain"]]
        la = [c["result"] for c in res.log if c["kind"] == "call" and c["callee"].endswith("load_allocated")]
        ok_lo = ok_hi = False
        if len(aggs) == 1 and la:
            do = canon(struct_get(aggs[0]["value"], "data_offset"))
            cap = canon(struct_get(aggs[0]["value"], "cap"))
            a = canon(la[0])
            CN = ("upvar", "create_new")
            fsets = []
            if name == "map_in":
                fsets.append(set(canon(f) for f in ctx.facts_of(ev, aggs[0])))
            else:
                # the aggregate is built after the create / reopen branches have joined: judge the edges that leave the reopen branch
                for x in b.reachable:
                    fx_ = set(implied_facts(ev.guards(res, x)))
                    if ("bool", CN, False) not in fx_:
                        continue
                    for y in b.succ[x]:
                        fy = set(implied_facts(ev.guards(res, y)))
                        if ("bool", CN, False) not in fy and ("bool", CN, True) not in fy and aggs[0]["bb"] in (b.reach(y) | {y}):
                            # the last such edge only: nothing between y and the aggregate is inside a reopen-only region again
                            later = [z for z in (b.reach(y) | {y}) if aggs[0]["bb"] in (b.reach(z) | {z}) and ("bool", CN, False) in set(implied_facts(ev.guards(res, z)))]
                            if not later:
                                fsets.append(set(canon(f) for f in implied_facts(ev.guards_edge(res, x, y))))
            ok_lo = bool(fsets) and all(Order(fs).le(do, a) for fs in fsets)
            ok_hi = bool(fsets) and all(Order(fs).le(a, cap) for fs in fsets)
        yield Ob(key_of("C06-K9", b.path, "cursor-at-least-data-offset"), ok_lo, "%s: Memory is built only under data_offset <= stored cursor" % name, b.loc())
        yield Ob(key_of("C06-K9", b.path, "cursor-within-mapping"), ok_hi, "%s: Memory is built only under stored cursor <= mapped capacity" % name, b.loc())
