"""C11 - sync::Arena used from one thread behaves exactly like unsync::Arena (sibling comparison)."""
import re
from engine import rule, Ob, key_of, EXPLAIN, ASSUME
from sym import Lin, add, sub, const, tag, show, is_const, as_lin, implied_facts, struct_get, scale
from util import *
from proto import NOINLINE

EXPLAIN["C11"] = (
    "Decides agreement of guarded-effect summaries of every paired function of sync::Arena and unsync::Arena. A summary is the set of (a) returns - variant "
    "shape and payload terms, (b) effects - cursor writes, node-word / sentinel writes, discarded / min_segment_size writes, raw writes, calls of crate functions "
    "with their argument terms - each with the canonical set of dominating guards. sync is first projected onto the edges one thread can take: CAS-failure "
    "edges and everything only they reach, comparisons with REMOVED, back-off calls, and the retry counter are removed; a successful CAS(expected, new) on a "
    "word just loaded becomes a store of `new`; atomic loads and plain reads of the same location are identified. InsufficientSpace payloads are ignored "
    "(the statement allows them to differ). Remaining differences must be listed in TOLERATED by exact key with a reason. An edit applied identically to "
    "both flavours escapes C11 by construction - it is caught by the property-specific rules, which are all evaluated on both flavours.")
ASSUME["C11"] = ["on one thread a CAS whose expected value was just loaded from the same word succeeds (no spurious failure is modelled for compare_exchange_weak)",
                 "a failed pop has no effect (C04-E3), so sync's bounded retry of the slow path equals one attempt",
                 "values are compared as terms over the integers; wrap-around is C04's concern"]

PAIRS = [
    # (key, sync pattern, unsync pattern)
    ("alloc_bytes_in", r"^sync::Arena::alloc_bytes_in$", r"^unsync::Arena::alloc_bytes_in$"),
    ("alloc_aligned_bytes_in", r"^sync::Arena::alloc_aligned_bytes_in$", r"^unsync::Arena::alloc_aligned_bytes_in$"),
    ("alloc_in", r"^sync::Arena::alloc_in$", r"^unsync::Arena::alloc_in$"),
    ("alloc_slow_path_optimistic", r"^sync::Arena::alloc_slow_path_optimistic$", r"^unsync::Arena::alloc_slow_path_optimistic$"),
    ("alloc_slow_path_pessimistic", r"^sync::Arena::alloc_slow_path_pessimistic$", r"^unsync::Arena::alloc_slow_path_pessimistic$"),
    ("optimistic_dealloc", r"^sync::Arena::optimistic_dealloc$", r"^unsync::Arena::optimistic_dealloc$"),
    ("pessimistic_dealloc", r"^sync::Arena::pessimistic_dealloc$", r"^unsync::Arena::pessimistic_dealloc$"),
    ("try_new_segment", r"^sync::Arena::try_new_segment$", r"^unsync::Arena::try_new_segment$"),
    ("validate_segment", r"^sync::Arena::validate_segment$", r"^unsync::Arena::validate_segment$"),
    ("discard_freelist_in", r"^sync::Arena::discard_freelist_in$", r"^unsync::Arena::discard_freelist_in$"),
    ("pad", r"^sync::Arena::pad$", r"^unsync::Arena::pad$"),
    ("get_segment_node", r"^sync::Arena::get_segment_node$", r"^unsync::Arena::get_segment_node$"),
    ("Segment::from_offset", r"^sync::Segment::from_offset$", r"^unsync::Segment::from_offset$"),
    ("Header::new", r"^<sync::sealed::Header as sealed::Header>::new$", r"^<unsync::sealed::Header as sealed::Header>::new$"),
] + [("Allocator::" + m, r"^<sync::Arena as allocator::Allocator>::%s$" % m, r"^<unsync::Arena as allocator::Allocator>::%s$" % m) for m in (
    "alloc", "alloc_bytes", "alloc_aligned_bytes", "dealloc", "discard_freelist", "increase_discarded", "set_minimum_segment_size", "minimum_segment_size",
    "rewind", "clear", "allocated", "discarded", "remaining", "reserved_slice", "reserved_bytes", "magic_version", "version", "page_size", "raw_ptr", "raw_mut_ptr", "refs")]

# differences that are part of the design, by exact key
TOLERATED = {
    "C11:optimistic_dealloc:only-sync:guard-found-ourselves": "sync re-searches when the found successor is the node being inserted (reachable only after a double free); unsync loops on the same test",
}


def _orient(t):
    """one spelling for a comparison of two arguments: `next <= val` is `val >= next`"""
    if tag(t) == "cmp" and len(t) == 4 and tag(t[2]) == "arg" and tag(t[3]) == "arg" and t[2][1] > t[3][1] and t[1] in ("Le", "Ge", "Lt", "Gt", "Eq", "Ne"):
        return ("cmp", {"Le": "Ge", "Ge": "Le", "Lt": "Gt", "Gt": "Lt", "Eq": "Eq", "Ne": "Ne"}[t[1]], t[3], t[2])
    return t


class K:
    """canonicaliser of terms across the two flavours"""

    def __init__(self, res=None, body=None, ctx=None, ev=None):
        self.res, self.body, self.ctx, self.ev = res, body, ctx, ev
        self._busy = set()

    def widened(self, x, depth):
        """a loop-head phi without recorded alternatives: rebuild them from the values flowing into the loop head and drop those
        that only a failed CAS produces; a single survivor is the value on one thread"""
        if self.res is None or x in self._busy:
            return None
        try:
            h = int(str(x[1][-1]).split("@")[-1])
        except (ValueError, IndexError):
            return None
        if not str(x[1][-1]).startswith(self.body.name + "@") or len(x[1]) != 1:
            return None
        l = x[2]
        if not isinstance(l, int):
            return None
        self._busy.add(x)
        try:
            alts = []
            for p in self.body.pred[h]:
                env = self.res.env_out.get(p)
                if env is None or l not in env:
                    continue
                v = env[l]
                if v == x:
                    continue
                kv = self.t(v, depth + 1)
                if kv == ("casfail",) or "casfail" in repr(kv):
                    continue
                alts.append(kv)
            alts = sorted(set(alts), key=repr)
            if len(alts) == 1:
                return alts[0]
            return None
        finally:
            self._busy.discard(x)

    def t(self, x, depth=0):
        if depth > 60:
            return ("...",)
        if isinstance(x, Lin):
            out = const(x.c)
            for a, c in x.m.items():
                ka = self.t(a, depth + 1)
                try:
                    out = add(out, scale(ka, c))
                except Exception:
                    out = add(out, scale(("opaque", repr(ka)), c))
            return out
        if not isinstance(x, tuple):
            return x
        tg = tag(x)
        if tg == "load":
            return ("mem", self.place(x[2], depth + 1))
        if tg == "hload":
            return ("mem", ("heap", self.t(x[1], depth + 1), tuple(self.pe(p, depth) for p in x[2])))
        if tg == "heap":
            return self.place(x, depth + 1)
        if tg == "cas":
            return ("cas", self.place(x[2], depth + 1))
        if tg == "casfail":
            # on one thread the value a failed CAS reports is the value the word holds
            c = x[1] if len(x) > 1 else None
            if tag(c) == "cas":
                return ("mem", self.place(c[2], depth + 1))
            return ("casfail",)
        if tg == "rmw":
            return ("rmw", x[1], self.place(x[3], depth + 1), self.t(x[4], depth + 1))
        if tg == "call":
            name = re.sub(r"\b(un)?sync::", "", x[1])
            name = name.replace("header_mut", "header")
            if re.search(r"as_inner_(ref|mut|ptr|ref_mut)$", name) or name.endswith("UnsafeCell::<T>::new"):
                return self.t(x[2][0], depth + 1)
            return ("call", name, tuple(self.t(a, depth + 1) for a in x[2]))
        if tg == "phi":
            alts = []
            if len(x) > 3:
                for a in x[3]:
                    ka = self.t(a, depth + 1)
                    if ka == ("casfail",) or (isinstance(ka, tuple) and tag(ka) in ("hi", "lo") and ka[1] == ("casfail",)):
                        continue
                    alts.append(ka)
                alts = sorted(set(alts), key=repr)
                if len(alts) == 1:
                    return alts[0]
                return ("kphi", tuple(alts))
            w = self.widened(x, depth)
            if w is not None:
                return w
            return ("kphi?",)
        if tg == "ref" and x[1][0] == "heap":
            return self.place(("heap", x[1][1], x[1][2]), depth + 1)
        if tg == "ref" and x[1][0] == "loc" and self.ev is not None:
            # a reference to a local (frame ids are not canonical): what the local holds - a closure handed on by reference is that closure
            v = self.ev._deref_val(x)
            if v != x and tag(v) != "undef":
                kv = self.t(v, depth + 1)
                return kv if tag(kv) == "closure" else ("ref", kv)
        if tg == "struct":
            nm = re.sub(r"\b(un)?sync::", "", x[1])
            if nm == "SegmentNode" and len(x[2]) == 1:
                return self.t(x[2][0][1], depth + 1)
            return ("struct", nm, tuple((k, self.t(v, depth + 1)) for k, v in x[2]))
        if tg == "field" and tag(x[1]) == "call" and re.search(r"::header(_mut)?$", x[1][1]):
            return ("mem", ("heap", self.t(x[1], depth + 1), (x[2],)))
        if tg == "atomic_new":
            return self.t(x[1], depth + 1)
        if tg == "closure":
            # a closure is what it computes: its (canonical) return term, not its name
            cb = self.ctx.facts.body(x[1]) if self.ctx is not None else None
            if cb is not None and depth < 20:
                ev2, r2 = self.ctx.eval(cb, no_inline=NOINLINE)
                ret = term_map(r2.ret, lambda y: ("arg", y[1] - 1) if tag(y) == "param" and y[1] >= 1 else None)      # arguments by position, not by name
                return ("closure", repr(_orient(K(r2, cb, self.ctx).t(ret, depth + 1))), tuple(self.t(u, depth + 1) for u in x[2]))
            return ("closure", re.sub(r"\b(un)?sync::", "", x[1]))
        if tg == "fn" and self.ctx is not None and depth < 20:
            # a small function used as a value (`find_position(n, O::goes_before)`) is what it computes, like a closure without captures
            fb = self.ctx.facts.body(x[1].split("::<")[0])
            if fb is not None and len(fb.blocks) <= 3:
                ev2, r2 = self.ctx.eval(fb, no_inline=NOINLINE)
                ret = term_map(r2.ret, lambda y: ("arg", y[1]) if tag(y) == "param" else None)
                return ("closure", repr(_orient(K(r2, fb, self.ctx).t(ret, depth + 1))), ())
        return tuple(self.t(y, depth + 1) if isinstance(y, (tuple, Lin)) else (re.sub(r"\b(un)?sync::", "", y) if isinstance(y, str) else y) for y in x)

    def pe(self, p, depth):
        if isinstance(p, tuple):
            return tuple(self.t(q, depth + 1) if isinstance(q, (tuple, Lin)) else q for q in p)
        return p

    def place(self, tgt, depth=0):
        """canonical memory location: header fields, sentinel, node words"""
        if tag(tgt) == "heap":
            base, path = self.t(tgt[1], depth + 1), tuple(self.pe(p, depth) for p in tgt[2])
            path = tuple(p for p in path if p not in ("size_and_next", "0"))
            return ("heap", base, path)
        return ("heap", self.t(tgt, depth + 1), ())



class Items(set):
    """the summary items; additionally remembers, per effect signature (item without its guard tuple), the exact path conditions (a DNF over canonical
    literals) under which the effect happens - used only when the syntactic comparison fails"""

    def __init__(self):
        super().__init__()
        self.exact = {}
        self.cur = None
        self.cur_extra = frozenset()
        self.cases = {}     # (kind, target) -> [(canonical value without joins, exact DNF)] for writes whose value is a join / if-then-else

    def add(self, it):
        super().add(it)
        if self.cur is not None:
            self.exact.setdefault(it[:-1], []).extend([c | self.cur_extra for c in self.cur])


from dnf import FLIP, neg_lit, conj_unsat, dnf_simplify, dnf_implies


def sync_only_fact(f):
    try:
        s = show(f)
    except IndexError:
        import sys
        sys.stderr.write("SHOWFAIL %r\n" % (f,))
        raise
    if f[0] == "bool" and len(f) > 2 and f[2] is False and tag(f[1]) == "field" and len(f[1]) > 2 and f[1][2] == "ro":
        return True   # `!self.ro` is established once at the public entry (C04-E1); helpers re-assert it at different depths
    return ("cas(" in s or "cas[" in s or "casfail" in s or "REMOVED_SEGMENT_NODE" in s or "max_retries" in s or "Backoff" in s or "is_completed" in s)


def emit_write(items, tgt, kv, guards):
    """x := x + n is recorded as an addition in both flavours (fetch_add / += / CAS(old, old + n))"""
    old = ("mem", tgt)
    if isinstance(kv, Lin) and kv.m.get(old) == 1:
        items.add(("add", repr(tgt), repr(sub(kv, old)), guards))
    else:
        items.add(("write", repr(tgt), repr(kv), guards))


def found_ourselves(f):
    """the `segment.ptr_offset == next offset` guard of the insertion loops (reachable only after a double free)"""
    if f[0] == "cmp" and f[1] in ("Ne", "Eq"):
        s = show(f)
        return "try_new_segment" in s and "find_position" in s and "ptr_offset" in s
    return False


def summarise(ctx, b, flavour, inline=()):
    """`inline`: names (regex sources) of callees that are evaluated in place although they are units of their own (used to compare a caller together with a
    callee when a test moved from one into the other)"""
    pats = NOINLINE + (r"::alloc_in$", r"::alloc_aligned_bytes_in$", r"Memory::<.*>::clear$", r"get_aligned_pointer_mut$")
    if inline:
        pats = tuple(p_ for p_ in pats if not any(re.search(p_, "::" + nm) or re.search(p_, nm) for nm in inline))
    ev, res = ctx.eval(b, no_inline=pats)
    k = K(res, b, ctx, ev)
    items = Items()
    removed_blocks = set()
    def project(fs, _depth=0):
        """single-thread projection of a fact set -> (canonical guard strings, infeasible).  A CAS whose expected value was just loaded from the
        word it targets cannot fail (retry loops); any other CAS is a conditional store: success <=> word == expected.  Positive comparisons
        with REMOVED do not happen."""
        infeasible = False
        extra = []
        fs2 = []
        for f in fs:
            cas = None
            failed = None
            if f[0] == "discr" and tag(f[1]) == "cas" and f[2][0] == "eq":
                cas, failed = f[1], f[2][1] == 1
            elif f[0] == "discr" and tag(f[1]) == "cas" and f[2] in (("ne", (1,)), ("ne", (0,))):
                cas, failed = f[1], f[2] == ("ne", (0,))       # Result has two variants: `not Err` is Ok (`let Err(x) = cas(..) else { .. }`)
            elif f[0] == "is" and tag(f[2]) == "cas":
                cas, failed = f[2], (f[1] == "is_err") == bool(f[3])
            if cas is not None:
                exp = cas[3]
                retry = (tag(exp) == "load" and exp[2] == cas[2]) or (tag(exp) in ("phi", "payload", "field", "downcast", "payloads"))
                if retry:
                    if failed:
                        infeasible = True
                else:
                    extra.append(("cmp", "Ne" if failed else "Eq", ("mem", k.place(cas[2])), k.t(exp)))
                    extra.append(("cmp", "Ne" if failed else "Eq", k.t(exp), ("mem", k.place(cas[2]))))
                continue
            if f[0] == "cmp" and f[1] == "Eq" and any(tag(x) == "named" and x[1] == "REMOVED_SEGMENT_NODE" for x in (f[2], f[3])):
                infeasible = True
            # values are compared as terms over the integers (wrap-around is C04's concern): checked_add always yields Some, and
            # opt.filter(p) on such a value is Some exactly when p holds
            if f[0] == "discr" and tag(f[1]) == "call" and isinstance(f[1][1], str) and f[1][1].endswith("checked_add"):
                if f[2] in (("eq", 0), ("ne", (1,))):
                    infeasible = True
                continue
            if f[0] == "discr" and tag(f[1]) == "call" and isinstance(f[1][1], str) and f[1][1].endswith("checked_sub"):
                continue    # carried by the comparison it implies (sym.implied_facts): Some <=> b <= a
            if f[0] == "discr" and tag(f[1]) == "vsum" and len(f[1]) > 3 and f[1][3][0] in ("from", "maps", "and"):
                continue    # a test of a value joined from variant constructions / decided by other values: carried by the guards of the constructing edges
                            # (sym._flag_phi_guards) or by the tests of those values (dnf._rewrite_guard, _expand_and_guards)
            if f[0] == "discr" and tag(f[1]) == "tryfrom":
                continue    # Ok <=> the value fits the target type: carried by the two comparisons (Err is expanded into its two cases by dnf.guard_dnf_pairs)
            if f[0] == "discr" and tag(f[1]) == "variant":
                continue    # the discriminant of a literal Some(..) / None says nothing
            if f[0] == "discr" and tag(f[1]) == "phi" and len(f[1]) > 4 and f[1][4] and all(o is not None for o in f[1][4]) and _depth < 2:
                # an Option joined in this frame from literals and checked sums (`(a - b).checked_add(c)?.checked_add(d)` in a helper): on one thread, over the
                # integers, every sum is Some and the edges that bring None behind a failed sum do not exist - the test is decided by the edges that are left
                ph = f[1]
                try:
                    jb_ = int(str(ph[1][-1]).split("@")[-1])
                except ValueError:
                    jb_ = None
                vals = set()
                if jb_ is not None and str(ph[1][-1]).startswith("%s@" % b.name):
                    for alt_, o_ in zip(ph[3], ph[4]):
                        _, inf_ = project(implied_facts(ev.guards_edge(res, o_, jb_)), _depth + 1)
                        if inf_:
                            continue
                        if tag(alt_) == "variant":
                            d_ = ev._variant_discr(alt_[1], alt_[2])
                            if d_ is None:
                                vals = None
                                break
                            vals.add(d_)
                        elif tag(alt_) == "call" and isinstance(alt_[1], str) and alt_[1].endswith("checked_add"):
                            vals.add(1)
                        else:
                            vals = None
                            break
                else:
                    vals = None
                if vals:
                    sat_ = [D._rel_sat(f[2], v_) for v_ in vals]
                    if all(sat_):
                        continue
                    if not any(sat_):
                        infeasible = True
                        continue
            if f[0] == "discr" and tag(f[1]) == "filter":
                opt, pv = f[1][1], f[1][2]
                if f[2] in (("eq", 0), ("ne", (1,))) and tag(opt) == "call" and isinstance(opt[1], str) and opt[1].endswith("checked_add"):
                    fs2.extend(implied_facts([(pv, ("eq", 0))]))
                continue
            fs2.append(f)
        # a branch on a locally joined flag (`matches!`, `a && b`) is represented by the guards of the edges that set it (sym: _flag_phi_guards)
        # (the value reported by a failed CAS is projected to the word's value before the sync-only filter looks at the fact)
        gs = set([repr(kt) for f, kt in ((f, k.t(f)) for f in fs2) if not sync_only_fact(kt) and not found_ourselves(f) and not (f[0] == "bool" and tag(f[1]) == "phi")] + [repr(x) for x in extra])
        return gs, infeasible

    back = set(b.back_edges())
    memo = {}

    def block_guards(bb):
        """canonical guards at the entry of a top-frame block: the dominating ones plus, at a join, those common to every incoming edge one
        thread can take (`a && b` written as two branches, a pre-check load before a CAS, ...)"""
        if bb in memo:
            return memo[bb]
        memo[bb] = (set(), False)   # cycle guard
        gs, inf = project(implied_facts(ev.guards(res, bb)))
        preds = [p for p in b.pred[bb] if (p, bb) not in back and p in b.reachable and not b.blocks[p]["cleanup"]]
        if preds and not inf:
            sets = []
            for p in preds:
                pg, pinf = block_guards(p)
                eg, einf = project(implied_facts(ev.guards_edge(res, p, bb)))
                if pinf or einf:
                    continue
                sets.append(pg | eg)
            if sets:
                gs |= set.intersection(*sets)
            else:
                inf = True
        memo[bb] = (gs, inf)
        return memo[bb]

    def lits(fs):
        """like project(), but the canonical literals themselves"""
        gs, inf = project(fs)
        return gs, inf

    LIT = {}

    def project_lits(fs):
        # project() works on repr strings for the set comparison; the semantic comparison needs the tuples: redo the canonicalisation
        out = set()
        inf = False
        for f in fs:
            g1, i1 = project([f])
            inf = inf or i1
            if not g1:
                continue
            # recover tuples: canonicalise the fact itself (CAS facts were turned into mem comparisons inside project)
            for r in g1:
                if r not in LIT:
                    LIT[r] = eval_lit(r, f)
                out.add(LIT[r])
        return out, inf

    def eval_lit(r, f):
        cas = None
        if f[0] == "discr" and tag(f[1]) == "cas" and f[2][0] == "eq":
            cas, failed = f[1], f[2][1] == 1
        elif f[0] == "discr" and tag(f[1]) == "cas" and f[2] in (("ne", (1,)), ("ne", (0,))):
            cas, failed = f[1], f[2] == ("ne", (0,))
        elif f[0] == "is" and tag(f[2]) == "cas":
            cas, failed = f[2], (f[1] == "is_err") == bool(f[3])
        if cas is not None:
            m_ = ("mem", k.place(cas[2]))
            a, b_ = (m_, k.t(cas[3]))
            cand = [("cmp", "Ne" if failed else "Eq", a, b_), ("cmp", "Ne" if failed else "Eq", b_, a)]
            for c_ in cand:
                if repr(c_) == r:
                    return c_
        if f[0] == "discr" and tag(f[1]) == "filter":
            for g in implied_facts([(f[1][2], ("eq", 0))]):
                if repr(k.t(g)) == r:
                    return k.t(g)
        return k.t(f)

    import dnf as D

    def _edge_lits(pairs):
        return project_lits(implied_facts(pairs))

    dmemo = {}

    def block_dnf(bb):
        """exact path condition of a top-frame block on one thread, as a DNF (list of frozensets of canonical literals); None when it gets too large"""
        return D.block_dnf(ev, res, b, bb, edge_lits=_edge_lits, shared_memo=dmemo)

    def block_dnf_forced(bb, forced):
        """block_dnf restricted to the paths that enter each join block j of `forced` through the edge forced[j] -> j"""
        return D.block_dnf(ev, res, b, bb, edge_lits=_edge_lits, forced=tuple(forced), shared_memo=dmemo)

    own = "%s@" % b.name

    def own_phi(x):
        return tag(x) == "phi" and len(x) > 4 and x[4] and all(o is not None for o in x[4]) and len(x[1]) == 1 and str(x[1][0]).startswith(own)

    def find_first(t, pred):
        hit = []

        def grab(x):
            if not hit and pred(x):
                hit.append(x)
            return None
        term_map(t, grab)
        return hit[0] if hit else None

    def value_cases(raw, bb, forced=(), lits=frozenset(), depth=0):
        """[(value without own-frame joins / ite, exact DNF)] or None"""
        if depth > 8:
            return None
        ph = find_first(raw, own_phi)
        if ph is not None:
            try:
                jb = int(str(ph[1][-1]).split("@")[-1])
            except ValueError:
                return None
            if jb in dict(forced):
                return None
            out = []
            for alt, origin in zip(ph[3], ph[4]):
                v2 = term_map(raw, lambda x, ph=ph, alt=alt: alt if x == ph else None)
                sub_ = value_cases(v2, bb, tuple(sorted(forced + ((jb, origin),))), lits, depth + 1)
                if sub_ is None:
                    return None
                out.extend(sub_)
            return out
        it = find_first(raw, lambda x: tag(x) == "ite")
        if it is not None:
            out = []
            c = as_lin(it[1])
            for val, fact in ((it[2], ("cmp", "Ge", c, const(0))), (it[3], ("cmp", "Lt", c, const(0)))):
                v2 = term_map(raw, lambda x, it=it, val=val: val if x == it else None)
                fl, finf = project_lits([fact])
                if finf:
                    continue
                sub_ = value_cases(v2, bb, forced, lits | frozenset(fl), depth + 1)
                if sub_ is None:
                    return None
                out.extend(sub_)
            return out
        d = block_dnf_forced(bb, forced)
        if d is None:
            return None
        return [(repr(k.t(raw)), [c | lits for c in d])]

    def note_cases(kind_, tgt, raw, e):
        if e["chain"] or raw is None:
            return
        if find_first(raw, own_phi) is None and find_first(raw, lambda x: tag(x) == "ite") is None:
            return
        cs = value_cases(raw, e["bb"])
        key = (kind_, repr(tgt))
        if cs is None:
            items.cases[key] = None
        elif items.cases.get(key, []) is not None:
            items.cases.setdefault(key, []).extend(cs)

    for e in res.log:
        if e["chain"] and e["kind"] not in ("store",) and not (e["kind"] == "call" and (e.get("atomic") or e.get("effect"))):
            continue
        gs, infeasible = project(ctx.facts_of(ev, e))
        top = e
        while top.get("parent") is not None:
            top = top["parent"]
        tg, tinf = block_guards(top["bb"])
        if infeasible or tinf:
            continue
        guards = tuple(sorted(gs | tg))
        # exact condition: the top frame's path condition and, for effects inside inlined callees, the callee frames' own guards
        bd = block_dnf(top["bb"])
        if bd is None:
            items.cur = None
        else:
            all_l, _ = project_lits(ctx.facts_of(ev, e))
            top_l, _ = project_lits(implied_facts(ev.guards(res, top["bb"])))
            inner = frozenset(all_l - top_l) if e is not top else frozenset()
            items.cur = [c | inner for c in bd]
        if e.get("subst") and items.cur is not None:
            # the entry stands for one alternative of a merged dispatch: its exact condition is the one of the paths over that alternative's edge, and
            # speaks about that alternative
            d_ = block_dnf_forced(e["bb"], tuple(sorted(set((jb, origin) for origin, jb in e["extra_edges"]))))
            if d_ is None:
                items.cur = None
            else:
                kf, kt = k.t(e["subst"][0]), k.t(e["subst"][1])
                items.cur = [frozenset(term_map(l, lambda x: kt if x == kf else None) for l in c) for c in d_]
        elif e.get("extra_edges") and items.cur is not None and e is top:
            # the entry stands for the paths over particular edges into a join (one exit of an inlined helper whose result is returned as it is)
            items.cur = block_dnf_forced(e["bb"], tuple(sorted(set((jb, origin) for origin, jb in e["extra_edges"]))))
        items.cur_extra = frozenset()
        kind = e["kind"]
        if kind == "ret0" and not e["chain"]:
            v = e["value"]
            if tag(v) == "variant" and v[2] == "Err":
                inner = v[3][0] if v[3] else None
                nm = inner[2] if tag(inner) == "variant" else ("vsum" if tag(inner) == "vsum" else "?")
                items.add(("ret", "Err", nm, guards))
            elif (tag(v) == "variant-is" and tag(v[1]) == "vsum" and len(v[1]) > 3 and v[1][3][0] == "from" and len(v[1][3][1]) == 1
                  and str(v[1][3][1][-1]).startswith(own) and not e["chain"]):
                # `return helper(..).is_continue()` with the helper's exits inlined: one return per exit, true or false as that exit's variant says
                jb = int(str(v[1][3][1][-1]).split("@")[-1])
                base = items.cur
                for nm, origin in v[1][3][2]:
                    d_ = block_dnf_forced(e["bb"], ((jb, origin),))
                    items.cur = d_
                    items.add(("ret", repr(const(int(nm == v[2]))), guards))
                items.cur = base
            elif own_phi(v) and all(tag(a) in ("cmp", "not", "phi") or is_const(a) for a in v[3]) and not e["chain"]:
                # a boolean joined from several exits (`!empty && helper(..).is_some()` with the helper's exits inlined): one return per truth value, under the
                # exits that bring it and, for an exit that brings a comparison, under its outcome
                base = items.cur
                for val in (1, 0):
                    cur = []
                    for a in D.expand_bool_joins(ev, res, b, D.bool_dnf(ev, res, b, v, bool(val))):
                        lv, linf = project_lits(a)
                        if linf:
                            continue
                        for c in (base or []):
                            cc = c | frozenset(lv)
                            if not conj_unsat(cc):
                                cur.append(cc)
                    items.cur = None if base is None else cur
                    if cur or base is None:
                        items.add(("ret", repr(const(val)), guards))
                items.cur = base
            elif tag(v) in ("cmp", "not") and not e["chain"]:
                # `return a >= b` is `if a >= b { true } else { false }`: one item per truth value, each under the comparison's outcome
                base = items.cur
                for val in (1, 0):
                    fs_v = implied_facts([(v, ("eq", val))])
                    gv, vinf = project(fs_v)
                    lv, _ = project_lits(fs_v)
                    if vinf:
                        continue
                    items.cur = None if base is None else [c | frozenset(lv) for c in base]
                    items.add(("ret", repr(const(val)), tuple(sorted(set(guards) | gv))))
                items.cur = base
            else:
                # `Ok(match kind { A => 0, _ => f() })` is one return per arm: each resulting value under the exact condition of its arm
                items.add(("ret", repr(k.t(v)), guards))
                note_cases("ret", "ret", v, e)
        elif kind == "call" and e.get("atomic") in ("store",):
            emit_write(items, k.place(e["target"]), k.t(e["new"]), guards)
            note_cases("write", k.place(e["target"]), e["new"], e)
        elif kind == "call" and e.get("atomic") in ("compare_exchange", "compare_exchange_weak"):
            nv = e["new"]
            if tag(nv) == "pack" and tag(nv[1]) == "named" and nv[1][1] == "REMOVED_SEGMENT_NODE":
                continue   # the mark is protocol state of the shared flavour; the node leaves the list with the unlink that follows
            exp = e["expected"]
            g2 = guards
            if not ((tag(exp) == "load" and exp[2] == e["target"]) or tag(exp) in ("phi", "payload", "field", "downcast", "payloads")):
                # a conditional store: it happens exactly when the word equals the expected value
                m_ = ("mem", k.place(e["target"]))
                g2 = tuple(sorted(set(guards + (repr(("cmp", "Eq", m_, k.t(exp))), repr(("cmp", "Eq", k.t(exp), m_))))))
                items.cur_extra = frozenset([("cmp", "Eq", m_, k.t(exp)), ("cmp", "Eq", k.t(exp), m_)])
            emit_write(items, k.place(e["target"]), k.t(e["new"]), g2)
        elif kind == "call" and e.get("atomic") in ("fetch_add", "fetch_sub"):
            if "refs" in show(e["target"]):
                items.add(("refs", e["atomic"], repr(k.t(e["operand"])), guards))
            else:
                items.add(("add", repr(k.place(e["target"])), repr(k.t(e["operand"])), guards))
        elif kind == "store" and e.get("how") == "store" and tag(e["base"]) != "param":
            tgt = k.place(("heap", e["base"], e["path"]))
            v = e["value"]
            # x.field += n  ->  add
            emit_write(items, tgt, k.t(v), guards)
            note_cases("write", tgt, v, e)
        elif kind == "call" and e.get("effect") in WRITE_EFFECTS:
            items.add(("raw", e["effect"], repr(k.t(e.get("dst"))), repr(k.t(e.get("count") if e.get("count") is not None else e.get("value"))), guards))
        elif kind == "call" and not e["chain"] and not e.get("inlined") and not e.get("atomic"):
            c = e["callee"]
            if re.search(r"Backoff|tracing|fmt::|panicking|RefCounter>?::|sealed::RefCounter", c):
                if "RefCounter" in c and ("fetch" in c):
                    items.add(("refs", c.split("::")[-1], repr(k.t(e["args"][1])), guards))
                continue
            cb = ctx.facts.body(c)
            if cb is None or cb.file.startswith("/"):
                continue
            name = re.sub(r"\b(un)?sync::", "", c)
            if re.search(r"::(header|header_mut|get_segment_node|remaining|allocated|as_inner_\w+|deref|as_ref|as_mut)$|^(encode|decode)_segment_node$|^align_offset$", name):
                continue
            items.add(("call", name, tuple(repr(k.t(a)) for a in e["args"][1:]), guards))
    return items


def fmt_item(it):
    s = " ".join(str(x) for x in it[:-1])
    g = "; ".join(it[-1])
    return (s[:300] + ("  UNDER {" + g[:300] + "}" if g else ""))


def compare(ss, su):
    """-> (ok, how, only_s, only_u)"""
    only_s, only_u = sorted(ss - su, key=repr), sorted(su - ss, key=repr)
    ok = not only_s and not only_u
    how = ""
    if not ok:
        # the same effects under conditions that are spelled or structured differently (merged arms, an extra pre-check): compare the exact path
        # conditions of every differing effect as formulas - each disjunct of one side must imply the disjunction of the other side
        sigs = set(it[:-1] for it in only_s) | set(it[:-1] for it in only_u)
        sem = True
        # a write whose value is a join (`let x = match .. { .. }; store(x)`) or an if-then-else term (`map_or`) is one write per case: compare, per
        # resulting value, the exact conditions under which that value is written
        done = set()
        for sig in sorted(sigs, key=repr):
            if sig[0] != "write":
                continue
            wkey = ("write", sig[1])
            if wkey in done:
                continue
            ca, cb = ss.cases.get(wkey), su.cases.get(wkey)
            if ca is None and cb is None:
                continue
            def table(cs, side, key=wkey):
                # the side without joins: its plain items for this target
                if cs is None:
                    cs = [(it[2], side.exact.get(it[:-1]) or []) for it in side if it[0] == "write" and it[1] == key[1]]
                t_ = {}
                for v, d in cs:
                    t_.setdefault(v, []).extend(d)
                return {v: dnf_simplify(d) for v, d in t_.items()}
            ta, tb = table(ca, ss), table(cb, su)
            ta = {v: d for v, d in ta.items() if d}
            tb = {v: d for v, d in tb.items() if d}
            if set(ta) == set(tb) and all(dnf_implies(ta[v], tb[v]) and dnf_implies(tb[v], ta[v]) for v in ta):
                done.add(wkey)
        sigs = set(sg for sg in sigs if not (sg[0] == "write" and ("write", sg[1]) in done))
        # likewise a returned value that is a join: one return per resulting value
        rkey = ("ret", repr("ret"))
        if any(sg[0] == "ret" and len(sg) == 2 for sg in sigs) and (ss.cases.get(rkey) or su.cases.get(rkey)):
            def rtable(side):
                t_ = {}
                for v, d in side.cases.get(rkey) or []:
                    t_.setdefault(v, []).extend(d)
                for it in side:
                    if it[0] == "ret" and len(it) == 3 and "kphi" not in it[1]:
                        t_.setdefault(it[1], []).extend(side.exact.get(it[:-1]) or [])
                return {v: dnf_simplify(d) for v, d in t_.items() if d}
            if ss.cases.get(rkey, []) is not None and su.cases.get(rkey, []) is not None:
                ta, tb = rtable(ss), rtable(su)
                if ta and set(ta) == set(tb) and all(dnf_implies(ta[v], tb[v]) and dnf_implies(tb[v], ta[v]) for v in ta):
                    sigs = set(sg for sg in sigs if not (sg[0] == "ret" and len(sg) == 2))
        for sig in sigs:
            A, B = ss.exact.get(sig), su.exact.get(sig)
            if not A or not B:
                sem = False
                break
            A, B = dnf_simplify(A), dnf_simplify(B)
            if not (dnf_implies(A, B) and dnf_implies(B, A)):
                sem = False
                break
        if sem:
            ok = True
            how = " (%d effect(s) under differently structured but equivalent conditions)" % len(sigs)
    return ok, how, only_s, only_u


@rule("C11-SIB", "C11", 30, "paired functions of sync::Arena and unsync::Arena have equal guarded-effect summaries under the single-thread projection of sync (differences only by exact tolerated key)")
def sib(ctx):
    results = []
    for key, ps, pu in PAIRS:
        bs, bu = ctx.facts.find(ps), ctx.facts.find(pu)
        if len(bs) != 1 or len(bu) != 1:
            if key in ("Allocator::refs",) or not ctx.memmap:
                continue
            from facts import AnchorError
            raise AnchorError("C11 pair %s not found (%d sync, %d unsync bodies): a one-sided rename needs the PAIRS table updated" % (key, len(bs), len(bu)))
        ss, su = summarise(ctx, bs[0], "sync"), summarise(ctx, bu[0], "unsync")
        ok, how, only_s, only_u = compare(ss, su)
        results.append([key, ok, how, only_s, only_u, bs[0], bu[0], len(ss)])
    # a test that moved between a function and its only caller (`if kind == None { return 0 }` into the callee) changes both summaries one-sidedly:
    # compare the caller with the callee evaluated in place, on both sides
    by_key = {r[0]: r for r in results}
    for r in results:
        if r[1]:
            continue
        callee_s, callee_u = r[5], r[6]
        for c in results:
            if c is r:
                continue
            cs_, cu_ = c[5], c[6]
            calls_s = [t for _, t in cs_.calls() if (t.get("resolved") or t.get("callee")) == callee_s.path]
            calls_u = [t for _, t in cu_.calls() if (t.get("resolved") or t.get("callee")) == callee_u.path]
            if not calls_s or not calls_u:
                continue
            others = [b_ for b_ in ctx.facts.own if b_ is not cs_ and b_ is not cu_ and any((t.get("resolved") or t.get("callee")) in (callee_s.path, callee_u.path) for _, t in b_.calls())]
            if others:
                continue
            nm = callee_s.path.split("::")[-1]
            ok2, how2, _, _ = compare(summarise(ctx, cs_, "sync", inline=(nm,)), summarise(ctx, cu_, "unsync", inline=(nm,)))
            if ok2:
                r[1], r[2] = True, " (agrees when read together with its only caller %s)" % cs_.name
                if not c[1]:
                    c[1], c[2] = True, " (agrees when read together with its callee %s)" % nm
            break
    for key, ok, how, only_s, only_u, b0, _, n_items in results:
        yield Ob(key_of("C11-SIB", key, "summary"), ok,
                 ("%d items each%s" % (n_items, how)) if ok else "summaries differ: only in sync: %s | only in unsync: %s" % ([fmt_item(i) for i in only_s[:3]], [fmt_item(i) for i in only_u[:3]]),
                 b0.loc(), {"only_sync": [fmt_item(i) for i in only_s[:6]], "only_unsync": [fmt_item(i) for i in only_u[:6]], "items": n_items})
