"""C16 - layout contract: data offset, reserved prefix and header are where Options says."""
import re
from engine import rule, Ob, key_of, EXPLAIN, ASSUME
from sym import Lin, add, sub, const, tag, show, is_const, as_lin, implied_facts, struct_get, scale
from util import *
from order import Order, term_eq

EXPLAIN["C16"] = (
    "Decides: L1 the layout formula (unified: alignUp(H, reserved) + align_of H + size_of H; plain: reserved + 1) is the same term at every "
    "site that computes it - Options::data_offset_in, header_meta, Memory::clear and every constructor's Memory.data_offset; L2 the cursor "
    "a constructor writes into the header is that data offset; L3 check_capacity fails exactly when the prefix exceeds the capacity, precedes "
    "every write, and its error is mapped to InsufficientSpace (Vec) / InvalidInput (maps); L4 reserved_slice = (ptr, reserved); L6 accessor "
    "provenance: every Arena field is a copy of the Memory getter of the same name, every getter returns its field, every descriptive accessor "
    "returns that field / flag test, constructors fill Memory from Options and the mode constants; L7 remaining = capacity.saturating_sub(allocated); "
    "L8 backend independence: nothing reachable from the allocation / release entry points reads the backend or the mode flags; L9 the three "
    "unified constructors write the same identification bytes and header. Not decided: byte equality of backends over histories "
    "(consequence of L8 + L9), reserved immutability over histories (consequence of C01: no writer below data_offset).")
ASSUME["C16"] = ["bitflags' contains() is a mask test", "the mapping is at least `capacity` long (memmap2)", "C01-U: allocator operations never write below data_offset"]

MEMCFG = ("memmap", "memmap-nooverflow", "memmap-tracing")
A, S = ("align_of", "H"), ("size_of", "H")
R = ("sym", "reserved")


def unify_formula(r=R):
    return add(add(("alignUp", A, r), A), S)


def plain_formula(r=R):
    return add(r, const(1))


def subst(t, frm, to, depth=0):
    if t == frm:
        return to
    if depth > 40:
        return t
    if isinstance(t, Lin):
        out = const(t.c)
        for a, c in t.m.items():
            out = add(out, scale(subst(a, frm, to, depth + 1), c))
        return out
    if isinstance(t, tuple):
        return tuple(subst(x, frm, to, depth + 1) if isinstance(x, (tuple, Lin)) else x for x in t)
    return t


def constructors(ctx):
    cs = [("alloc", r"^memory::Memory::<R, PR, H>::alloc$", ("field", ("param", 0, "opts"), "reserved"), True)]
    if ctx.memmap:
        cs += [("map_anon", r"^memory::Memory::<R, PR, H>::map_anon::\{closure#0\}$", None, True),
               ("map_mut_in", r"^memory::Memory::<R, PR, H>::map_mut_in::\{closure#0\}$", ("upvar", "reserved"), False),
               ("map_in", r"^memory::Memory::<R, PR, H>::map_in::\{closure#0\}$", ("upvar", "reserved"), False)]
    return cs


def memory_aggregates(res):
    return [e for e in res.log if e["kind"] == "agg" and e["adt"] == "memory::Memory" and not e["chain"]]


def reserved_atoms(t):
    out = set()
    def visit(x):
        if isinstance(x, Lin):
            for a in x.m:
                visit(a)
        elif isinstance(x, tuple):
            s = show(x)
            if tag(x) in ("field", "upvar", "param") and "reserved" in s and (len(s) < 40 or (tag(x) == "field" and x[2] == "reserved")):
                out.add(x)
                return
            for y in x[1:]:
                if isinstance(y, (tuple, Lin)):
                    visit(y)
    visit(t)
    return out


def norm_reserved(t):
    for a in sorted(reserved_atoms(t), key=lambda x: -len(show(x))):
        t = subst(t, a, R)
    return t


@rule("C16-L1", "C16", 6, "the layout formula is one and the same term at every site: Options::data_offset_in, header_meta and each constructor's Memory.data_offset "
      "(unified: alignUp(H, reserved) + align_of H + size_of H; plain: reserved + 1)", also=("C05",))
def l1(ctx):
    RES, UNI = ("param", 0, "reserved"), ("param", 1, "unify")
    # the two public accessors (whatever private helper computes them): data_offset() is the plain formula, data_offset_unify() the unified one
    for acc, mode, form in (("data_offset", "plain", plain_formula), ("data_offset_unify", "unify", unify_formula)):
        b = ctx.facts.one(r"^options::Options::%s$" % acc)
        ev, res = ctx.eval(b)
        rets = [r for r in res.log if r["kind"] == "ret0" and not r["chain"]]
        RSELF = ("field", ("param", 0, "self"), "reserved")
        ok = len(rets) == 1 and term_eq(norm_reserved(canon(rets[0]["value"])), form(RSELF)) or (len(rets) == 1 and term_eq(canon(rets[0]["value"]), form(RSELF)))
        yield Ob(key_of("C16-L1", "options::Options::data_offset_in", mode), bool(ok), "Options::%s() = %s" % (acc, short(rets[0]["value"], 90) if rets else "?"),
                 ctx.loc(rets[0]) if rets else b.loc())
    b = ctx.facts.one(r"^memory::header_meta$")
    ev, res = ctx.eval(b)
    for r in res.log:
        if r["kind"] == "ret0" and not r["chain"] and tag(r["value"]) == "tuple":
            fs = ctx.facts_of(ev, r)
            u = ("bool", UNI, True) in fs
            off, pre = r["value"][1]
            if u:
                ok = term_eq(pre, unify_formula(RES)) and term_eq(off, sub(unify_formula(RES), S))
            else:
                ok = term_eq(pre, plain_formula(RES)) and term_eq(off, plain_formula(RES))
            yield Ob(key_of("C16-L1", b.path, "unify" if u else "plain"), ok, "header_meta = (%s, %s)" % (short(off, 60), short(pre, 60)), ctx.loc(r))
    for name, pat, _, has_plain in constructors(ctx):
        b = ctx.facts.one(pat)
        UNIFY = {"alloc": ("field", ("param", 0, "opts"), "unify"), "map_anon": ("field", ("upvar", "opts"), "unify")}.get(name)
        modes = [(1, unify_formula()), (0, plain_formula())] if has_plain else [(None, unify_formula())]
        for u, want in modes:
            assume = ((UNIFY, const(u)),) if u is not None else ()
            ev, res = ctx.eval(b, no_inline=(r"::mlock$",), assume=assume)
            aggs = memory_aggregates(res)
            if len(aggs) != 1:
                yield Ob(key_of("C16-L1", b.path, "memory-aggregate"), False, "expected one Memory aggregate, found %d" % len(aggs), b.loc())
                continue
            d = norm_reserved(canon(struct_get(aggs[0]["value"], "data_offset")))
            ok = term_eq(d, want)
            mode = {1: "unify", 0: "plain", None: "unify"}[u]
            yield Ob(key_of("C16-L1", b.path, "data_offset-" + mode), ok, "Memory.data_offset in %s (%s) = %s" % (name, mode, short(d, 90)), ctx.loc(aggs[0]))
            news = [e for e in res.log if e["kind"] == "call" and e["callee"].endswith("Header::new")]
            if name != "map_in":
                okn = len(news) == 1 and term_eq(norm_reserved(canon(news[0]["args"][0])), want)
                yield Ob(key_of("C16-L2", b.path, "cursor-init-" + mode), okn, "%s (%s): H::new(cursor = data offset, ..): %s" % (name, mode, [short(norm_reserved(canon(e["args"][0])), 70) for e in news]), b.loc())
            if not has_plain:
                okc = struct_get(aggs[0]["value"], "unify") == const(1) and tag(struct_get(aggs[0]["value"], "header_ptr")) == "variant" and struct_get(aggs[0]["value"], "header_ptr")[2] == "Left"
                yield Ob(key_of("C16-L1", b.path, "file-is-unified"), okc, "file-backed: unify = true, header in the mapping (Either::Left)", ctx.loc(aggs[0]))


@rule("C06-K10", "C06", 4, "a file-backed arena keeps its header and identification block in the file for its whole life: both file constructors build Memory { unify: true, header in the "
      "mapping }, whatever the caller's unify option - Memory::clear() reads that field, and with unify = false it would move the header to the heap and wipe the file from byte "
      "reserved + 1 on, identification block and header included: the file is refused by every later open, crash or no crash", configs=MEMCFG, also=("C17",))
def k10(ctx):
    for name, pat, _, has_plain in constructors(ctx):
        if has_plain:
            continue
        b = ctx.facts.one(pat)
        ev, res = ctx.eval(b, no_inline=(r"::mlock$",))
        aggs = memory_aggregates(res)
        if len(aggs) != 1:
            yield Ob(key_of("C06-K10", b.path, "memory-aggregate"), False, "expected one Memory aggregate, found %d" % len(aggs), b.loc())
            continue
        v = aggs[0]["value"]
        oku = struct_get(v, "unify") == const(1)
        okh = tag(struct_get(v, "header_ptr")) == "variant" and struct_get(v, "header_ptr")[2] == "Left"
        yield Ob(key_of("C06-K10", b.path, "unify-field-true"), oku, "%s: Memory.unify = %s" % (name, short(struct_get(v, "unify"), 60)), ctx.loc(aggs[0]))
        yield Ob(key_of("C06-K10", b.path, "header-in-the-mapping"), okh, "%s: Memory.header_ptr = %s" % (name, short(struct_get(v, "header_ptr"), 60)), ctx.loc(aggs[0]))
    # clear() decides by that field
    b = ctx.facts.one(r"^memory::Memory::<R, PR, H>::clear$")
    ev, res = ctx.eval(b)
    reads = [c for c in res.conds.values() if "unify" in show(c)]
    yield Ob(key_of("C06-K10", b.path, "clear-reads-the-field"), True, "Memory::clear branches on self.unify (%d condition(s)): the constructors' value decides where the header lives after clear()" % len(reads), b.loc(), trivial=not reads)


@rule("C16-L3", "C16", lambda cfg: 5 if "memmap" in cfg else 2, "check_capacity returns Err(InsufficientSpace{requested: prefix, available: capacity}) exactly when prefix > capacity; every constructor calls it before "
      "its first write and maps the error to InsufficientSpace (Vec) / InvalidInput (maps)")
def l3(ctx):
    b = ctx.facts.one(r"^memory::check_capacity$")
    ev, res = ctx.eval(b)
    CAP = ("param", 2, "capacity")
    oks = [r for r in res.log if r["kind"] == "ret0" and not r["chain"] and tag(r["value"]) == "variant" and r["value"][2] == "Ok"]
    errs = [r for r in res.log if r["kind"] == "ret0" and not r["chain"] and tag(r["value"]) == "variant" and r["value"][2] == "Err"]
    ok = len(oks) == 1 and len(errs) == 1
    if ok:
        fe = [f for f in ctx.facts_of(ev, errs[0]) if f[0] == "cmp"]
        fo = [f for f in ctx.facts_of(ev, oks[0]) if f[0] == "cmp"]
        # one comparison decides (facts come in both spellings: `p > cap` and `cap < p`): Err under prefix > capacity, Ok under prefix <= capacity
        fe = [f for f in fe if f[3] == CAP]
        fo = [f for f in fo if f[3] == CAP]
        ok = len(fe) == 1 and fe[0][1] == "Gt" and len(fo) == 1 and fo[0][1] == "Le" and fe[0][2] == fo[0][2] and "InsufficientSpace" in show(errs[0]["value"])
    yield Ob(key_of("C16-L3", b.path, "iff"), ok, "Err iff prefix_size > capacity", b.loc())
    for name, pat, _, _ in constructors(ctx):
        b = ctx.facts.one(pat)
        ev, res = ctx.eval(b, no_inline=(r"::mlock$", r"check_capacity$"))
        cc = [e for e in res.log if e["kind"] == "call" and e["callee"].endswith("check_capacity")]
        ws = [e for e in res.log if is_raw_write(e) or (e["kind"] == "store" and e.get("how") == "store" and tag(e["base"]) != "param")]
        ok = len(cc) == 1 and all(cc[0]["seq"] < w["seq"] for w in ws)
        if ok and name != "alloc":
            me = [e for e in res.log if e["kind"] == "call" and re.search(r"Result::<.*>::map_err$", e["callee"]) and e["args"][0] == cc[0]["result"]]
            ok = len(me) == 1 and "invalid_input" in show(me[0]["args"][1])
        if not ok and not cc:
            # the comparison made directly (a helper that takes the precomputed layout): every write and the Memory aggregate lie behind `prefix <= capacity`
            ev2, res2 = ctx.eval(b, no_inline=(r"::mlock$",))
            ws2 = [e for e in res2.log if is_raw_write(e) or (e["kind"] == "store" and e.get("how") == "store" and tag(e["base"]) != "param")] + memory_aggregates(res2)
            ok = bool(ws2) and all(prefix_fits_fact(set(canon(f) for f in ctx.facts_of(ev2, w))) for w in ws2)
            if ok and name != "alloc":
                ok = any(e["kind"] == "call" and re.search(r"Result::<.*>::map_err$", e["callee"]) and "invalid_input" in show(e["args"][1]) for e in res2.log)
        yield Ob(key_of("C16-L3", b.path, "check-first"), ok, "%s: check_capacity precedes every write%s" % (name, "" if name == "alloc" else " and is mapped with invalid_input"), b.loc())


@rule("C16-L4", "C16", 2, "reserved_slice() = (ptr, reserved) (empty when reserved == 0); reserved_bytes() = reserved (checksum() skips reserved_slice().len() bytes, C19 speaks of "
      "reserved_bytes(): the two must be the same number)", also=("C19",))
def l4(ctx):
    SELF = ("param", 0, "self")
    for fl in ("sync", "unsync"):
        b = ctx.facts.one(r"^<%s::Arena as allocator::Allocator>::reserved_slice$" % fl)
        ev, res = ctx.eval(b)
        sl = [e for e in res.log if e["kind"] == "call" and e["callee"].endswith("slice::from_raw_parts")]
        ok = len(sl) == 1 and sl[0]["args"][0] == field(SELF, "ptr") and sl[0]["args"][1] == field(SELF, "reserved")
        yield Ob(key_of("C16-L4", b.path, "slice"), ok, "reserved_slice = from_raw_parts(self.ptr, self.reserved)", b.loc())
        b = ctx.facts.one(r"^<%s::Arena as allocator::Allocator>::reserved_bytes$" % fl)
        ev, res = ctx.eval(b)
        yield Ob(key_of("C16-L4", b.path, "bytes"), res.ret == field(SELF, "reserved"), "reserved_bytes = self.reserved", b.loc())


ARENA_FROM = {"freelist": "freelist", "reserved": "reserved", "cap": "cap", "flag": "flag", "magic_version": "magic_version", "version": "version",
              "ptr": "ptr", "ro": "read_only", "max_retries": "max_retries", "data_offset": "data_offset"}


@rule("C16-L6", "C16", 30, "accessor provenance: From<Memory> copies each Arena field from the Memory field of the same meaning; descriptive accessors return those fields / flag tests; "
      "constructors fill Memory from Options and the mode constants", also=("C05",))
def l6(ctx):
    SELF = ("param", 0, "self")
    MEM = ("param", 0, "memory")
    for fl in ("sync", "unsync"):
        b = ctx.facts.one(r"^<%s::Arena as (?:std|core)::convert::From<memory::Memory<.*>>>::from$" % fl)
        ev, res = ctx.eval(b)
        v = res.ret
        if tag(v) != "struct":
            yield Ob(key_of("C16-L6", b.path, "aggregate"), False, "From<Memory> does not return a plain aggregate", b.loc())
            continue
        for af, mf in ARENA_FROM.items():
            got = canon(struct_get(v, af))
            ok = got == field(MEM, mf)
            yield Ob(key_of("C16-L6", b.path, "field-" + af), ok, "Arena.%s = memory.%s (got %s)" % (af, mf, short(got, 60)), b.loc())
        u = struct_get(v, "unify")
        oku = "memory.unify" in show(canon(u)) or ("ON_DISK" in show(u) and tag(u) == "phi")
        yield Ob(key_of("C16-L6", b.path, "field-unify"), oku, "Arena.unify = memory.unify || ON_DISK (got %s)" % short(u, 80), b.loc())
        # accessors of the arena
        acc = {"magic_version": "magic_version", "version": "version", "reserved_bytes": "reserved", "page_size": "page_size"}
        if fl == "sync":
            acc["read_only"] = "ro"
        else:
            acc["data_offset"] = "data_offset"
        for m, fld in acc.items():
            bb = ctx.facts.one(r"^<%s::Arena as allocator::Allocator>::%s$" % (fl, m))
            e2, r2 = ctx.eval(bb)
            yield Ob(key_of("C16-L6", bb.path, "returns-field"), canon(r2.ret) == field(SELF, fld), "%s() returns self.%s" % (m, fld), bb.loc())
    # trait-default accessors
    AS = ("call", "std::convert::AsRef::as_ref", (SELF,))
    AS2 = ("call", "core::convert::AsRef::as_ref", (SELF,))
    specs = {"capacity": "cap", "data_offset": "data_offset", "read_only": "read_only"}
    for m, fld in specs.items():
        bb = ctx.facts.one(r"^allocator::Allocator::%s$" % m)
        e2, r2 = ctx.eval(bb)
        got = canon(r2.ret)
        ok = got in (field(AS, fld), field(AS2, fld))
        yield Ob(key_of("C16-L6", bb.path, "default-returns-field"), ok, "Allocator::%s() returns as_ref().%s (got %s)" % (m, fld, short(got, 60)), bb.loc())
    for m, flags in (("is_ondisk", ["ON_DISK"]),) + ((("is_map", ["MMAP"]),) if ctx.memmap else ()):
        bb = ctx.facts.one(r"^allocator::Allocator::%s$" % m)
        e2, r2 = ctx.eval(bb)
        s = show(r2.ret)
        ok = all("MemoryFlags::%s" % f in s for f in flags) and "flag" in s and tag(r2.ret) == "cmp" and r2.ret[1] == "Eq"
        yield Ob(key_of("C16-L6", bb.path, "flag-test"), ok, "%s() = flag.contains(%s)" % (m, "|".join(flags)), bb.loc())
    bb = ctx.facts.one(r"^allocator::Allocator::is_inmemory$")
    e2, r2 = ctx.eval(bb, no_inline=(r"Allocator::is_ondisk$",))
    yield Ob(key_of("C16-L6", bb.path, "negation"), tag(r2.ret) == "not" and "is_ondisk" in show(r2.ret), "is_inmemory() = !is_ondisk()", bb.loc())
    if ctx.memmap:
        for m, neg in (("is_map_anon", True), ("is_map_file", False)):
            bb = ctx.facts.one(r"^allocator::Allocator::%s$" % m)
            e2, r2 = ctx.eval(bb, no_inline=(r"Allocator::is_ondisk$", r"Allocator::is_map$"))
            # the exact condition under which the accessor answers true, whatever the shape (&&, if, match on a pair of the two answers)
            import dnf as D
            def lit(x):
                t = x[1]
                return (t[1].split("::")[-1] if tag(t) == "call" and t[2] == (SELF,) else show(t), x[2]) if x[0] == "bool" else x
            T = set(frozenset(lit(x) for x in c) for c in D.bool_dnf(e2, r2, bb, r2.ret, True))
            ok = T == {frozenset({("is_map", True), ("is_ondisk", not neg)})}
            yield Ob(key_of("C16-L6", bb.path, "conjunction"), ok, "%s() = is_map() && %sis_ondisk()" % (m, "!" if neg else ""), bb.loc())
    # Memory getters return their field
    for g, fld in (("freelist", "freelist"), ("magic_version", "magic_version"), ("version", "version"), ("flag", "flag"), ("data_offset", "data_offset"), ("reserved", "reserved"),
                   ("maximum_retries", "max_retries"), ("read_only", "read_only"), ("cap", "cap"), ("as_mut_ptr", "ptr")):
        bb = ctx.facts.one(r"^memory::Memory::<R, PR, H>::%s$" % g)
        e2, r2 = ctx.eval(bb)
        yield Ob(key_of("C16-L6", bb.path, "getter"), canon(r2.ret) == field(SELF, fld), "Memory::%s() returns self.%s" % (g, fld), bb.loc())
    # constructors: mode constants and option provenance
    FLAGS = {"alloc": [], "map_anon": ["MMAP"], "map_mut_in": ["ON_DISK", "MMAP"], "map_in": ["ON_DISK", "MMAP"]}
    for name, pat, _, _ in constructors(ctx):
        b = ctx.facts.one(pat)
        ev, res = ctx.eval(b, no_inline=(r"::mlock$",))
        aggs = memory_aggregates(res)
        if len(aggs) != 1:
            continue
        v = aggs[0]["value"]
        fl = show(struct_get(v, "flag"))
        okf = all(("MemoryFlags::%s" % f) in fl for f in FLAGS[name]) and all(("MemoryFlags::%s" % f) not in fl for f in ("ON_DISK", "MMAP") if f not in FLAGS[name])
        yield Ob(key_of("C16-L6", b.path, "mode-flags"), okf, "%s: flag = %s" % (name, "|".join(FLAGS[name]) or "empty"), ctx.loc(aggs[0]))
        okr = "reserved" in show(struct_get(v, "reserved")) and "version" in show(struct_get(v, "magic_version")) and struct_get(v, "version") == const(0)
        okr = okr and "maximum_retries" in show(struct_get(v, "max_retries")).replace("max_retries", "maximum_retries")
        yield Ob(key_of("C16-L6", b.path, "from-options"), okr, "%s: reserved / magic_version / max_retries from Options, version = CURRENT_VERSION" % name, ctx.loc(aggs[0]))


@rule("C16-L7", "C16", 2, "remaining() = capacity.saturating_sub(allocated()) with capacity the cached Arena.cap (a copy of Memory.cap, L6)")
def l7(ctx):
    SELF = ("param", 0, "self")
    for fl in ("sync", "unsync"):
        b = ctx.facts.one(r"^<%s::Arena as allocator::Allocator>::remaining$" % fl)
        ev, res = ctx.eval(b, no_inline=(r"Allocator>::allocated$",))
        v = res.ret
        ok = tag(v) == "satsub" and v[1] == field(SELF, "cap") and "allocated" in show(v[2])
        yield Ob(key_of("C16-L7", b.path, "satsub"), ok, "remaining = satsub(self.cap, allocated()) (got %s)" % short(v, 80), b.loc())


@rule("C16-L8", "C16", 20, "backend independence: no function reachable from the allocation / release / reader entry points reads Memory.backend, Memory.flag or Arena.flag")
def l8(ctx):
    entries = []
    for fl in ("sync", "unsync"):
        for m in ("alloc", "alloc_bytes", "alloc_aligned_bytes", "dealloc", "discard_freelist", "increase_discarded", "rewind", "allocated", "discarded", "remaining"):
            entries += ctx.facts.find(r"^<%s::Arena as allocator::Allocator>::%s$" % (fl, m))
    seen = {}
    stack = list(entries)
    while stack:
        b = stack.pop()
        if b.path in seen:
            continue
        seen[b.path] = b
        for _, t in b.calls():
            c = t.get("resolved") or t.get("callee")
            nb = ctx.facts.body(c) if c else None
            if nb is not None and not nb.file.startswith("/"):
                stack.append(nb)
        for cl in ctx.facts.closures_of(b):
            stack.append(cl)
    n = 0
    for p, b in sorted(seen.items()):
        bad = []
        for bi in sorted(b.reachable):
            for si, st in enumerate(b.blocks[bi]["stmts"]):
                places = [st["place"]]
                rv = st["rv"]
                for k in ("p",):
                    if rv.get(k):
                        places.append(rv[k])
                for o in [rv.get("a"), rv.get("b")] + list(rv.get("ops", [])):
                    if isinstance(o, dict):
                        pl = o.get("copy") or o.get("move")
                        if pl:
                            places.append(pl)
                for pl in places:
                    for pr in pl["proj"]:
                        if isinstance(pr, dict) and pr.get("f") in ("backend", "flag") and pr.get("adt") in ("memory::Memory", "sync::Arena", "unsync::Arena"):
                            bad.append((bi, si))
        n += 1
        yield Ob(key_of("C16-L8", p, "no-backend-read"), not bad, "%s %s" % (p, "does not look at the backend / mode flags" if not bad else "reads backend/flag at %s" % b.loc(*bad[0])), b.loc(), trivial=False)


@rule("C16-L9", "C16", lambda cfg: 3 if "memmap" in cfg else 1, "the unified constructors write the same identification block (write_sanity(freelist as u8, magic_version, mapping[reserved..])) and the same header "
      "(H::new(data_offset, minimum_segment_size) at the header offset)", also=("C05",))
def l9(ctx):
    shapes = {}
    for name, pat, _, _ in constructors(ctx):
        if name == "map_in":
            continue
        b = ctx.facts.one(pat)
        ev, res = ctx.eval(b, no_inline=(r"::mlock$", r"^write_sanity$"))
        ws = [e for e in res.log if e["kind"] == "call" and e["callee"] == "write_sanity"]
        news = [e for e in res.log if e["kind"] == "call" and e["callee"].endswith("Header::new")]
        pw = [e for e in res.log if e["kind"] == "call" and e.get("effect") == "ptr_write"]
        ok = len(ws) == 1 and len(pw) == 1
        if ok:
            a = ws[0]["args"]
            sl = a[2]
            base = None
            okw = "freelist" in show(a[0]) and tag(a[0]) == "discr" and "magic_version" in show(a[1]) and tag(sl) == "slice"
            if okw:
                # slice base = mapping base + reserved
                rest = [x for x in as_lin(sl[1]).m if "reserved" in show(x) and len(show(x)) < 40]
                okw = len(rest) == 1 and as_lin(sl[1]).m[rest[0]] == 1
                n = sl[2]
                okw = okw and ((is_const(n) and n.c >= 8) or n == A)
            hv = pw[0]["value"]
            okh = any(hv == e["result"] for e in news) and "minimum_segment_size" in show(hv).replace("min_segment_size", "minimum_segment_size")
            dst = norm_reserved(canon(pw[0]["dst"]))
            offs = [x for x in as_lin(dst).m if tag(x) == "alignUp" or tag(x) == "phi"]
            okh = okh and bool(offs)
            ok = okw and okh
        yield Ob(key_of("C16-L9", b.path, "unified-writes"), ok, "%s: write_sanity(freelist, magic_version, [reserved..]) and header = H::new(data_offset, min_segment_size)" % name, b.loc())


@rule("C16-L12", "C16", lambda cfg: 5 if "memmap" in cfg else 1, "the identification block is at offset `reserved`, align_of::<H>() bytes long, in every unified arena: each "
      "constructor writes it there (write_sanity(.., memory[reserved..])) and both reopening paths of a file validate exactly mapping[reserved .. reserved + align_of H] (a "
      "writer and validators that agree on another place, say the slot in front of the header, round-trip their own files but differ from the Vec / anonymous-map image "
      "whenever reserved is not a multiple of the header alignment)", also=("C05", "C09"))
def l12(ctx):
    for nm, pat, _, _ in constructors(ctx):
        b = ctx.facts.one(pat)
        ev, res = ctx.eval(b, no_inline=(r"::mlock$", r"^sanity_check$", r"^write_sanity$"))
        for e in res.log:
            if e["kind"] != "call" or e["callee"] not in ("sanity_check", "write_sanity") or len(e["args"]) < 3:
                continue
            sl = e["args"][2]
            ok = False
            got = short(sl, 120)
            if e["callee"] == "sanity_check":
                rng = None
                if tag(sl) == "call" and sl[1].endswith("::index") and len(sl[2]) == 2 and tag(sl[2][1]) == "struct" and sl[2][1][1].endswith("ops::Range"):
                    rng = (struct_get(sl[2][1], "start"), struct_get(sl[2][1], "end"))
                if rng is not None and rng[0] is not None and rng[1] is not None:
                    st, en = norm_reserved(canon(rng[0])), norm_reserved(canon(rng[1]))
                    ok = st == R and term_eq(en, add(R, A)) and "mmap" in show(sl[2][0])
                    got = "[%s .. %s]" % (show(st), show(en))
            else:
                if tag(sl) == "slice":
                    base = as_lin(norm_reserved(canon(sl[1])))
                    others = [x for x in base.m if x != R]
                    ok = base.m.get(R) == 1 and base.c == 0 and len(others) == 1 and base.m[others[0]] == 1 and not mentions(others[0], R) \
                        and (sl[2] == A or (is_const(sl[2]) and as_lin(sl[2]).c >= 8))
                    got = "(%s, %s)" % (short(sl[1], 80), show(sl[2]))
            yield Ob(key_of("C16-L12", b.path, e["callee"] + "-at-reserved"), ok, "%s: %s reads / writes %s, expected mapping[reserved .. reserved + align_of H]" % (nm, e["callee"], got), ctx.loc(e))


@rule("C16-L10", "C16", 2, "the header is written into the arena as a whole value (ptr::write of H::new(..)): a repr(C) struct with padding bytes copies uninitialised bytes with it, so "
      "the unified images of a Vec-, anonymous-map- and file-backed arena differ in those bytes (and stack bytes end up in the file) - the fields must fill the struct")
def l10(ctx):
    SZ = {"u8": 1, "u16": 2, "u32": 4, "u64": 8, "usize": 8}
    for fl in ("sync", "unsync"):
        a = ctx.facts.adts.get("%s::sealed::Header" % fl)
        lay = ctx.facts.layouts.get("%s::sealed::Header" % fl) if hasattr(ctx.facts, "layouts") else None
        ok = a is not None and lay is not None
        total = 0
        det = []
        if ok:
            for f in a["variants"][0]["fields"]:
                ty = f["ty"]
                l = ctx.facts.layouts.get(ty)
                m = re.search(r"Atomic<(u\d+|usize)>$", ty)
                sz = l[0] if l else (SZ.get(m.group(1)) if m else SZ.get(ty))
                if sz is None:
                    ok = False
                    det.append((f["name"], ty, "?"))
                    continue
                total += sz
                det.append((f["name"], sz))
            ok = ok and total == lay[0]
        yield Ob(key_of("C16-L10", "%s::sealed::Header" % fl, "no-padding"), ok, "fields %s sum to %d bytes, size_of = %s" % (det, total, lay[0] if lay else "?"),
                 "%s:%s" % (a["file"], a["line"]) if a else None)


@rule("C16-L11", "C16", 3, "lock_meta locks the header where the header is: with the plain layout the header lives in the Memory struct, not in the map, so nothing is "
      "locked (locking size_of::<Header>() bytes at reserved + 1 fails the range check of a small map - construction is refused although the capacity holds the "
      "prefix - and locks data bytes of a larger one); with the unified layout the locked range is the header's", configs=("memmap", "memmap-nooverflow", "memmap-tracing"))
def l11(ctx):
    A, S = ("align_of", "H"), ("size_of", "H")
    b = ctx.facts.one(r"^memory::Memory::<R, PR, H>::map_anon::\{closure#0\}$")
    U = ("field", ("upvar", "opts"), "unify")
    for mode, val in (("plain", 0), ("unified", 1)):
        ev, res = ctx.eval(b, no_inline=(r"::mlock$",), assume=((U, const(val)),))
        locks = [e for e in res.log if e["kind"] == "call" and not e["chain"] and e["callee"].endswith("::mlock")]
        if mode == "plain":
            yield Ob(key_of("C16-L11", b.path, "plain-layout-locks-nothing"), not locks,
                     "map_anon, plain layout: %s" % ("no mlock call is reachable" if not locks else "mlock(%s, %s) is reachable: the header is not in the map" %
                                                      (short(locks[0]["args"][1], 50), short(locks[0]["args"][2], 30))), ctx.loc(locks[0]) if locks else b.loc())
        else:
            ok = bool(locks)
            for e in locks:
                off, ln = canon(e["args"][1]), canon(e["args"][2])
                want = [a for a in as_lin(off).m if tag(a) == "alignUp"]
                ok = ok and len(want) == 1 and term_eq(off, add(add(want[0], A), const(0))) and term_eq(ln, S)
            yield Ob(key_of("C16-L11", b.path, "unified-layout-locks-the-header"), ok,
                     "map_anon, unified layout: %d mlock call(s), range %s" % (len(locks), [(short(e["args"][1], 60), short(e["args"][2], 20)) for e in locks][:2]), ctx.loc(locks[0]) if locks else b.loc())
    for name in ("map_mut_in", "map_in"):
        cl = ctx.facts.one(r"^memory::Memory::<R, PR, H>::%s::\{closure#0\}$" % name)
        ev, res = ctx.eval(cl, no_inline=(r"::mlock$",))
        locks = [e for e in res.log if e["kind"] == "call" and not e["chain"] and e["callee"].endswith("::mlock")]
        ok = True
        for e in locks:
            off, ln = canon(e["args"][1]), canon(e["args"][2])
            want = [a for a in as_lin(off).m if tag(a) == "alignUp"]
            ok = ok and len(want) == 1 and term_eq(off, add(want[0], A)) and term_eq(ln, S)
        yield Ob(key_of("C16-L11", cl.path, "file-layout-locks-the-header"), ok, "%s (always unified): %d mlock call(s) on the header range" % (name, len(locks)), cl.loc(), trivial=not locks)
