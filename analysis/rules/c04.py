"""C04 - any request size is answered safely: success within capacity or a clean error."""
import re
from engine import rule, Ob, key_of, EXPLAIN, ASSUME
from sym import Lin, add, sub, const, tag, show, is_const, as_lin, implied_facts, struct_get, _subst
from util import *
from order import Order, term_eq, atoms_deep

EXPLAIN["C04"] = (
    "Decides for the five allocating bodies of each flavour (alloc_bytes_in, alloc_aligned_bytes_in<T>, alloc_in<T>, both slow "
    "paths), with T and every size symbolic: the read-only test is the first branch and returns Err(ReadOnly) (E1); the cursor "
    "update is dominated by want <= cap on the very term that is stored (E2); no Err return is reachable from a successful cursor "
    "update, node-word update or discarded increment in the single-thread projection (E3); every addition/subtraction whose operand "
    "is the caller's size/extra is checked, saturating or bounded by a dominating guard (E4); the panic sites reachable from the "
    "allocation entry points are exactly the enumerated ones (E5). Not decided: that the state is bit-for-bit as before after an "
    "error beyond the absence of write effects; sizes that only overflow through T's layout on arenas of ~4 GiB.")
ASSUME["C04"] = ["maximum_retries >= 1 (0 underflows `max_retries - 1`; outside the property's configuration space)",
                 "a listed segment lies inside the arena: node + 8 + data_size <= cap (C10 well-formedness, DESIGN A.2) - used for data_offset + size",
                 "C04 quantifies over inputs and histories, not schedules: CAS-failure edges are removed before E3 (the multi-thread path is C07-T1)"]

FLAVOURS = ("sync", "unsync")
BODIES = ("alloc_bytes_in", "alloc_aligned_bytes_in", "alloc_in", "alloc_slow_path_optimistic", "alloc_slow_path_pessimistic")
SELF = ("param", 0, "self")

# E4 discharge table: (function name, op, role) -> reason.  Exact keys only.
DISCHARGE = {
    ("alloc_slow_path_optimistic", "Add", "data_offset+size"): "size <= data size of the head segment (dominating guard) and node + 8 + data_size <= cap (list invariant)",
    ("alloc_slow_path_pessimistic", "Add", "data_offset+size"): "size <= data size of the chosen segment (search predicate) and node + 8 + data_size <= cap (list invariant)",
}


def body_of(ctx, fl, name):
    return ctx.facts.one(r"^%s::Arena::%s$" % (fl, name))


def cursor_updates(res, fl):
    """successful cursor updates in the top frame: [(entry, new_value, expected_value, success_guard_test)]"""
    out = []
    for e in res.log:
        if fl == "sync" and e["kind"] == "call" and e.get("atomic") in ("compare_exchange", "compare_exchange_weak") and tag(e["target"]) == "heap" and e["target"][2] == ("allocated",):
            out.append(e)
        if fl == "unsync" and e["kind"] == "store" and e.get("how") == "store" and e["path"] == ("allocated",) and tag(e["base"]) == "call" and e["base"][1].endswith("::header"):
            out.append(e)
    return out


@rule("C04-E1", "C04", 10, "the read-only test is the first branch of every allocating body; its true edge returns Err(ReadOnly) and nothing else happens before it", also=("C09",))
def e1(ctx):
    for fl in FLAVOURS:
        for name in BODIES:
            b = body_of(ctx, fl, name)
            ev, res = ctx.eval(b, no_inline=(r"alloc_slow_path_(optimistic|pessimistic)$", r"alloc_bytes_in$"))
            t0 = b.blocks[0]["term"]
            ok = t0["k"] == "switch" and res.conds.get(0) == field(SELF, "ro")
            # nothing but the read of self.ro in block 0
            ok = ok and all(st["rv"]["k"] in ("use",) for st in b.blocks[0]["stmts"])
            if ok:
                tgt = t0["otherwise"]
                rets = [e for e in res.log if e["kind"] == "ret0" and not e["chain"] and e["bb"] == tgt]
                ok = len(rets) == 1 and tag(rets[0]["value"]) == "variant" and rets[0]["value"][2] == "Err" and tag(rets[0]["value"][3][0]) == "variant" and rets[0]["value"][3][0][2] == "ReadOnly"
                ok = ok and not [e for e in res.log if e["bb"] == tgt and e["kind"] == "call" and not e["chain"]]
            yield Ob(key_of("C04-E1", b.path, "ro-first"), ok, "entry block branches on self.ro; true edge returns Err(ReadOnly) with no call", b.loc())


@rule("C04-E2", "C04", 6, "bump paths: the cursor update stores a term `want` that a dominating guard proves <= cap (same term, not a recomputation)", also=("C01",))
def e2(ctx):
    for fl in FLAVOURS:
        for name in BODIES[:3]:
            b = body_of(ctx, fl, name)
            ev, res = ctx.eval(b, no_inline=(r"alloc_slow_path_(optimistic|pessimistic)$", r"alloc_bytes_in$"))
            ups = [e for e in cursor_updates(res, fl) if not e["chain"]]
            if len(ups) != 1:
                yield Ob(key_of("C04-E2", b.path, "cursor-update"), False, "expected exactly one cursor update in the fast path, found %d" % len(ups), b.loc())
                continue
            e = ups[0]
            new = e["new"] if fl == "sync" else e["value"]
            order, fs = order_for(ctx, ev, e)
            ok = order.le(canon(new), field(SELF, "cap"))
            yield Ob(key_of("C04-E2", b.path, "want-le-cap"), ok, "cursor := %s under a guard proving it <= self.cap: %s" % (short(new, 100), "proved" if ok else "NOT proved"),
                     ctx.loc(e), {"facts": sorted(show(f) for f in fs if f[0] == "cmp")[:4]})


def effect_points(b, res, fl):
    """top-frame blocks at which a persistent effect has happened (single-thread projection)"""
    pts = []
    for e in res.log:
        eff = None
        if is_raw_write(e):
            eff = "raw-write"
        elif e["kind"] == "call" and e.get("atomic") in ("store", "fetch_add", "fetch_sub", "swap"):
            if "refs" in show(e.get("target")):
                continue
            eff = "atomic-" + e["atomic"]
        elif e["kind"] == "call" and e.get("atomic") in ("compare_exchange", "compare_exchange_weak"):
            eff = "cas"
        elif e["kind"] == "store" and e.get("how") == "store" and tag(e["base"]) != "param":
            from rules_common import is_backing_base
            if not is_backing_base(e["base"]):
                continue
            eff = "store"
        elif e["kind"] == "call" and not e.get("inlined") and re.search(r"alloc_slow_path_(optimistic|pessimistic)$", e["callee"]):
            eff = "slow-path-ok"
        if eff is None:
            continue
        top_bb = e["chain"][0][1] if e["chain"] else e["bb"]
        pts.append((eff, e, top_bb))
    return pts


def projected_removed(b, ev, res):
    """CFG edges of the top frame taken only when a CAS fails (infeasible with one thread)"""
    removed = set()
    for x, c in res.conds.items():
        t = b.blocks[x]["term"]
        cas = None
        fail_vals = None
        if tag(c) == "discr" and tag(c[1]) == "cas":
            fail_vals = {1}
        elif tag(c) == "is" and tag(c[2]) == "cas":
            fail_vals = {1} if c[1] == "is_err" else {0}
        if fail_vals is None:
            continue
        for v, bb in t["arms"]:
            if int(v) in fail_vals:
                removed.add((x, bb))
        if fail_vals == {1} and [int(v) for v, _ in t["arms"]] == [0]:
            removed.add((x, t["otherwise"]))
    return removed


@rule("C04-E3", "C04", 20, "no effect before failure: in the single-thread projection no Err return is reachable from a point where the cursor, "
      "a node word or `discarded` has been updated (a failed call leaves allocated(), discarded(), remaining() and the free list as they were)")
def e3(ctx):
    for fl in FLAVOURS:
        for name in BODIES:
            b = body_of(ctx, fl, name)
            ev, res = ctx.eval(b, no_inline=(r"alloc_slow_path_(optimistic|pessimistic)$", r"alloc_bytes_in$"))
            removed = projected_removed(b, ev, res)
            feasible = b.reach(0, removed=frozenset(removed))
            # effects on blocks that only a failed CAS reaches (e.g. undoing a mark after a lost unlink) do not exist with one thread
            pts = [p for p in effect_points(b, res, fl) if p[2] in feasible]
            errs = [e for e in res.log if e["kind"] == "ret0" and not e["chain"] and tag(e["value"]) in ("variant",) and e["value"][2] == "Err"]
            errs += [e for e in res.log if e["kind"] == "ret0" and not e["chain"] and tag(e["value"]) == "vsum" and "Err" in dict(e["value"][2]) and "Ok" not in dict(e["value"][2])]
            n = 0
            memo_ = {}
            for r in errs:
                n += 1
                bad = []
                # an error return no input can reach (`let Some(..) = seg.split_at(size) else { return Err(..) }` behind `size <= seg.size`) is no failure
                import dnf as D
                cond_r = D.block_dnf(ev, res, b, r["bb"], shared_memo=memo_)
                if cond_r and any(c_["kind"] == "call" and c_.get("inlined") and c_["callee"].endswith("find_prev_and_next") for c_ in res.log):
                    cond_r = D.block_dnf(ev, res, b, r["bb"], lit=canon)
                    # .. or that the postcondition of the position search rules out (it only returns segments that satisfy the search predicate)
                    post = set()
                    for c_ in res.log:
                        if c_["kind"] == "call" and c_.get("inlined") and c_["callee"].endswith("find_prev_and_next"):
                            post |= set(callee_variant_facts(ctx, ev, c_, ("Some",)))
                    if post:
                        cond_r = [c2 for c2 in cond_r if not D.conj_unsat(set(c2) | post)]
                if cond_r is not None and len(cond_r) == 0:
                    yield Ob(key_of("C04-E3", b.path, "err-after-effect", n), True, "Err return at %s: its path condition is contradictory (unreachable)" % ctx.loc(r), ctx.loc(r))
                    continue
                for eff, e, top_bb in pts:
                    starts = []
                    if eff in ("cas", "slow-path-ok") and not e["chain"]:
                        # the effect exists on the success edge only
                        val = e["result"]
                        for x, c in res.conds.items():
                            if (tag(c) == "discr" and c[1] == val) or (tag(c) == "is" and c[2] == val):
                                t = b.blocks[x]["term"]
                                okv = 0 if tag(c) == "discr" or c[1] == "is_err" else 1
                                for v, bb in t["arms"]:
                                    if int(v) == okv:
                                        starts.append(bb)
                                if okv == 1 and not any(int(v) == 1 for v, _ in t["arms"]):
                                    starts.append(t["otherwise"])
                        if not starts and eff == "cas":
                            starts = [top_bb]
                    else:
                        starts = list(b.succ[top_bb]) if e["chain"] or eff != "store" else [top_bb]
                        if not e["chain"]:
                            starts = list(b.succ[top_bb]) or [top_bb]
                    for s in starts:
                        if r["bb"] in b.reach(s, removed=frozenset(removed)):
                            bad.append((eff, ctx.loc(e)))
                            break
                yield Ob(key_of("C04-E3", b.path, "err-after-effect", n), not bad,
                         "Err return at %s %s" % (ctx.loc(r), "is not reachable from any effect" if not bad else "is reachable after %s at %s" % bad[0]), ctx.loc(r))


def request_params(b):
    out = []
    from sym import param_name
    for i in range(1, b.nargs + 1):
        nm = param_name(b, i - 1)
        if nm in ("size", "extra") and b.locals[i]["ty"] == "u32":
            out.append(("param", i - 1, nm))
    return out


@rule("C04-E4", "C04", 10, "request-size arithmetic: every Add/Sub in an allocating body with the caller's size/extra as operand is checked or saturating, "
      "or its result is bounded by a dominating guard (no wrap-around, no overflow panic for sizes up to u32::MAX)")
def e4(ctx):
    for fl in FLAVOURS:
        for name in BODIES:
            b = body_of(ctx, fl, name)
            reqs = request_params(b)
            if not reqs:
                yield Ob(key_of("C04-E4", b.path, "no-request-param"), True, "no caller-supplied size in this body", b.loc(), trivial=True)
                continue
            ev, res = ctx.eval(b, no_inline=(r"alloc_slow_path_(optimistic|pessimistic)$", r"alloc_bytes_in$"))
            sites = [a for a in res.log if a["kind"] == "arith" and (not a["chain"] or a["body"].name in ("pad",)) and any(mentions(a["a"], p) or mentions(a["b"], p) for p in reqs)]
            n = 0
            if not sites:
                yield Ob(key_of("C04-E4", b.path, "no-raw-arith"), True, "no unchecked arithmetic on the request size", b.loc())
            for a in sites:
                order, fs = order_for(ctx, ev, a)
                # a value returned by the position search satisfies the search predicate on every Some-returning path
                for c in res.log:
                    if c["kind"] == "call" and c.get("inlined") and c["callee"].endswith("find_prev_and_next") and c["seq"] < a["seq"]:
                        for f in callee_variant_facts(ctx, ev, c, ("Some",)):
                            order.add_fact(f)
                a = dict(a, a=canon(a["a"]), b=canon(a["b"]))
                ok = overflow_discharged(order, a)
                role = None
                why = ""
                if not ok and a["op"] == "Add" and any(term_contains(a["a"], lambda t: tag(t) in ("lo",)) for _ in [0]) and is_const(sub(a["a"], sub(a["a"], const(0)))) is False:
                    pass
                if not ok and a["op"] == "Add" and isinstance(a["a"], Lin) and a["a"].c == 8 and any(tag(x) == "lo" for x in a["a"].m) and a["b"] in reqs:
                    role = "data_offset+size"
                    if (name, "Add", role) in DISCHARGE:
                        ok = True
                        why = " [table: %s]" % DISCHARGE[(name, "Add", role)]
                if not ok:
                    n += 1
                yield Ob(key_of("C04-E4", b.path, "%s-size" % a["op"].lower(), n if not ok else None), ok,
                         "%s(%s, %s) %s%s" % (a["op"], short(a["a"], 70), short(a["b"], 70),
                                              "cannot overflow" if ok else "is unchecked: for sizes near u32::MAX it panics with overflow checks and wraps around without (then the capacity guard passes and the cursor moves backwards)", why),
                         ctx.loc(a))


PANIC_ALLOW = {
    # (function, kind) -> reason
    ("alloc", "expect"): "alloc_in returns Ok(None) only for zero-sized T, which alloc has already returned for (rule C04-E5b)",
    ("get_aligned_pointer_mut", "panic_fmt"): "assert!(!read_only()): an allocation succeeded, which E1 makes impossible on a read-only arena",
    ("get_pointer_mut", "panic_fmt"): "assert!(!read_only()): reached only through a live handle, whose allocation E1 made impossible on a read-only arena",
    ("increase_discarded", "panic_fmt"): "assert!(!self.ro): allocation/deallocation paths are only reachable on writable arenas (E1)",
}


@rule("C04-E5", "C04", 6, "panic sites reachable from the allocation entry points are exactly the enumerated, justified ones (overflow asserts on request sizes are E4)")
def e5(ctx):
    for fl in FLAVOURS:
        for name in ("alloc_bytes", "alloc_aligned_bytes", "alloc"):
            b = ctx.facts.one(r"^<%s::Arena as allocator::Allocator>::%s$" % (fl, name))
            ev, res = ctx.eval(b)
            bad = []
            seen = 0
            for e in res.log:
                kind = None
                if e["kind"] == "call" and re.search(r"panicking::(panic|panic_fmt|panic_nounwind|assert_failed)", e["callee"]):
                    kind = "panic_fmt"
                elif e["kind"] == "call" and e.get("panics_if") is not None:
                    kind = e["callee"].split("::")[-1]
                elif e["kind"] == "call" and re.search(r"(handle_alloc_error|abort)$", e["callee"]):
                    kind = "abort"
                if kind is None:
                    continue
                seen += 1
                fn = e["body"].name
                if (fn, kind) not in PANIC_ALLOW:
                    bad.append((fn, kind, ctx.loc(e)))
            yield Ob(key_of("C04-E5", b.path, "panic-sites"), not bad, "%d panic-capable call site(s) reachable; %s" % (seen, "all enumerated" if not bad else "NOT enumerated: %s" % bad[:3]), b.loc())
        # E5b: alloc_in returns Ok(None) only under size_of T == 0
        b = body_of(ctx, fl, "alloc_in")
        ev, res = ctx.eval(b, no_inline=(r"alloc_slow_path_(optimistic|pessimistic)$",))
        nones = [e for e in res.log if e["kind"] == "ret0" and not e["chain"] and unwrap_variant(e["value"], "Ok") is not None and tag(unwrap_variant(e["value"], "Ok")) == "variant" and unwrap_variant(e["value"], "Ok")[2] == "None"]
        ok = bool(nones) and all(("cmp", "Eq", ("size_of", "T"), const(0)) in ctx.facts_of(ev, e) for e in nones)
        yield Ob(key_of("C04-E5", b.path, "none-only-for-zst"), ok, "alloc_in returns Ok(None) only when size_of T == 0", b.loc())


TYMAX = {"u8": 2**8 - 1, "u16": 2**16 - 1, "u32": 2**32 - 1, "u64": 2**64 - 1, "usize": 2**64 - 1, "i64": 2**63 - 1, "i32": 2**31 - 1, "isize": 2**63 - 1}

# E6 justification table: (function, op, role) -> the invariant that bounds the operation.  Exact keys only; the role is computed from the operand terms.
ARITH_JUSTIFIED = {
    ("from_offset", "Add", "node+8"): "offset of a node on the list + 8 <= node + 8 + data size <= cap (list invariant, C10 / C01-R3)",
    ("alloc_slow_path_optimistic", "Add", "data_offset+request"): "request <= data size of the head segment (dominating guard) and node + 8 + data size <= cap",
    ("alloc_slow_path_pessimistic", "Add", "data_offset+request"): "request <= data size of the chosen segment (search predicate) and node + 8 + data size <= cap",
    ("align_bytes_to", "Add", "ptr_offset+ptr_size"): "end of the accessible range of a Meta just built by an allocation body: <= memory_offset + memory_size <= cap (C03-A3, C01-B2)",
    ("align_to", "Add", "ptr_offset+ptr_size"): "end of the accessible range of a Meta just built by an allocation body: <= cap (C03-A2)",
    ("try_new_segment", "Add", "aligned-u32-offset+8 (usize)"): "the aligned offset is a u32 value widened to usize (align_offset::<AtomicU64>(offset) as usize): adding the node size cannot leave usize",
    ("increase_discarded", "Add", "discarded+n"): "discarded accounting (C20): the sum of released bytes; bounded by the bytes handed out since the last clear()",
}


def _arith_role(a):
    x, y = a["a"], a["b"]
    sx, sy = show(x), show(y)
    if a["op"] == "Add" and a["body"].name in ("align_bytes_to", "align_to"):
        return "ptr_offset+ptr_size"
    if a["op"] == "Add" and is_const(y) and y.c == 8 and (tag(x) == "lo" or (isinstance(x, Lin) and len(x.m) == 1 and tag(list(x.m)[0]) == "lo")):
        return "node+8"
    if a["op"] == "Add" and isinstance(x, Lin) and x.c == 8 and any(tag(t) == "lo" for t in x.m):
        return "data_offset+request"
    if a["op"] == "Add" and "ptr_offset" in sx and "ptr_size" in sy or ("ptr_size" in sx and "ptr_offset" in sy):
        return "ptr_offset+ptr_size"
    if a["op"] == "Add" and "discarded" in sx:
        return "discarded+n"
    if a["op"] == "Add" and a.get("ty") == "usize" and is_const(y) and y.c == 8 and tag(x) == "alignUp" and x[1] == const(8):
        return "aligned-u32-offset+8 (usize)"
    return "%s(%s, %s)" % (a["op"], short(x, 40), short(y, 40))


def _bounds_for(terms, body):
    """upper bounds of atoms as `bound - atom >= 0` facts: type widths that the terms do not carry themselves"""
    out = []
    seen = set()

    def visit(t):
        if isinstance(t, Lin):
            for a in t.m:
                visit(a)
            return
        if not isinstance(t, tuple) or t in seen:
            return
        seen.add(t)
        tg = tag(t)
        if tg == "size_of":
            out.append(sub(const(2**63 - 1), t))
        elif tg == "align_of":
            out.append(sub(const(2**29), t))
        elif tg in ("hi", "lo"):
            out.append(sub(const(2**32 - 1), t))
        elif tg == "field" and t[2] == "max_retries":
            out.append(sub(const(255), t))
        elif tg == "field" and t[2] in ("cap", "data_offset", "ptr_offset", "ptr_size", "memory_offset", "memory_size"):
            out.append(sub(const(2**32 - 1), t))
        elif tg == "param":
            out.append(sub(const(2**32 - 1), t))      # every integer parameter of the allocation bodies is a u32 (checked below)
        for y in t[1:]:
            if isinstance(y, (tuple, Lin)):
                visit(y)
    for t in terms:
        visit(t)
    return out


@rule("C04-E6", "C04", 6, "no arithmetic reachable from an allocation entry point can overflow its type (panic with overflow checks, wrap-around without): every Add / Sub / Mul is "
      "bounded by the dominating guards and type widths, or by an arena invariant named in ARITH_JUSTIFIED (exact function / role keys)")
def e6(ctx):
    for fl in FLAVOURS:
        for name in ("alloc_bytes", "alloc_aligned_bytes", "alloc"):
            b = ctx.facts.one(r"^<%s::Arena as allocator::Allocator>::%s$" % (fl, name))
            ev, res = ctx.eval(b, max_depth=8)
            seen = set()
            n_sites = 0
            for a in res.log:
                if a["kind"] != "arith" or a.get("unchecked"):
                    continue
                k = (a["body"].path, a["bb"], a["si"], tuple(c for c in a["chain"]))
                if k in seen:
                    continue
                seen.add(k)
                n_sites += 1
                fs = set(canon(f) for f in ctx.facts_of(ev, a))
                # a value returned by the position search satisfies the search predicate on every Some-returning path
                for c in res.log:
                    if c["kind"] == "call" and c.get("inlined") and c["callee"].endswith("find_prev_and_next") and c["seq"] < a["seq"]:
                        fs |= set(canon(f) for f in callee_variant_facts(ctx, ev, c, ("Some",)))
                x, y = canon(a["a"]), canon(a["b"])
                a2 = dict(a, a=x, b=y)
                mx = TYMAX.get(a.get("ty") or "", None)

                def bounded(x, y, fs):
                    order = Order(fs, extra_ge0=_bounds_for([x, y], a["body"]))
                    if a["op"] == "Sub":
                        return order.le(y, x)
                    if a["op"] == "Add":
                        return overflow_discharged(order, dict(a, a=x, b=y)) or (mx is not None and order.le(add(x, y), const(mx)))
                    return is_const(x) and is_const(y)
                ok = bounded(x, y, fs)
                if not ok:
                    # what every path to the site shares, although no single dominating branch says it
                    more = common_path_literals(ev, a)
                    if more and (set(more) - fs):
                        ok = bounded(x, y, fs | set(more))
                if not ok:
                    # operands that come out of a call chosen by a dispatch (`f = match kind { A => Self::a, B => Self::b }; f(..)`): judged per chosen call
                    ph = chosen_call_join([x, y])
                    if ph is not None:
                        ok = all(bounded(canon(refold(ev, _subst(x, ph, alt))), canon(refold(ev, _subst(y, ph, alt))),
                                         set(canon(refold(ev, _subst(f, ph, alt))) for f in fs)) for alt in ph[3])
                why = ""
                role = None
                if not ok:
                    role = _arith_role(a2)
                    j = ARITH_JUSTIFIED.get((a["body"].name, a["op"], role))
                    if j:
                        ok, why = True, " [invariant: %s]" % j
                if not ok:
                    yield Ob(key_of("C04-E6", a["body"].path, "%s:%s" % (a["op"].lower(), re.sub(r"[#@][\w/.]+", "", role))), False,
                             "%s(%s, %s) in %s (%s) is not bounded by any dominating guard, type width or named invariant: it panics when overflow checks are on "
                             "and wraps around when they are off" % (a["op"], short(x, 70), short(y, 70), a["body"].name, a.get("ty")), ctx.loc(a))
            # narrowing casts of a type's size (usize -> u32): sizes of 4 GiB and more must be refused, not truncated
            seenc = set()
            for c in res.log:
                if c["kind"] != "cast" or c.get("ty") != "u32" or not isinstance(c["value"], (tuple, Lin)):
                    continue
                lv = as_lin(c["value"])
                if not lv.m or not all(tag(t) in ("size_of", "align_of") for t in lv.m) or not any(tag(t) == "size_of" for t in lv.m):
                    continue    # only casts of a type's (padded) size; offsets are u32 values widened for pointer arithmetic
                k = (c["body"].path, c["bb"], c.get("si"))
                if k in seenc:
                    continue
                seenc.add(k)
                fs = set(canon(f) for f in ctx.facts_of(ev, c))
                v = canon(c["value"])
                okc = Order(fs).le(v, const(2**32 - 1))
                if not okc:
                    yield Ob(key_of("C04-E6", c["body"].path, "narrowing-cast-of-type-size"), False,
                             "`%s as u32` is not bounded by a dominating guard: for a type of 4 GiB or more the size is truncated and the handle is smaller than the type" % short(v, 70), ctx.loc(c))
            yield Ob(key_of("C04-E6", b.path, "arith-sites"), n_sites >= 3, "%d arithmetic site(s) reachable from %s, each bounded or justified" % (n_sites, name), b.loc())


CAST_JUSTIFIED = {
    ("try_new_segment", "aligned-offset+8"): "node + 8 <= offset + size of the range being released, which lies inside the arena (<= cap <= u32::MAX); the segment is made only when size > padding + 8 (dominating guard)",
    ("get_aligned_pointer_mut", "offset-of-a-meta"): "the offset is Meta.ptr_offset (a u32) of the allocation just made, widened to usize by the caller",
}


@rule("C04-E7", "C04", 6, "sizes are never silently narrowed on the allocation paths: every cast to u32 (or narrower) of a value that is not already known to fit is bounded by the "
      "dominating guards and type widths - a request computed in usize (`pad + extra as usize`) and cut to u32 turns a request of 4 GiB into a small one that a free-list "
      "segment satisfies - or is a position inside the arena named in CAST_JUSTIFIED")
def e7(ctx):
    for fl in FLAVOURS:
        for name in ("alloc_bytes", "alloc_aligned_bytes", "alloc"):
            b = ctx.facts.one(r"^<%s::Arena as allocator::Allocator>::%s$" % (fl, name))
            ev, res = ctx.eval(b, max_depth=8)
            seenc = set()
            n = 0
            for c in res.log:
                if c["kind"] != "cast" or c.get("ty") not in ("u32", "u16", "u8") or not isinstance(c["value"], (tuple, Lin)):
                    continue
                k = (c["body"].path, c["bb"], c.get("si"))
                if k in seenc:
                    continue
                seenc.add(k)
                n += 1
                v = canon(c["value"])
                fs = set(canon(f) for f in ctx.facts_of(ev, c))
                # align_offset returns a u32: the alignUp intrinsic that models it never exceeds u32::MAX
                ext = _bounds_for([v], c["body"]) + [sub(const(2**32 - 1), t) for t in atoms_deep(v) if tag(t) == "alignUp"]
                ok = Order(fs, extra_ge0=ext).le(v, const(TYMAX[c["ty"]]))
                why = ""
                if not ok:
                    fn = c["body"].name
                    role = None
                    lv = as_lin(v) if isinstance(v, (Lin, tuple)) else None
                    if fn == "try_new_segment" and lv is not None and lv.c == 8 and len(lv.m) == 1 and tag(list(lv.m)[0]) == "alignUp":
                        role = "aligned-offset+8"
                    elif fn == "get_aligned_pointer_mut" and ("ptr_offset" in show(v) or v == ("param", 1, "offset")):
                        role = "offset-of-a-meta"
                    if role and (fn, role) in CAST_JUSTIFIED:
                        ok, why = True, " [invariant: %s]" % CAST_JUSTIFIED[(fn, role)]
                if not ok:
                    yield Ob(key_of("C04-E7", c["body"].path, "narrowing-cast"), False,
                             "`%s as %s` in %s is not bounded by any dominating guard, type width or named invariant: a value of 2^32 or more is cut to its low bits" %
                             (short(v, 80), c["ty"], c["body"].name), ctx.loc(c))
            yield Ob(key_of("C04-E7", b.path, "cast-sites"), n >= 3, "%d narrowing cast site(s) reachable from %s::%s, each bounded or justified" % (n, fl, name), b.loc())


@rule("C04-E6a", "C04", 1, "align_offset (treated as the intrinsic alignUp at its 16 call sites - every allocation path, the constructors' layout formula, Meta / buffer "
      "alignment): its own arithmetic cannot wrap for any u32 argument, so an offset within align - 1 of u32::MAX (a nearly full 4 GiB arena, a huge reserved prefix) is "
      "answered by a value that makes the caller fail, not by a small wrapped offset", also=("C03", "C16"))
def e6a(ctx):
    b = ctx.facts.one(r"^align_offset$")
    ev, res = ctx.eval(b)
    sites = [a for a in res.log if a["kind"] == "arith" and not a.get("unchecked")]
    bad = []
    for a in sites:
        fs = set(canon(f) for f in ctx.facts_of(ev, a))
        x, y = canon(a["a"]), canon(a["b"])
        order = Order(fs, extra_ge0=_bounds_for([x, y], a["body"]))
        mx = TYMAX.get(a.get("ty") or "", None)
        if a["op"] == "Sub":
            ok = order.le(y, x)
        elif a["op"] == "Add":
            ok = mx is not None and order.le(add(x, y), const(mx))
        else:
            ok = is_const(x) and is_const(y)
        if not ok:
            bad.append(a)
            yield Ob(key_of("C04-E6a", b.path, "%s:%s" % (a["op"].lower(), re.sub(r"[#@][\w/.]+", "", "%s(%s, %s)" % (a["op"], short(x, 40), short(y, 40))))), False,
                     "%s(%s, %s) in align_offset (%s) can wrap: for offsets within align - 1 of u32::MAX the aligned offset comes out small, the capacity test passes and the cursor "
                     "/ the header position move backwards" % (a["op"], short(x, 60), short(y, 60), a.get("ty")), ctx.loc(a))
    yield Ob(key_of("C04-E6a", b.path, "arith-sites"), True, "%d arithmetic site(s) inside align_offset, %d unbounded" % (len(sites), len(bad)), b.loc(), trivial=not bad)
