"""Compile-fail witnesses W1-W9 (thorough tier): type-level premises of C01 / C02 / C11 / C12 / C13 / C18."""
from engine import rule, Ob, key_of
from facts import AnchorError
import witness

WIT = {
    "W1": ("C13", "a borrowed byte handle cannot outlive its arena (E0597)"),
    "W2": ("C13", "the arena cannot be moved or dropped while a borrowed typed handle is live (E0505)"),
    "W3": ("C02", "unsync::Arena is neither Send nor Sync; sync::Arena is both (E0277)"),
    "W4": ("C02", "owned handles of unsync::Arena are not Send (E0277)"),
    "W5": ("C18", "truncate(&mut self) cannot be called while a borrowed handle is live (E0502)"),
    "W6": ("C13", "handles are not Clone (E0599)"),
    "W7": ("C13", "Meta cannot be built or touched outside the crate; raw handle constructors are private (E0451 / E0616 / E0624)"),
    "W8": ("C11", "Allocator is sealed: no third implementation can exist downstream (E0277)"),
    "W9": ("C12", "Owned<T, A> is Send / Sync only if T is (E0277)"),
}
ALSO = {"W3": ("C12",), "W4": ("C12",), "W7": ("C01",)}


def make(wid, prop, text):
    @rule("WIT-" + wid, prop, 2, "compile-fail witness %s: %s - every compile_fail doc-test fails with the stated error code and its twin compiles" % (wid, text),
          configs=("memmap",), also=ALSO.get(wid, ()), tiers=("thorough",))
    def w(ctx, wid=wid):
        res = witness.run_witnesses()
        if not res.get("built"):
            raise AnchorError("witness crate did not build: %s" % res.get("tail", "")[-400:])
        mine = [t for t in res["tests"] if t["witness"] == wid]
        if not any(t["compile_fail"] for t in mine) or not any(not t["compile_fail"] for t in mine):
            raise AnchorError("witness %s lost its compile_fail test or its twin" % wid)
        for t in mine:
            kind = "compile_fail" if t["compile_fail"] else "twin"
            yield Ob(key_of("WIT-" + wid, "witness/src/lib.rs", "%s@%d" % (kind, t["line"])), t["ok"],
                     "%s doc-test at witness/src/lib.rs:%d %s" % (kind, t["line"], "behaves as required" if t["ok"] else
                                                                  ("COMPILES (the type-level guarantee is gone)" if t["compile_fail"] else "no longer compiles (witness broken)")), "witness/src/lib.rs:%d" % t["line"])
    return w


for _w, (_p, _t) in WIT.items():
    make(_w, _p, _t)
