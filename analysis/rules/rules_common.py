"""Predicates shared by several property rule files."""
import re
from sym import tag
from util import term_contains


def is_backing_base(base):
    """does the stored-to location lie in the arena's backing memory (as opposed to the heap-allocated Memory struct or a
    Rust-owned handle)?  Backing memory is reached through Arena.ptr / Memory.ptr, header(), raw_mut_ptr(), a mapping's
    as_mut_ptr() or get_segment_node()."""
    def hit(t):
        tg = tag(t)
        if tg == "call" and re.search(r"(::header|raw_mut_ptr|as_mut_ptr|get_segment_node)$", t[1]):
            return True
        if tg == "field" and t[2] == "ptr":
            return True
        if tg == "hload" and t[2] and t[2][-1] == "ptr":
            return True
        return False
    return term_contains(base, hit)
