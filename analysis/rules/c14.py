"""C14 - buffer writers and readers stay in bounds and round-trip values."""
import re
from engine import rule, Ob, key_of, EXPLAIN, ASSUME
from sym import Lin, add, sub, const, tag, show, is_const, as_lin, struct_get
from util import *
from order import Order, term_eq

EXPLAIN["C14"] = (
    "Decides, on the type-checked MIR of every put_*/get_*/write helper of BytesMut and BytesRefMut (macro-generated, "
    "so no test calls most of them): the write is dominated by the guard len + SIZE <= capacity with SIZE the width "
    "written (B1); unchecked bodies index [len, len+SIZE) and add SIZE (B2); put/get converters agree with the method "
    "name (B3); get guards and ranges (B4); set_len (B5); align_to pointer term is a multiple of align_of T and the new "
    "len is within capacity (B6); put_aligned writes only under a size guard (B7); varint slices (B8); who writes len (B9). "
    "Values are symbolic, so every len, capacity and T is covered. Not decided: dbutils' LEB128 codec itself.")
ASSUME["C14"] = ["dbutils::leb128 encode/decode are trusted to their documentation",
                 "slice indexing panics (does not write) when the range is out of bounds (core)",
                 "Meta of a handle is immutable after construction (rule C01-D2 checks the writer set)"]

HANDLES = ("BytesMut", "BytesRefMut")
IMMUT = {"allocated", "arena"}
TYS = ["u16", "u32", "u64", "usize", "u128", "i16", "i32", "i64", "isize", "i128"]
ENDS = ["be", "le", "ne"]


def handle_methods(ctx, pat):
    out = []
    for b in ctx.facts.own:
        m = re.match(r"^bytes::(BytesMut|BytesRefMut)::<.*?>::(%s)$" % pat, b.path)
        if m:
            out.append((m.group(1), m.group(2), b))
    return out


def self_p():
    return ("param", 0, "self")


def len0():
    return ("hload", self_p(), ("len",), ("v", 0))


def cap_term():
    return field(self_p(), "allocated", "ptr_size")


def cz(t):
    return canon(t, IMMUT)


def _not_memory(p):
    """a pointer made from nothing (NonNull::dangling()): a write of a zero-sized value through it touches no memory"""
    return p is not None and "dangling" in show(p) and not term_contains(p, lambda x: tag(x) in ("param", "heap", "field", "upvar", "phi", "load"))


def arena_writes(res):
    return [e for e in res.log if is_raw_write(e) and not (e.get("args") and _not_memory(e["args"][0]))]


def len_stores(res):
    return [e for e in res.log if is_heap_store(e) and e["base"] == self_p() and e["path"] == ("len",)]


@rule("C14-B1", "C14", 60, "every safe put_<ty>_<e>/put_u8/put_slice/put<T>: each arena write and each len update is dominated by "
      "the guard len + SIZE <= capacity(), SIZE being the width written; the Err path has no write and no len update")
def b1(ctx):
    fams = handle_methods(ctx, r"put_(?:[ui](?:16|32|64|128|size))_(?:be|le|ne)|put_u8|put_slice|put")
    for h, name, b in fams:
        ev, res = ctx.eval(b)
        m = re.match(r"put_([ui]\d+|[ui]size)_", name)
        if m:
            size = const(INT_SIZE[m.group(1)])
        elif name == "put_u8":
            size = const(1)
        elif name == "put_slice":
            size = ("len", ("param", 1, "slice"))
        else:
            size = ("size_of", "T")
        effects = arena_writes(res) + len_stores(res)
        if not effects:
            yield Ob(key_of("C14-B1", b.path, "no-write-found"), False, "no arena write / len update found in a put body", b.loc())
            continue
        for i, e in enumerate(effects):
            order, fs = order_for(ctx, ev, e, immut=IMMUT)
            need = add(len0(), size)
            ok = order.le(need, cap_term())
            role = "write" if is_raw_write(e) else "len-update"
            yield Ob(key_of("C14-B1", b.path, role), ok,
                     "%s guarded by len + %s <= capacity: %s" % (role, show(size), "proved" if ok else "NOT proved"),
                     ctx.loc(e), {"need": show(need) + " <= " + show(cap_term()), "facts": sorted(show(f) for f in fs if f[0] == "cmp")[:6]})
        # the Err return must not be reachable after a write
        for e in res.log:
            if e["kind"] == "ret0" and not e["chain"] and tag(e["value"]) == "variant" and e["value"][2] == "Err":
                before = [w for w in effects if w["seq"] < e["seq"] and not w["chain"] and b.dominates(w["bb"], e["bb"])]
                yield Ob(key_of("C14-B1", b.path, "err-no-effect"), not before, "Err return not preceded by a write/len update", ctx.loc(e))


def range_of(e):
    """(start,end) of the Range/RangeTo passed to index / index_mut, else None"""
    r = e["args"][1] if len(e["args"]) > 1 else None
    if tag(r) == "struct" and r[1].endswith("Range"):
        return struct_get(r, "start"), struct_get(r, "end")
    if tag(r) == "struct" and r[1].endswith("RangeTo"):
        return const(0), struct_get(r, "end")
    return None


@rule("C14-B2", "C14", 60, "put_<ty>_<e>_unchecked writes buffer_mut()[len .. len+SIZE], SIZE = size_of <ty>, and sets len = len + SIZE")
def b2(ctx):
    for h, name, b in handle_methods(ctx, r"put_(?:[ui](?:16|32|64|128|size))_(?:be|le|ne)_unchecked|put_u8_unchecked"):
        ev, res = ctx.eval(b)
        ty = re.match(r"put_([ui]\d+|[ui]size|u8)", name).group(1)
        size = const(INT_SIZE[ty])
        idx = [e for e in res.log if e["kind"] == "call" and not e["chain"] and e["callee"].endswith("index_mut")]
        rng = range_of(idx[0]) if idx else None
        ok_r = rng is not None and term_eq(rng[0], len0()) and term_eq(rng[1], add(len0(), size))
        yield Ob(key_of("C14-B2", b.path, "range"), ok_r, "index range is [len, len+%s): %s" % (show(size), "yes" if ok_r else "no: %s" % (rng and [show(x) for x in rng])), b.loc())
        ls = len_stores(res)
        ok_l = len(ls) == 1 and term_eq(ls[0]["value"], add(len0(), size))
        yield Ob(key_of("C14-B2", b.path, "len"), ok_l, "len := len + %s" % show(size), b.loc(), {"stores": [show(x["value"]) for x in ls]})
        # the slice indexed is the accessible buffer (ptr_offset, ptr_size)
        sl = idx[0]["args"][0] if idx else None
        ok_s = sl is not None and term_contains(sl, lambda x: tag(x) == "slice" and term_eq(cz(x[2]), cap_term()))
        yield Ob(key_of("C14-B2", b.path, "slice"), ok_s, "the indexed slice is (ptr + ptr_offset, ptr_size)", b.loc())


@rule("C14-B3", "C14", 120, "converter agreement: put_<ty>_<e>_unchecked calls <ty>::to_<e>_bytes and get_<ty>_<e>_unchecked calls "
      "<ty>::from_<e>_bytes (all integer types, be/le/ne, both handle types)")
def b3(ctx):
    for h, name, b in handle_methods(ctx, r"(?:put|get)_(?:[ui](?:16|32|64|128|size))_(?:be|le|ne)_unchecked"):
        m = re.match(r"(put|get)_([ui]\d+|[ui]size)_(be|le|ne)_unchecked", name)
        kind, ty, e = m.groups()
        want = "core::num::<impl %s>::%s_%s_bytes" % (ty, "to" if kind == "put" else "from", e)
        got = [Body_callee(t) for _, t in b.calls() if re.search(r"::(from|to)_(be|le|ne)_bytes$", Body_callee(t))]
        ok = got == [want]
        yield Ob(key_of("C14-B3", b.path, "converter"), ok, "calls %s (expected %s)" % (got, want), b.loc())


def Body_callee(t):
    return t.get("resolved") or t.get("callee") or ""


@rule("C14-B4", "C14", 60, "safe get_<ty>_<e>: the unchecked read is dominated by len >= SIZE; get_*_unchecked reads "
      "buffer()[len-SIZE .. len] and sets len = len - SIZE")
def b4(ctx):
    for h, name, b in handle_methods(ctx, r"get_(?:[ui](?:16|32|64|128|size))_(?:be|le|ne)|get_u8"):
        ev, res = ctx.eval(b)
        ty = re.match(r"get_([ui]\d+|[ui]size|u8)", name).group(1)
        size = const(INT_SIZE[ty])
        ls = len_stores(res)
        if not ls:
            yield Ob(key_of("C14-B4", b.path, "no-len-update"), False, "no len update found", b.loc())
            continue
        for e in ls:
            order, fs = order_for(ctx, ev, e, immut=IMMUT)
            ok = order.le(size, len0())
            yield Ob(key_of("C14-B4", b.path, "guard"), ok, "len update dominated by len >= %s" % show(size), ctx.loc(e), {"facts": sorted(show(f) for f in fs if f[0] == "cmp")[:4]})
            ok2 = term_eq(e["value"], sub(len0(), size))
            yield Ob(key_of("C14-B4", b.path, "len"), ok2, "len := len - %s (got %s)" % (show(size), show(e["value"])), ctx.loc(e))
        idx = [e for e in res.log if e["kind"] == "call" and e["callee"].endswith("::index") and ty != "u8"]
        if ty != "u8":
            rng = range_of(idx[0]) if idx else None
            ok_r = rng is not None and term_eq(rng[0], sub(len0(), size)) and term_eq(rng[1], len0())
            yield Ob(key_of("C14-B4", b.path, "range"), ok_r, "read range is [len-%s, len)" % show(size), b.loc(), {"range": rng and [show(x) for x in rng]})


@rule("C14-B5", "C14", 2, "set_len(n): panics iff n > capacity(); zero-fills exactly [old, n) when growing and [n, old) when shrinking")
def b5(ctx):
    for h, name, b in handle_methods(ctx, r"set_len"):
        ev, res = ctx.eval(b)
        n = ("param", 1, "len")
        ws = [e for e in res.log if is_raw_write(e)]
        # one case per zeroing write, or per incoming edge when a single write takes (start, count) from an own-frame join
        cases = []
        for e in ws:
            for (dst0, cnt0), fs0 in split_on_own_phis(ctx, ev, res, e, [e["dst"], e["count"]]):
                # .. or per way of a two-way choice in them (`add(old.min(n))`, `old.abs_diff(n)`)
                for (dst_, cnt_), fs in split_on_choices([canon(dst0, IMMUT), canon(cnt0, IMMUT)], set(canon(f, IMMUT) for f in fs0)):
                    cases.append((e, dst_, cnt_, set(canon(f, IMMUT) for f in fs)))
        ok_n = len(cases) == 2
        yield Ob(key_of("C14-B5", b.path, "two-arms"), ok_n, "two zeroing cases found (%d write(s), %d case(s))" % (len(ws), len(cases)), b.loc())
        ls = len_stores(res)
        # len := n on every path that zeroes (one store before the branch, or one per arm)
        ok_len = bool(ls) and all(s_["value"] == n for s_ in ls) and all(
            any(s_["bb"] == w["bb"] or b.dominates(s_["bb"], w["bb"]) or b.dominates(w["bb"], s_["bb"]) for s_ in ls if not s_["chain"]) for w in ws if not w["chain"])
        yield Ob(key_of("C14-B5", b.path, "len"), ok_len, "len := n (%d store(s))" % len(ls), b.loc())
        kinds = []
        for e, dst_, cnt, fs in cases:
            order = Order(fs)
            okcap = order.le(n, cap_term())
            yield Ob(key_of("C14-B5", b.path, "cap-guard"), okcap, "zeroing dominated by n <= capacity()", ctx.loc(e))
            dst = cz(dst_)
            cnt = cz(cnt)
            # dst = base + ptr_offset + start ; count = end - start with {start,end} = {old,n}
            grow = order.le(len0(), n) and not order.le(n, len0())
            kinds.append(grow)
            start, end = (len0(), n) if grow else (n, len0())
            ok_c = term_eq(cnt, sub(end, start)) and e["byte"] == const(0)
            ok_d = mentions(dst, start) or (start == n and mentions(dst, n))
            if isinstance(dst, Lin):
                rest = sub(dst, start)
                ok_d = isinstance(rest, (Lin, tuple)) and not mentions(rest, len0()) and not mentions(rest, n)
            yield Ob(key_of("C14-B5", b.path, "grow" if grow else "shrink"), ok_c and ok_d,
                     "zeroes [%s, %s): count=%s dst=%s" % (show(start), show(end), show(cnt), short(dst, 120)), ctx.loc(e))
        if ok_n:
            yield Ob(key_of("C14-B5", b.path, "both-directions"), sorted(kinds) == [False, True], "one case grows, one shrinks", b.loc())


def ret_ok_values(res):
    out = []
    for e in res.log:
        if e["kind"] == "ret0" and not e["chain"]:
            v = unwrap_variant(e["value"], "Ok")
            if v is not None and tag(e["value"]) == "variant" and e["value"][2] == "Ok":
                out.append((e, v))
    return out


@rule("C14-B6", "C14", 4, "align_to<T>: the returned pointer's arena offset is alignUp(align_of T, .) (a multiple of the alignment) "
      "and the new len is <= capacity(); the Err path leaves len unchanged")
def b6(ctx):
    for h, name, b in handle_methods(ctx, r"align_to"):
        ev, res = ctx.eval(b)
        oks = [(e, v) for e, v in ret_ok_values(res) if tag(v) != "dangling"]
        if not oks:
            yield Ob(key_of("C14-B6", b.path, "no-ok-return"), False, "no Ok(non-dangling) return found", b.loc())
            continue
        for e, v in oks:
            v = cz(v)
            # the pointer returned is as_mut_ptr() + len'; as_mut_ptr() designates arena offset ptr_offset (rule C14-B2 'slice'
            # and C08-Z3 check that accessor), so the arena offset of the result is ptr_offset + (v - as_mut_ptr())
            amp = [c for c in res.log if c["kind"] == "call" and not c["chain"] and c["callee"].endswith("::as_mut_ptr") and c["seq"] < e["seq"]]
            off = None
            if amp:
                off = add(sub(v, cz(amp[-1]["result"])), field(self_p(), "allocated", "ptr_offset"))
            aligned = off is not None and tag(off) == "alignUp" and off[1] == ("align_of", "T")
            yield Ob(key_of("C14-B6", b.path, "aligned"), aligned,
                     "returned pointer offset = %s: %s" % (short(off, 160) if off is not None else "?", "multiple of align_of T" if aligned else "NOT provably aligned"), ctx.loc(e))
            # the owned handle of an empty allocation has no arena behind it (arena: Either::Right(dangling u8 pointer), Meta::null): its base pointer is
            # address 1, so a pointer derived from it is neither aligned nor inside the arena - the Ok path must exclude the empty buffer
            if h == "BytesMut":
                fs0 = set(canon(f, IMMUT) for f in ctx.facts_of(ev, e))
                nonempty = Order(fs0).le(const(1), cap_term())
                yield Ob(key_of("C14-B6", b.path, "not-the-null-handle"), nonempty,
                         "Ok(non-dangling) only for a buffer with capacity() >= 1 (the null owned handle's base pointer is NonNull::<u8>::dangling()): %s" % ("guarded" if nonempty else "NOT guarded"), ctx.loc(e))
            # align_offset saturates to a misaligned u32::MAX when the aligned offset does not fit in a u32: the Ok path must exclude that value
            # (a check that the low bits are zero, or room for at least one more byte below u32::MAX)
            if aligned:
                fs_ = set(canon(f, IMMUT) for f in ctx.facts_of(ev, e))
                lowbits = any(f[0] == "cmp" and f[1] == "Eq" and is_const(f[3]) and f[3].c == 0 and tag(f[2]) == "op" and f[2][1] == "BitAnd" and cz(f[2][2]) == off for f in fs_)
                below = Order(fs_, extra_ge0=[sub(const(2**32 - 1), cap_term())]).le(add(off, const(1)), const(2**32 - 1))
                yield Ob(key_of("C14-B6", b.path, "not-saturated"), lowbits or below,
                         "the aligned offset is a real multiple of align_of T, not the saturated u32::MAX: %s" % ("low bits tested" if lowbits else ("bounded below u32::MAX" if below else "NOT established")), ctx.loc(e))
            ls = [s for s in len_stores(res) if s["seq"] < e["seq"]]
            order, fs = order_for(ctx, ev, e, immut=IMMUT)
            ok_len = bool(ls) and all(order.le(cz(s["value"]), cap_term()) for s in ls)
            yield Ob(key_of("C14-B6", b.path, "len-in-capacity"), ok_len,
                     "new len %s <= capacity(): %s" % ([short(cz(s["value"]), 100) for s in ls], "proved" if ok_len else "NOT proved"), ctx.loc(e),
                     {"facts": sorted(show(f) for f in fs if f[0] == "cmp")[:4]})
            # "a pointer aligned for T inside the buffer": T is not zero-sized on this path, so at least one byte of the buffer must lie behind the pointer
            inside = bool(ls) and all(order.le(add(cz(s["value"]), const(1)), cap_term()) for s in ls)
            yield Ob(key_of("C14-B6", b.path, "pointer-inside-buffer"), inside,
                     "new len %s < capacity(): %s" % ([short(cz(s["value"]), 100) for s in ls], "proved" if inside else
                                                      "NOT proved - when the padding uses up the rest of the buffer the Ok pointer is one past its end (the first byte of the next allocation)"), ctx.loc(e))
        for e in res.log:
            if e["kind"] == "ret0" and not e["chain"] and tag(e["value"]) == "variant" and e["value"][2] == "Err":
                before = [s for s in len_stores(res) if s["seq"] < e["seq"] and b.dominates(s["bb"], e["bb"])]
                yield Ob(key_of("C14-B6", b.path, "err-len-unchanged"), not before, "Err return leaves len unchanged", ctx.loc(e))


@rule("C14-B7", "C14", 4, "put_aligned<T>: the value is written only under a guard len' + size_of T <= capacity(), and every Err "
      "return leaves len at its entry value")
def b7(ctx):
    for h, name, b in handle_methods(ctx, r"put_aligned"):
        ev, res = ctx.eval(b)
        ws = [e for e in res.log if is_raw_write(e)]
        if not ws:
            yield Ob(key_of("C14-B7", b.path, "no-write-found"), False, "no write found", b.loc())
        for e in ws:
            order, fs = order_for(ctx, ev, e, immut=IMMUT)
            # len current at the write = (the len update that follows the write) - size_of T
            after = [s for s in len_stores(res) if s["seq"] > e["seq"] and not s["chain"]]
            cur = cz(sub(after[0]["value"], ("size_of", "T"))) if after else None
            if cur is None:
                yield Ob(key_of("C14-B7", b.path, "no-len-update"), False, "no len update after the write", ctx.loc(e))
                continue
            ok = order.le(add(cur, ("size_of", "T")), cap_term())
            yield Ob(key_of("C14-B7", b.path, "write-guard"), ok,
                     "write of T at len'=%s guarded by len' + size_of T <= capacity(): %s" % (short(cur, 100), "proved" if ok else "NOT proved (out-of-bounds write possible)"),
                     ctx.loc(e), {"facts": sorted(show(f) for f in fs if f[0] == "cmp")[:4]})
        # Err returns: last len store before them (on a dominating path) must restore len0
        rets = [e for e in res.log if e["kind"] == "ret0" and not e["chain"]]
        for e in rets:
            v = e["value"]
            is_err = (tag(v) == "variant" and v[2] == "Err") or tag(v) == "residual"
            if not is_err:
                continue
            # stores whose guards are implied on this path: use guard-set inclusion
            ge = set(ctx.guards_of(ev, e))
            prior = [s for s in len_stores(res) if s["seq"] < e["seq"] and set(ctx.guards_of(ev, s)) <= ge]
            okr = (not prior) or term_eq(prior[-1]["value"], len0())
            yield Ob(key_of("C14-B7", b.path, "err-len-unchanged"), okr, "Err return leaves len unchanged (last store: %s)" % (short(prior[-1]["value"], 80) if prior else "none"), ctx.loc(e))


@rule("C14-B8", "C14", 16, "put_<ty>_varint: the slice handed to the encoder is (ptr + len, capacity() - len) and len is advanced only "
      "by the encoder's Ok length")
def b8(ctx):
    for h, name, b in handle_methods(ctx, r"put_[ui](?:16|32|64|128)_varint"):
        ev, res = ctx.eval(b)
        sl = [e for e in res.log if e["kind"] == "call" and not e["chain"] and e["callee"].endswith("from_raw_parts_mut")]
        ok = False
        if sl:
            p, n = cz(sl[0]["args"][0]), cz(sl[0]["args"][1])
            ok = term_eq(n, sub(cap_term(), len0())) and mentions(p, len0())
        yield Ob(key_of("C14-B8", b.path, "slice"), ok, "encoder slice = (ptr + len, capacity - len)", b.loc(), {"slice": sl and [short(cz(a), 120) for a in sl[0]["args"]]})
        enc = [e for e in res.log if e["kind"] == "call" and re.search(r"leb128::encode_.*_varint_to$", e["callee"])]
        ty = re.match(r"put_([ui]\d+)_varint", name).group(1)
        ok_e = len(enc) == 1 and enc[0]["callee"].endswith("encode_%s_varint_to" % ty)
        yield Ob(key_of("C14-B8", b.path, "encoder"), ok_e, "calls dbutils::leb128::encode_%s_varint_to" % ty, b.loc())
        ls = len_stores(res)
        # len is stored once and what is added is the payload of the encoder's Ok - obtained through `inspect`, `?`, `unwrap` or a `match`: none of them
        # yields it when the encoder failed
        ok_l = len(ls) == 1
        if ok_l:
            v = ls[0]["value"]
            rest = as_lin(sub(v, ("hload", self_p(), ("len",), ("v", 1)))) if mentions(v, ("hload", self_p(), ("len",), ("v", 1))) else as_lin(sub(v, len0()))
            atoms = [(a, k) for a, k in rest.m.items()]
            ok_l = rest.c == 0 and len(atoms) == 1 and atoms[0][1] == 1
            if ok_l:
                a = atoms[0][0]
                ok_l = (tag(a) == "payload" and a[2] == "Ok" and str(a[3]) == "0" and tag(a[1]) == "call" and enc and a[1][1] == enc[0]["callee"])
        yield Ob(key_of("C14-B8", b.path, "len-on-ok"), ok_l, "len advanced once, by the encoder's Ok length", b.loc(), {"stores": [short(x["value"], 100) for x in ls]})


@rule("C14-B9", "C14", 2, "who writes `len` of a byte handle: only put*/get*_unchecked/set_len/align_to/put_aligned/put/varint closures and constructors")
def b9(ctx):
    allowed = re.compile(r"::(put_\w+|get_\w+_unchecked|get_u8_unchecked|set_len|align_to|put_aligned|put|put_slice_unchecked)(::\{closure#\d+\})?$")
    n = 0
    for b in ctx.facts.own:
        for bi in sorted(b.reachable):
            for si, st in enumerate(b.blocks[bi]["stmts"]):
                pl = st["place"]
                fs = [p for p in pl["proj"] if isinstance(p, dict) and "f" in p]
                if fs and fs[-1]["f"] == "len" and fs[-1].get("adt") in ("bytes::BytesMut", "bytes::BytesRefMut"):
                    n += 1
                    ok = bool(allowed.search(b.path))
                    yield Ob(key_of("C14-B9", b.path, "len-writer"), ok, "store to handle.len in %s" % b.path, b.loc(bi, si), trivial=False)


@rule("C14-B10", "C14", 2, "put<T>: callers are told to align_to first only `if T is not ZST`, so for a zero-sized T the buffer position has any alignment: the typed "
      "write and the returned reference use the buffer position only under a guard size_of::<T>() != 0 (a zero-sized value needs no memory; `&mut *` of a "
      "misaligned pointer is undefined behaviour - an abort with debug assertions - even for a ZST)")
def b10(ctx):
    for h, name, b in handle_methods(ctx, r"put"):
        if name != "put":
            continue
        ev, res = ctx.eval(b)
        ws = [e for e in res.log if e["kind"] == "call" and not e["chain"] and re.search(r"<impl \*mut T>::write$", e["callee"])
              and any(c["kind"] == "call" and not c["chain"] and c["callee"].endswith("::as_mut_ptr") and mentions(e["args"][0], c["result"]) for c in res.log)]
        ok = True
        for e in ws:
            fs = set(canon(f, IMMUT) for f in ctx.facts_of(ev, e))
            o = Order(fs)
            nz = o.le(const(1), ("size_of", "T"))
            ok = ok and nz
        yield Ob(key_of("C14-B10", b.path, "zst-does-not-use-the-buffer-position"), ok,
                 "%d typed write(s) through the buffer position, %s" % (len(ws), "each under size_of T >= 1" if ok else "reachable with a zero-sized T at a position of any alignment"),
                 ctx.loc(ws[0]) if ws else b.loc())


@rule("C14-B11", "C14", 8, "the views of both byte handles designate the buffer itself: buffer() / buffer_mut() are the arena bytes [ptr_offset, ptr_offset + capacity()), "
      "deref / deref_mut the first len of them, as_ptr / as_mut_ptr the arena pointer at ptr_offset - every put_* writes through buffer_mut() / as_mut_ptr() and every "
      "get_* reads through buffer(), so a view that starts at the owned extent (memory_offset: the node header of a recycled segment, the alignment padding) moves "
      "every access in front of the buffer", also=("C01", "C08"))
def b11(ctx):
    want_off = field(self_p(), "allocated", "ptr_offset")
    n = 0
    for b in ctx.facts.own:
        m = re.match(r"^bytes::(BytesMut|BytesRefMut)::<.*?>::(buffer|buffer_mut|as_ptr|as_mut_ptr)$|^<bytes::(BytesMut|BytesRefMut)<.*?> as std::ops::(?:Deref|DerefMut)>::(deref|deref_mut)$", b.path)
        if not m:
            continue
        name = m.group(2) or m.group(4)
        ev, res = ctx.eval(b, no_inline=(r"::get_bytes(_mut)?$", r"::get_pointer(_mut)?$"))
        calls = [e for e in res.log if e["kind"] == "call" and re.search(r"::get_(bytes|pointer)(_mut)?$", e["callee"])]
        if not calls:
            yield Ob(key_of("C14-B11", b.path, "view"), False, "%s does not reach get_bytes / get_pointer of the arena" % name, b.loc())
            continue
        for e in calls:
            n += 1
            off = cz(e["args"][1])
            ok = off == want_off
            what = "offset %s" % short(off, 60)
            if re.search(r"get_bytes(_mut)?$", e["callee"]):
                size = cz(e["args"][2])
                want_size = cap_term() if name.startswith("buffer") else cz(len0())
                is_len = name.startswith("deref") and size in (cz(len0()), field(self_p(), "len"))      # (&self: a plain field read; &mut self: a read of the place)
                ok = ok and (size == want_size or is_len or term_eq(size, want_size))
                what += ", length %s (want %s)" % (short(size, 60), short(want_size, 60))
            yield Ob(key_of("C14-B11", b.path, "view"), ok, "%s: %s(%s) - want offset %s" % (name, e["callee"].split("::")[-1], what, show(want_off)), ctx.loc(e))
