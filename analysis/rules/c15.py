"""C15 - arena-level readers never look beyond the allocated prefix."""
import re
from engine import rule, Ob, key_of, EXPLAIN, ASSUME
from sym import Lin, add, sub, const, tag, show, is_const, as_lin
from util import *
from facts import AnchorError
from order import Order, term_eq

EXPLAIN["C15"] = (
    "Decides, for all 16 fixed-width readers, get_u8/get_i8, the 8 varint readers and the three slice accessors of the "
    "Allocator trait (default methods, analysed once for every implementor): the read is dominated by a guard that places "
    "the whole value below allocated() (R1/R3), arithmetic on the caller-supplied offset cannot overflow (R1'), the converter "
    "matches the method name (R2), varint slices start at ptr+offset, end at or below allocated() and are at least "
    "min(allocated-offset, ceil(bits/7)) long (R4), and allocated_memory/data/memory have the documented base and length (R5). "
    "Symbolic offset and allocated(), so every offset including usize extremes is covered. Not decided: the LEB128 decoder.")
ASSUME["C15"] = ["dbutils::leb128::decode_* reads only inside the slice it is given, and answers an empty slice with Underflow",
                 "allocated() <= capacity() and the mapping is at least capacity() bytes long (C01/C16)"]

SELF = ("param", 0, "self")
OFF = ("param", 1, "offset")
ALLOC = ("call", "allocator::Allocator::allocated", (SELF,))
RAW = ("call", "allocator::Allocator::raw_ptr", (SELF,))


def readers(ctx, pat):
    out = []
    for b in ctx.facts.own:
        m = re.match(r"^allocator::Allocator::(%s)$" % pat, b.path)
        if m:
            out.append((m.group(1), b))
    return out


@rule("C15-R0", "C15", 2, "get_pointer / get_pointer_mut return raw + offset; the bare base is returned only under offset == 0")
def r0(ctx):
    for name, b in readers(ctx, r"get_pointer|get_pointer_mut"):
        ev, res = ctx.eval(b)
        rets = [e for e in res.log if e["kind"] == "ret0" and not e["chain"]]
        raw = [e["result"] for e in res.log if e["kind"] == "call" and re.search(r"raw_(mut_)?ptr$", e["callee"])]
        base = raw[0] if raw else None
        ok_all = bool(rets) and base is not None
        for e in rets:
            v = e["value"]
            if v == base:
                fs = ctx.facts_of(ev, e)
                ok = ("cmp", "Eq", OFF, const(0)) in fs
            else:
                ok = term_eq(v, add(base, OFF))
            ok_all = ok_all and ok
        yield Ob(key_of("C15-R0", b.path, "returns"), ok_all, "returns raw + offset (bare base only when offset == 0)", b.loc())


@rule("C15-R1", "C15", 32, "get_<ty>_<e>(offset): the slice read is (raw_ptr + offset, size_of ty) and is dominated by the guard "
      "offset + size_of ty <= allocated(); arithmetic on `offset` cannot overflow (checked or bounded by a dominating guard)")
def r1(ctx):
    for name, b in readers(ctx, r"get_[ui](?:16|32|64|128)_(?:be|le)"):
        ev, res = ctx.eval(b)
        ty = re.match(r"get_([ui]\d+)_", name).group(1)
        size = const(INT_SIZE[ty])
        sl = [e for e in res.log if e["kind"] == "call" and e["callee"].endswith("slice::from_raw_parts")]
        if len(sl) != 1:
            yield Ob(key_of("C15-R1", b.path, "slice"), False, "expected one slice construction, found %d" % len(sl), b.loc())
            continue
        e = sl[0]
        ok_t = term_eq(e["args"][0], add(RAW, OFF)) and term_eq(e["args"][1], size)
        yield Ob(key_of("C15-R1", b.path, "slice"), ok_t, "slice = (raw_ptr + offset, %s): got (%s, %s)" % (show(size), short(e["args"][0], 80), show(e["args"][1])), ctx.loc(e))
        order, fs = order_for(ctx, ev, e)
        ok_g = order.le(add(OFF, size), ALLOC)
        yield Ob(key_of("C15-R1", b.path, "guard"), ok_g, "read dominated by offset + %s <= allocated(): %s" % (show(size), "proved" if ok_g else "NOT proved"), ctx.loc(e),
                 {"facts": sorted(show(f) for f in fs if f[0] == "cmp")[:4]})
        # overflow of arithmetic involving the caller's offset
        for a in res.log:
            if a["kind"] == "arith" and (mentions(a["a"], OFF) or mentions(a["b"], OFF)):
                o2, _ = order_for(ctx, ev, a)
                ok_o = overflow_discharged(o2, a)
                yield Ob(key_of("C15-R1'", b.path, "offset-arith"), ok_o,
                         "%s(%s, %s) on the caller-supplied offset %s" % (a["op"], show(a["a"]), show(a["b"]), "is bounded by a dominating guard" if ok_o else "can overflow (panic with overflow checks, wrap-around then out-of-bounds read without)"),
                         ctx.loc(a))
        # an Err(OutOfBounds) return exists on the other edge
        errs = [x for x in res.log if x["kind"] == "ret0" and not x["chain"] and tag(x["value"]) == "variant" and x["value"][2] == "Err"]
        ok_e = any(tag(x["value"][3][0]) == "variant" and x["value"][3][0][2] == "OutOfBounds" for x in errs)
        yield Ob(key_of("C15-R1", b.path, "err"), ok_e, "the failing edge returns Error::OutOfBounds", b.loc())


@rule("C15-R2", "C15", 32, "converter agreement of arena readers: get_<ty>_<e>[_unchecked] calls <ty>::from_<e>_bytes")
def r2(ctx):
    for name, b in readers(ctx, r"get_[ui](?:16|32|64|128)_(?:be|le)(?:_unchecked)?"):
        m = re.match(r"get_([ui]\d+)_(be|le)", name)
        want = "core::num::<impl %s>::from_%s_bytes" % (m.group(1), m.group(2))
        got = [(t.get("resolved") or t.get("callee")) for _, t in b.calls() if re.search(r"::(from|to)_(be|le|ne)_bytes$", t.get("callee") or "")]
        yield Ob(key_of("C15-R2", b.path, "converter"), got == [want], "calls %s (expected %s)" % (got, want), b.loc())


@rule("C15-R3", "C15", 2, "get_u8/get_i8(offset): the 1-byte read at raw_ptr + offset is dominated by offset < allocated()")
def r3(ctx):
    for name, b in readers(ctx, r"get_u8|get_i8"):
        ev, res = ctx.eval(b)
        sl = [e for e in res.log if e["kind"] == "call" and e["callee"].endswith("slice::from_raw_parts")]
        ok = len(sl) == 1 and term_eq(sl[0]["args"][0], add(RAW, OFF)) and term_eq(sl[0]["args"][1], const(1))
        yield Ob(key_of("C15-R3", b.path, "slice"), ok, "slice = (raw_ptr + offset, 1)", b.loc())
        if sl:
            order, fs = order_for(ctx, ev, sl[0])
            okg = order.le(add(OFF, const(1)), ALLOC)
            yield Ob(key_of("C15-R3", b.path, "guard"), okg, "read dominated by offset < allocated()", ctx.loc(sl[0]))


VARINT_MAX = {"16": 3, "32": 5, "64": 10, "128": 19}


@rule("C15-R4", "C15", 8, "get_<ty>_varint(offset): guard offset < allocated(); decoder slice = (ptr + offset, min(allocated - offset, K)) "
      "with K >= ceil(bits/7); so it never extends to allocated() or beyond")
def r4(ctx):
    for name, b in readers(ctx, r"get_[ui](?:16|32|64|128)_varint"):
        ev, res = ctx.eval(b)
        m = re.match(r"get_([ui])(\d+)_varint", name)
        k = VARINT_MAX[m.group(2)]
        sl = [e for e in res.log if e["kind"] == "call" and e["callee"].endswith("slice::from_raw_parts")]
        if len(sl) != 1:
            yield Ob(key_of("C15-R4", b.path, "slice"), False, "expected one slice construction", b.loc())
            continue
        e = sl[0]
        p = ptr_general(e["args"][0])
        n = e["args"][1]
        ok_p = term_eq(p, add(RAW, OFF))
        yield Ob(key_of("C15-R4", b.path, "base"), ok_p, "decoder slice starts at raw_ptr + offset (got %s)" % short(p, 100), ctx.loc(e))
        order, fs = order_for(ctx, ev, e)
        ok_g = order.le(add(OFF, const(1)), ALLOC)
        # a window measured as min(allocated.saturating_sub(offset), K) is allocated - offset wherever offset <= allocated
        if tag(n) == "min" and order.le(OFF, ALLOC):
            parts_ = [sub(ALLOC, OFF) if (tag(x) == "satsub" and term_eq(x[1], ALLOC) and term_eq(x[2], OFF)) else x for x in (n[1], n[2])]
            n = ("min", *sorted(parts_, key=repr))
        elif tag(n) == "satsub" and term_eq(n[1], ALLOC) and term_eq(n[2], OFF) and order.le(OFF, ALLOC):
            n = sub(ALLOC, OFF)
        if not ok_g and order.le(OFF, ALLOC) and tag(n) == "min" and any(term_eq(x, sub(ALLOC, OFF)) for x in (n[1], n[2])):
            # offset == allocated() is let through with an empty window: nothing is read, and the decoder's answer to an empty window (Underflow) is
            # OutOfBounds by R6 - the same refusal as the explicit guard's
            ok_g = True
        yield Ob(key_of("C15-R4", b.path, "guard"), ok_g, "dominated by offset < allocated() (or offset <= allocated() with a window that is empty at equality)", ctx.loc(e))
        # upper bound: offset + n <= allocated ; lower bound: n >= min(allocated - offset, K)
        ok_u = order.le(add(OFF, n), ALLOC)
        yield Ob(key_of("C15-R4", b.path, "end"), ok_u, "slice end offset + %s <= allocated(): %s" % (short(n, 60), "proved" if ok_u else "NOT proved"), ctx.loc(e))
        want = ("min", *sorted([sub(ALLOC, OFF), const(k)], key=repr))
        ok_l = False
        if tag(n) == "min":
            parts = [n[1], n[2]]
            cs = [x for x in parts if is_const(x)]
            rest = [x for x in parts if not is_const(x)]
            ok_l = len(cs) == 1 and cs[0].c >= k and len(rest) == 1 and term_eq(rest[0], sub(ALLOC, OFF))
        elif term_eq(n, sub(ALLOC, OFF)):
            ok_l = True
        yield Ob(key_of("C15-R4", b.path, "length"), ok_l, "slice length >= min(allocated - offset, %d) (got %s)" % (k, short(n, 60)), ctx.loc(e))
        dec = [x for x in res.log if x["kind"] == "call" and re.search(r"leb128::decode_\w+_varint$", x["callee"])]
        ok_d = len(dec) == 1 and dec[0]["callee"].endswith("decode_%s%s_varint" % (m.group(1), m.group(2)))
        yield Ob(key_of("C15-R4", b.path, "decoder"), ok_d, "calls decode_%s%s_varint" % (m.group(1), m.group(2)), b.loc())


@rule("C15-R5", "C15", 3, "allocated_memory() = (raw_ptr, allocated()); data() = (raw_ptr + data_offset(), allocated() - data_offset()); memory() = (raw_ptr, capacity())")
def r5(ctx):
    specs = {
        "allocated_memory": lambda p, n, DO, CAP: term_eq(p, RAW) and term_eq(n, ALLOC),
        "data": lambda p, n, DO, CAP: DO is not None and term_eq(p, add(RAW, DO)) and term_eq(n, sub(ALLOC, DO)),
        "memory": lambda p, n, DO, CAP: CAP is not None and term_eq(p, RAW) and term_eq(n, CAP),
    }
    for name, b in readers(ctx, r"allocated_memory|data|memory"):
        ev, res = ctx.eval(b, no_inline=(r"Allocator::data_offset$", r"Allocator::capacity$"))
        sl = [e for e in res.log if e["kind"] == "call" and e["callee"].endswith("slice::from_raw_parts")]
        DO = next((e["result"] for e in res.log if e["kind"] == "call" and e["callee"].endswith("Allocator::data_offset")), None)
        CAP = next((e["result"] for e in res.log if e["kind"] == "call" and e["callee"].endswith("Allocator::capacity")), None)
        ok = len(sl) == 1 and specs[name](sl[0]["args"][0], sl[0]["args"][1], DO, CAP)
        yield Ob(key_of("C15-R5", b.path, "slice"), ok, "%s() slice terms: %s" % (name, [short(a, 90) for a in sl[0]["args"]] if sl else None), b.loc())


@rule("C15-R6", "C15", 8, "get_<ty>_varint(offset): a value that does not end below allocated() is reported as OutOfBounds - the decoder's `Underflow` (the window, "
      "cut at allocated() by R4, ended before the value did) is turned into Error::OutOfBounds, not passed on as a decoding error")
def r6(ctx):
    enum = ctx.facts.ext_enums.get("dbutils::leb128::DecodeVarintError")
    under = [int(v["discr"]) for v in (enum["variants"] if enum else []) if v["name"] == "Underflow"]
    if len(under) != 1:
        raise AnchorError("the decoder's error enum (dbutils::leb128::DecodeVarintError) has no Underflow variant in the facts")
    U = under[0]
    for name, b in readers(ctx, r"get_[ui](?:16|32|64|128)_varint"):
        ev, res = ctx.eval(b)
        dec = [x for x in res.log if x["kind"] == "call" and re.search(r"leb128::decode_\w+_varint$", x["callee"])]
        if len(dec) != 1:
            yield Ob(key_of("C15-R6", b.path, "underflow-is-out-of-bounds"), False, "expected one decoder call", b.loc())
            continue
        err = ("payload", dec[0]["result"], "Err", 0)
        # error values built on the decoder's Err path, with what is known about the decoder's error at that point
        good = False
        passed_on = False
        for e in res.log:
            if e["kind"] != "ret0" or not e["chain"]:
                continue
            ds = [f for f in ctx.facts_of(ev, e) if f[0] == "discr" and f[1] == err]
            if not ds:
                continue
            is_under = any(f[2] == ("eq", U) for f in ds)
            not_under = any(f[2][0] == "ne" and U in (f[2][1] if isinstance(f[2][1], tuple) else (f[2][1],)) for f in ds) or any(f[2][0] == "eq" and f[2][1] != U for f in ds)
            v = e["value"]
            if is_under:
                good = good or (tag(v) == "variant" and v[2] == "OutOfBounds")
                passed_on = passed_on or mentions(v, err)
            elif not not_under and mentions(v, err):
                passed_on = True
        if not good and not passed_on:
            # no case analysis on the decoder's error at all: it is converted as it is
            passed_on = True
        yield Ob(key_of("C15-R6", b.path, "underflow-is-out-of-bounds"), good and not passed_on,
                 "%s: %s" % (name, "the Underflow arm builds Error::OutOfBounds" if good and not passed_on else
                             "the decoder's Underflow reaches the caller as Error::DecodeVarintError: get_*_varint at allocated() - 1 on a byte with the continuation bit is not OutOfBounds"), ctx.loc(dec[0]))
