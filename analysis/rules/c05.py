"""C05 - a file-backed arena reopens to exactly the state it was closed in (persistence discipline)."""
import re, json
from engine import rule, Ob, key_of, EXPLAIN, ASSUME
from sym import Lin, add, sub, const, tag, show, is_const, as_lin, implied_facts, struct_get
from util import *
from order import Order, term_eq
from c09 import mapping_writes, success_fact, continues, header_method_writes

EXPLAIN["C05"] = (
    "Decides the persistence discipline that makes a reopen see the closed state (the behaviour over histories is not decided): S1 both file "
    "constructors keep the header inside the mapping (Either::Left, unified) - C16-L1; S2 both Header types are repr(C) with only integer / "
    "atomic-integer fields and the sentinel word - no pointer can be persisted - and no function other than constructors, Clone and "
    "unsync::truncate stores to a field of an Arena value (no state outside the file); S3 on the existing-file path of map_mut_in the only "
    "write into the mapping is write_bytes(ptr + a, 0, cap - a) with a = the cursor stored in the file, guarded by cap > a: neither the header "
    "nor any byte below the cursor is written (with C09-Op2: only after validation); S4 the create path writes the identification block and "
    "H::new(data_offset, minimum_segment_size) - C16-L9; S5 a read-only open takes the free-list kind from the file (validator's return value); "
    "S6 the Arena's cached fields are copies of Memory getters - C16-L6; S7 map_in / reopen never rewrite minimum_segment_size, discarded or the "
    "sentinel: no header store on the existing-file paths.")
ASSUME["C05"] = ["OS page cache / memmap2: a shared mapping's stores are what a later open maps", "C01/C10 invariants for the contents written before closing"]

MEMCFG = ("memmap", "memmap-nooverflow", "memmap-tracing")


_HS = "key:handle-has-no-mutable-state$"


@rule("C05-S2", "C05", 4, "all persistent mutable state is integers in the header: Header is repr(C) with only (atomic) integer fields and the sentinel word; Arena values are "
      "never mutated outside constructors, Clone and unsync::truncate, and cannot be through a shared reference either: no field of an Arena has interior mutability "
      "(every owned buffer holds its own clone of the handle - allocator state kept in a handle is neither persisted nor seen by the other clones: the same range "
      "handed out through two handles, a minimum segment size that differs per handle)",
      also=(("C01", _HS), ("C02", "key:^C05-S2:sync::Arena:handle-has-no-mutable-state$"), ("C10", _HS), ("C20", _HS), ("C11", _HS)))
def s2(ctx):
    for fl in ("sync", "unsync"):
        ar = ctx.facts.adts.get("%s::Arena" % fl)
        bad = []
        inner_ok = False
        if ar:
            for f in ar["variants"][0]["fields"]:
                if f["name"] == "inner":
                    inner_ok = bool(re.match(r"^(std|core)::ptr::NonNull<memory::Memory<", f["ty"]))
                elif re.search(r"Cell|Atomic|Mutex|RwLock|Once|Lazy|Lock\b", f["ty"]):
                    # a field nothing but Debug / Clone / the constructors touches (a counter kept for display) is not allocator state
                    pat = re.compile(r'\{"f": "%s", [^{}]*"adt": "%s::Arena"\}' % (re.escape(f["name"]), fl))
                    users = [b.path for b in ctx.facts.own if pat.search(json.dumps(b.blocks))
                             and not re.search(r"as (?:std|core)::(?:fmt::Debug>::fmt|clone::Clone>::clone|convert::From<memory::Memory<.*>>>::from)$", b.path)]
                    if users:
                        bad.append((f["name"], f["ty"], users[:3]))
        yield Ob(key_of("C05-S2", "%s::Arena" % fl, "handle-has-no-mutable-state"), ar is not None and inner_ok and not bad,
                 "fields of %s::Arena other than the pointer to the shared Memory are plain values (interior mutability: %s)" % (fl, bad), "%s:%s" % (ar["file"], ar["line"]) if ar else None)
        a = ctx.facts.adts.get("%s::sealed::Header" % fl)
        ok = a is not None and "IS_C" in a["repr"]
        tys = []
        if a:
            for f in a["variants"][0]["fields"]:
                tys.append((f["name"], f["ty"]))
                okf = bool(re.match(r"^(u32|std::sync::atomic::Atomic<u32>|core::sync::atomic::Atomic<u32>|(un)?sync::SegmentNode)$", f["ty"]))
                ok = ok and okf
        yield Ob(key_of("C05-S2", "%s::sealed::Header" % fl, "integers-only"), ok, "Header fields: %s" % tys, "%s:%s" % (a["file"], a["line"]) if a else None)
        sn = ctx.facts.adts.get("%s::SegmentNode" % fl)
        oks = sn is not None and "TRANSPARENT" in sn["repr"].upper() and re.search(r"(Atomic<u64>|UnsafeCell<u64>)$", sn["variants"][0]["fields"][0]["ty"]) is not None
        yield Ob(key_of("C05-S2", "%s::SegmentNode" % fl, "one-word"), oks, "SegmentNode is one transparent 64-bit word (offsets, not pointers)", "%s:%s" % (sn["file"], sn["line"]) if sn else None)
    allowed = re.compile(r"(as (std|core)::clone::Clone>::clone$|as (std|core)::convert::From<memory::Memory<.*>>>::from$|^unsync::Arena::truncate$)")
    n = 0
    for b in ctx.facts.own:
        for bi in sorted(b.reachable):
            for si, st in enumerate(b.blocks[bi]["stmts"]):
                pl = st["place"]
                fs = [p for p in pl["proj"] if isinstance(p, dict) and "f" in p]
                if fs and fs[-1].get("adt") in ("sync::Arena", "unsync::Arena") and pl["proj"][-1] == fs[-1]:
                    n += 1
                    yield Ob(key_of("C05-S2", b.path, "arena-field-store"), bool(allowed.search(b.path)), "Arena.%s assigned in %s" % (fs[-1]["f"], b.path), b.loc(bi, si))
    yield Ob(key_of("C05-S2", "Arena", "field-stores-seen"), (n >= 2) if ctx.memmap else (n >= 2), "Arena field stores found only in truncate (%d) - positive control" % n, None, trivial=True)


@rule("C05-S3", "C05", 3, "reopen (existing-file path of map_mut_in): the only write into the mapping zeroes [a, cap) with a = the cursor stored in the file, under cap > a; "
      "the header and every byte below the cursor are left as they are", configs=MEMCFG, also=("C06",))
def s3(ctx):
    b = ctx.facts.one(r"^memory::Memory::<R, PR, H>::map_mut_in::\{closure#0\}$")
    ev, res = ctx.eval(b, no_inline=(r"::mlock$",))
    CN = ("upvar", "create_new")
    ws = [e for e in mapping_writes(res) if ("bool", CN, True) not in ctx.facts_of(ev, e)]
    # a Header method called on the mapped header is opaque here (H is generic): it is a write when either implementation stores into the header
    ws += [f for e, f in header_method_writes(ctx, res) if ("bool", CN, True) not in ctx.facts_of(ev, e)]
    yield Ob(key_of("C05-S3", b.path, "one-write"), len(ws) == 1 and ws[0].get("effect") == "write_bytes", "exactly one write on the existing-file path (%d)" % len(ws), b.loc())
    for e in ws:
        if e.get("effect") != "write_bytes":
            yield Ob(key_of("C05-S3", b.path, "unexpected-write"), False, "%s on the existing-file path" % (e.get("effect") or e.get("how")), ctx.loc(e))
            continue
        fs = ctx.facts_of(ev, e)
        la = [c for c in res.log if c["kind"] == "call" and c["callee"].endswith("load_allocated")]
        ok = len(la) == 1
        if ok:
            a = la[0]["result"]
            base = [x for x in as_lin(e["dst"]).m if tag(x) == "call" and x[1].endswith("as_mut_ptr")]
            cap = [c["result"] for c in res.log if c["kind"] == "call" and c["callee"].endswith("slice::<impl [T]>::len")]
            # [a, a + count) = [stored cursor, cap): proved from the dominating guards, whatever form they take (cap > a, cap - a != 0, saturating_sub ..)
            order = Order(fs)
            ok = len(base) == 1 and term_eq(sub(e["dst"], base[0]), a) and bool(cap) and order.eq(add(e["count"], a), cap[0]) and e["byte"] == const(0)
            ok = ok and ("bool", CN, False) in fs and order.le(a, cap[0])
            # the cursor is read from the header inside the mapping at the header offset
            ok = ok and base[0] in as_lin(la[0]["args"][0]).m
        yield Ob(key_of("C05-S3", b.path, "zero-above-cursor"), ok, "write_bytes(ptr + stored cursor, 0, cap - stored cursor) under cap > stored cursor", ctx.loc(e))
    hdr = [e for e in mapping_writes(res) if e.get("effect") == "ptr_write"]
    okh = all(("bool", CN, True) in ctx.facts_of(ev, e) for e in hdr) and len(hdr) == 1
    yield Ob(key_of("C05-S3", b.path, "header-only-on-create"), okh, "the header is (re)written only when the file was just created", b.loc())


@rule("C05-S5", "C05", 2, "a read-only open takes the free-list kind from the file (Memory.freelist = what sanity_check decoded), a writable reopen requires the stored kind to equal "
      "the caller's (sanity_check(Some(freelist)))", configs=MEMCFG)
def s5(ctx):
    b = ctx.facts.one(r"^memory::Memory::<R, PR, H>::map_in::\{closure#0\}$")
    ev, res = ctx.eval(b, no_inline=(r"::mlock$", r"^sanity_check$"))
    san = [e for e in res.log if e["kind"] == "call" and e["callee"] == "sanity_check"]
    aggs = [e for e in res.log if e["kind"] == "agg" and e["adt"] == "memory::Memory" and not e["chain"]]
    ok = len(san) == 1 and len(aggs) == 1
    if ok:
        fl = struct_get(aggs[0]["value"], "freelist")
        ok = mentions(fl, san[0]["result"]) and tag(san[0]["args"][0]) == "variant" and san[0]["args"][0][2] == "None"
    yield Ob(key_of("C05-S5", b.path, "freelist-from-file"), ok, "map_in: Memory.freelist = payload of sanity_check(None, ..)", b.loc())
    b = ctx.facts.one(r"^memory::Memory::<R, PR, H>::map_mut_in::\{closure#0\}$")
    ev, res = ctx.eval(b, no_inline=(r"::mlock$", r"^sanity_check$"))
    san = [e for e in res.log if e["kind"] == "call" and e["callee"] == "sanity_check"]
    aggs = [e for e in res.log if e["kind"] == "agg" and e["adt"] == "memory::Memory" and not e["chain"]]
    ok = len(san) == 1 and len(aggs) == 1
    if ok:
        exp = san[0]["args"][0]
        ok = tag(exp) == "variant" and exp[2] == "Some" and struct_get(aggs[0]["value"], "freelist") == exp[3][0]
    yield Ob(key_of("C05-S5", b.path, "freelist-validated"), ok, "map_mut_in: Memory.freelist is the kind that sanity_check compared with the stored one", b.loc())


@rule("C05-S7", "C05", 2, "opening an existing file never stores into the header: no atomic / plain store to allocated, discarded, min_segment_size or the sentinel is reachable from the "
      "constructors or From<Memory>", configs=MEMCFG)
def s7(ctx):
    for pat in (r"^memory::Memory::<R, PR, H>::map_in::\{closure#0\}$", r"^<sync::Arena as (?:std|core)::convert::From<memory::Memory<.*>>>::from$", r"^<unsync::Arena as (?:std|core)::convert::From<memory::Memory<.*>>>::from$"):
        b = ctx.facts.one(pat)
        ev, res = ctx.eval(b, no_inline=(r"::mlock$",))
        bad = [e for e in res.log if (e["kind"] == "call" and e.get("atomic") and e["atomic"] not in ("load",)) or (e["kind"] == "store" and e.get("how") == "store" and tag(e["base"]) != "param") or is_raw_write(e)]
        bad += [e for e, _f in header_method_writes(ctx, res)]
        yield Ob(key_of("C05-S7", b.path, "no-store"), not bad, "%s performs no store into arena memory" % b.path.split("::")[-2 if "closure" in b.path else -1], b.loc(), {"stores": [ctx.loc(e) for e in bad][:3]})


@rule("C05-S8", "C05", 2, "a valid file reopens: the open functions refuse a stored cursor only when it lies outside [data_offset, mapped length] - the cursor of an arena that "
      "was filled to its last byte equals the capacity and must be accepted (an exclusive upper bound turns a full arena into `InvalidInput` on reopen)",
      configs=MEMCFG, also=("C06",))
def s8(ctx):
    import dnf as D
    for name in ("map_mut_in", "map_in"):
        b = ctx.facts.one(r"^memory::Memory::<R, PR, H>::%s::\{closure#0\}$" % name)
        ev, res = ctx.eval(b, no_inline=(r"::mlock$", r"^sanity_check$"))
        aggs = [e for e in res.log if e["kind"] == "agg" and e["adt"] == "memory::Memory" and not e["chain"]]
        la = [c["result"] for c in res.log if c["kind"] == "call" and c["callee"].endswith("load_allocated")]
        if len(aggs) != 1 or not la:
            yield Ob(key_of("C05-S8", b.path, "refuses-only-out-of-range-cursors"), False, "%s: constructor aggregate / cursor load not found" % name, b.loc())
            continue
        do = canon(struct_get(aggs[0]["value"], "data_offset"))
        cap = canon(struct_get(aggs[0]["value"], "cap"))
        a = canon(la[0])
        errs = [r for r in res.log if r["kind"] == "ret0" and not r["chain"] and tag(r["value"]) == "variant" and r["value"][2] == "Err"]
        bad = []
        n = 0
        for r in errs:
            cond = D.block_dnf(ev, res, b, r["bb"], lit=canon)
            if cond is None:
                bad.append((r, "path condition too large"))
                continue
            for c in cond:
                if not any(mentions(f, a) for f in c if f[0] == "cmp"):
                    continue
                o = Order(set(f for f in c if f[0] == "cmp"))
                if o.le(do, a) and o.le(a, cap):
                    continue        # the cursor had passed its validation: refused for another reason (lock, sanity bytes read later, ..)
                n += 1
                if not (o.le(add(a, const(1)), do) or o.le(add(cap, const(1)), a)):
                    bad.append((r, "refused under {%s}" % "; ".join(sorted(show(f) for f in c if f[0] == "cmp" and mentions(f, a)))[:200]))
        yield Ob(key_of("C05-S8", b.path, "refuses-only-out-of-range-cursors"), n >= 1 and not bad,
                 "%s: %d refusal case(s) that depend on the stored cursor, %s" % (name, n, "each implies cursor < data_offset or cursor > mapped length" if not bad else
                                                                                  "%d of them also refuse a cursor inside the bounds: %s" % (len(bad), bad[0][1])),
                 ctx.loc(bad[0][0]) if bad else b.loc())


@rule("C05-S9", "C05", 2, "every mapping of the file starts at the configured offset: where the memory-map options are built (Options::to_mmap_options for the writable opens, "
      "truncate and the anonymous map; by hand in the read-only open), each path that reaches the end of the construction without the call MmapOptions::offset(opts.offset) "
      "carries offset = 0 - and nothing else decides it (a read-only reopen without a capacity option must not map the file from byte 0 and read somebody else's header)",
      configs=MEMCFG, also=("C09", "C16"))
def s9(ctx):
    import dnf as D
    for pat in (r"options::Options>::to_mmap_options$|^options::Options::to_mmap_options$", r"^memory::Memory::<R, PR, H>::map_in$"):
        b = ctx.facts.one(pat)
        ev, res = ctx.eval(b, no_inline=(r"\{closure",))
        offs = [e for e in res.log if e["kind"] == "call" and not e["chain"] and re.search(r"MmapOptions::offset$", e["callee"])]
        if len(offs) != 1:
            yield Ob(key_of("C05-S9", b.path, "offset-call"), False, "expected one MmapOptions::offset call, found %d" % len(offs), b.loc())
            continue
        e = offs[0]
        arg = canon(e["args"][1])
        oka = "offset" in show(arg) and tag(arg) in ("field", "hload", "call", "upvar", "param")
        yield Ob(key_of("C05-S9", b.path, "offset-value"), oka, "MmapOptions::offset(%s)" % short(arg, 60), ctx.loc(e))
        # the ends of the construction: the returns of to_mmap_options / the call that maps in map_in
        if b.name == "to_mmap_options":
            ends = [r["bb"] for r in res.log if r["kind"] == "ret0" and not r["chain"]]
        else:
            ends = [c["bb"] for c in res.log if c["kind"] == "call" and not c["chain"] and re.search(r"ops::(Fn|FnMut|FnOnce)(<.*>)?>?::(call|call_mut|call_once)$|<indirect>", c["callee"]) and c["seq"] > e["seq"]][:1]
        if not ends:
            yield Ob(key_of("C05-S9", b.path, "reaches-the-mapping"), False, "the end of the option construction was not found", b.loc())
            continue
        ok = True
        n = 0
        for bb in ends:
            avoid = D.block_dnf(ev, res, b, bb, stop=frozenset([e["bb"]]))
            if avoid is None:
                ok = False
                continue
            for c in avoid:
                n += 1
                zero = any(f[0] == "cmp" and f[1] in ("Le", "Eq") and "offset" in show(f[2]) and is_const(f[3]) and as_lin(f[3]).c == 0 for f in c) or \
                       any(f[0] == "cmp" and f[1] in ("Ge", "Eq") and is_const(f[2]) and as_lin(f[2]).c == 0 and "offset" in show(f[3]) for f in c)
                ok = ok and zero
        yield Ob(key_of("C05-S9", b.path, "offset-on-every-path"), ok, "%d way(s) to build the options without MmapOptions::offset, each under offset = 0" % n, ctx.loc(e))
