"""C12 - recycled memory and teardown are ordered by happens-before."""
import re
from engine import rule, Ob, key_of, EXPLAIN, ASSUME
from sym import Lin, add, sub, const, tag, show, is_const, as_lin, implied_facts, struct_get
from util import *
from proto import *

EXPLAIN["C12"] = (
    "Decides the minimal memory ordering of every atomic access of sync.rs by protocol role, the roles being discovered by "
    "data flow (which word, which new value), not by name: O1 give-back CAS on the cursor >= Release; O2 bump CAS >= Acquire; "
    "O3 link CAS >= Release and the own-header store it publishes; O4 unlink CAS >= Release; O5 every node-word / sentinel load "
    "whose decoded offset is dereferenced >= Acquire; O6 refcount decrement >= Release; O7 an Acquire load or fence on the "
    "refcount dominates unmount / Box::from_raw on the 1->0 edge; O8 clone's increment is an RMW. Harmless sites (initial cursor "
    "load, CAS failure orderings, counters) are deliberately unconstrained. Each requirement's racy counter-execution is written "
    "in DESIGN Appendix A.3. Not decided: absence of races caused by stale traversers (no reclamation scheme; see C02).")
ASSUME["C12"] = ["C11 memory model; release sequences are continued by RMWs", "the hand-written minimality argument of DESIGN A.3",
                 "stale-reader hazards are excluded (C02 stated limit)"]

MARKING = ("alloc_slow_path_optimistic", "alloc_slow_path_pessimistic", "discard_freelist_in")
LINKING = ("optimistic_dealloc", "pessimistic_dealloc")
BUMPING = ("alloc_bytes_in", "alloc_aligned_bytes_in", "alloc_in")


@rule("C12-O1", "C12", 1, "give-back via the cursor: dealloc's CAS (new < expected: the cursor moves down to `offset`) has success ordering >= Release")
def o1(ctx):
    b, ev, res = sync_eval(ctx, "dealloc")
    cs = [e for e in cas_entries(res) if classify_cas(res, e) == "cursor"]
    if len(cs) != 1:
        yield Ob(key_of("C12-O1", b.path, "cursor-cas"), False, "expected one cursor CAS in dealloc, found %d" % len(cs), b.loc())
        return
    e = cs[0]
    ok = ordering_has(e["ordering"], "release")
    yield Ob(key_of("C12-O1", b.path, "cursor-cas-release"), ok, "dealloc cursor CAS success ordering %s %s Release" % (e["ordering"], "includes" if ok else "does NOT include"), ctx.loc(e))


@rule("C12-O2", "C12", 3, "take via the cursor: each bump CAS has success ordering >= Acquire (the preceding load is not enough: ABA on the cursor)")
def o2(ctx):
    for name in BUMPING:
        b, ev, res = sync_eval(ctx, name)
        cs = [e for e in cas_entries(res) if classify_cas(res, e) == "cursor"]
        if len(cs) != 1:
            yield Ob(key_of("C12-O2", b.path, "cursor-cas"), False, "expected one cursor CAS, found %d" % len(cs), b.loc())
            continue
        e = cs[0]
        ok = ordering_has(e["ordering"], "acquire")
        yield Ob(key_of("C12-O2", b.path, "cursor-cas-acquire"), ok, "bump CAS success ordering %s %s Acquire" % (e["ordering"], "includes" if ok else "does NOT include"), ctx.loc(e))


@rule("C12-O3", "C12", 2, "publish a node: the link CAS (new = pack(hi(expected), own offset)) has success ordering >= Release")
def o3(ctx):
    for name in LINKING:
        b, ev, res = sync_eval(ctx, name)
        cs = [e for e in cas_entries(res) if classify_cas(res, e) == "link"]
        if len(cs) != 1:
            yield Ob(key_of("C12-O3", b.path, "link-cas"), False, "expected one link CAS, found %d" % len(cs), b.loc())
            continue
        e = cs[0]
        ok = ordering_has(e["ordering"], "release")
        yield Ob(key_of("C12-O3", b.path, "link-cas-release"), ok, "link CAS success ordering %s %s Release" % (e["ordering"], "includes" if ok else "does NOT include"), ctx.loc(e))


@rule("C12-O4", "C12", 3, "re-publish `next` on unlink: the CAS that replaces the predecessor's next pointer has success ordering >= Release")
def o4(ctx):
    for name in MARKING:
        b, ev, res = sync_eval(ctx, name)
        cs = [e for e in cas_entries(res) if classify_cas(res, e) == "unlink"]
        if len(cs) != 1:
            yield Ob(key_of("C12-O4", b.path, "unlink-cas"), False, "expected one unlink CAS, found %d" % len(cs), b.loc())
            continue
        e = cs[0]
        ok = ordering_has(e["ordering"], "release")
        yield Ob(key_of("C12-O4", b.path, "unlink-cas-release"), ok, "unlink CAS success ordering %s %s Release" % (e["ordering"], "includes" if ok else "does NOT include"), ctx.loc(e))


@rule("C12-O5", "C12", 10, "consumer side: every 64-bit load of a sentinel / node word in the list operations (its decoded offset is dereferenced) is >= Acquire")
def o5(ctx):
    for name in ("find_position", "find_prev_and_next", "alloc_slow_path_optimistic", "alloc_slow_path_pessimistic", "discard_freelist_in"):
        b, ev, res = sync_eval(ctx, name)
        n = 0
        for e in res.log:
            if e["kind"] == "call" and e.get("atomic") == "load" and not e["chain"] and re.search(r"Atomic::<u64>::load$", e["callee"]):
                n += 1
                ok = ordering_has(e["ordering"], "acquire")
                yield Ob(key_of("C12-O5", b.path, "node-load", n), ok, "node-word load #%d ordering %s %s Acquire" % (n, e["ordering"], "includes" if ok else "does NOT include"), ctx.loc(e))
        # a mark CAS's success also acquires the node it takes over (it reads `next` from the expected value, so only the
        # unlink CAS publishes): unconstrained on purpose.


@rule("C12-O6", "C12", 3, "teardown: Arena::drop decrements the refcount with >= Release, frees only on the 1 -> 0 edge, and an Acquire load or fence on "
      "the refcount dominates Box::from_raw / unmount")
def o6(ctx):
    b = ctx.facts.one(r"^<sync::Arena as (?:std|core)::ops::Drop>::drop$")
    ev, res = ctx.eval(b, no_inline=(r"::unmount$",))
    subs = [e for e in res.log if e["kind"] == "call" and e.get("atomic") == "fetch_sub"]
    ok = len(subs) == 1 and ordering_has(subs[0]["ordering"], "release") and subs[0]["operand"] == const(1) and "refs" in show(subs[0]["target"])
    yield Ob(key_of("C12-O6", b.path, "fetch_sub-release"), ok, "refs.fetch_sub(1, %s)" % (subs[0]["ordering"] if subs else "?"), ctx.loc(subs[0]) if subs else b.loc())
    frees = [e for e in res.log if e["kind"] == "call" and (e["callee"].endswith("Box::<T>::from_raw") or e["callee"].endswith("::unmount")) and not e["chain"]]
    if not frees or not subs:
        yield Ob(key_of("C12-O6", b.path, "free-sites"), False, "no Box::from_raw / unmount found", b.loc())
        return
    rmw = subs[0]["result"]
    for e in frees:
        fs = ctx.facts_of(ev, e)
        last = ("cmp", "Eq", rmw, const(1)) in fs
        acq = [a for a in res.log if a["kind"] == "call" and not a["chain"] and ((a.get("atomic") == "load" and "refs" in show(a.get("target"))) or a.get("atomic") == "fence")
               and ordering_has(a.get("ordering"), "acquire") and a["seq"] < e["seq"] and a["seq"] > subs[0]["seq"] and b.dominates(a["bb"], e["bb"])]
        if ordering_has(subs[0]["ordering"], "acquire") and b.dominates(subs[0]["bb"], e["bb"]) and last:
            acq = acq or [subs[0]]   # an AcqRel decrement that dominates the free is the acquire itself
        yield Ob(key_of("C12-O6", b.path, "free-on-last:%s" % e["callee"].split("::")[-1]), last, "%s only when fetch_sub returned 1" % e["callee"].split("::")[-1], ctx.loc(e))
        yield Ob(key_of("C12-O7", b.path, "acquire-before:%s" % e["callee"].split("::")[-1]), bool(acq), "an Acquire load/fence on refs dominates %s" % e["callee"].split("::")[-1], ctx.loc(e))


@rule("C12-O8", "C12", 1, "clone: the refcount increment is an atomic RMW by exactly 1 that dominates the copy of the handle")
def o8(ctx):
    b = ctx.facts.one(r"^<sync::Arena as (?:std|core)::clone::Clone>::clone$")
    ev, res = ctx.eval(b)
    adds = [e for e in res.log if e["kind"] == "call" and e.get("atomic") == "fetch_add"]
    rets = [e for e in res.log if e["kind"] == "ret0" and not e["chain"]]
    ok = len(adds) == 1 and adds[0]["operand"] == const(1) and "refs" in show(adds[0]["target"]) and all(b.dominates(adds[0]["bb"] if not adds[0]["chain"] else adds[0]["chain"][0][1], r["bb"]) for r in rets)
    yield Ob(key_of("C12-O8", b.path, "fetch_add-1"), ok, "clone performs exactly one refs.fetch_add(1) before building the copy", b.loc())


@rule("C12-O9", "C12", 5, "the marker owns the node: zeroing and hand-out in the pop bodies are dominated by the success edges of the mark CAS (>= Acquire) and the unlink CAS", also=("C02",))
def o9(ctx):
    for name in MARKING[:2]:
        b, ev, res = sync_eval(ctx, name)
        marks = [e for e in cas_entries(res) if classify_cas(res, e) == "mark"]
        unl = [e for e in cas_entries(res) if classify_cas(res, e) == "unlink"]
        if len(marks) != 1 or len(unl) != 1:
            yield Ob(key_of("C12-O9", b.path, "cas-pair"), False, "expected one mark and one unlink CAS (%d, %d)" % (len(marks), len(unl)), b.loc())
            continue
        okm = ordering_has(marks[0]["ordering"], "acquire")
        yield Ob(key_of("C12-O9", b.path, "mark-acquire"), okm, "mark CAS success ordering %s includes Acquire (it takes over the node's bytes)" % marks[0]["ordering"], ctx.loc(marks[0]))
        for e in res.log:
            if is_raw_write(e) or (e["kind"] == "ret0" and not e["chain"] and tag(e["value"]) == "variant" and e["value"][2] == "Ok"):
                fs = ctx.facts_of(ev, e)
                ok = marks[0]["result"] in ok_cas_facts(fs) and unl[0]["result"] in ok_cas_facts(fs)
                what = "zeroing" if is_raw_write(e) else "hand-out (Ok return)"
                yield Ob(key_of("C12-O9", b.path, "after-both-cas:%s" % ("zero" if is_raw_write(e) else "ret")), ok, "%s dominated by mark-success and unlink-success edges" % what, ctx.loc(e))


@rule("C12-O10", "C12", 4, "the crate's own `unsafe impl Send / Sync` must not let a user type cross threads that cannot: an impl for a generic handle bounds every type "
      "parameter of the handle by the same auto trait (a handle stores, hands out and drops its `T`; without `T: Send` two threads can race on an `Rc` held in an "
      "`Owned<Rc<_>, sync::Arena>` using only safe methods)", configs=("memmap",))
def o10(ctx):
    n = 0
    for i in ctx.facts.impls:
        if i["trait"] not in ("std::marker::Send", "std::marker::Sync") or not i["unsafe"] or i["negative"]:
            continue
        n += 1
        auto = i["trait"].split("::")[-1]
        m = re.search(r"<(.*)>$", i["self_ty"])
        params = [p.strip() for p in m.group(1).split(",")] if m else []
        params = [p for p in params if re.match(r"^[A-Z]\w*$", p)]
        bounded = set(re.findall(r"TraitPredicate\(<(\w+) as std::marker::%s>, polarity:Positive\)" % auto, " ".join(i.get("preds", []))))
        missing = [p for p in params if p not in bounded]
        yield Ob(key_of("C12-O10", i["self_ty"], "unsafe-impl-%s-bounds-every-parameter" % auto), not missing,
                 "unsafe impl %s for %s: %s" % (auto, i["self_ty"], "every type parameter is bounded by %s" % auto if not missing else
                                                "parameter(s) %s carry no `%s` bound" % (missing, auto)), "%s:%d" % (i["file"], i["line"]),
                 trivial=not params)
    yield Ob(key_of("C12-O10", "crate", "unsafe-auto-trait-impls"), n >= 4, "%d unsafe impl Send / Sync in the crate" % n, "rarena-allocator/src/lib.rs")
