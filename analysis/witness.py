"""Compile-fail witnesses (type-level premises): builds /verif/witness against the analysed tree and reads rustdoc's verdicts.

Nothing of the allocator is executed: `compile_fail` tests must fail to compile with the stated error code (checked by
nightly rustdoc), `no_run` twins are only compiled.  Results are cached per tree hash."""
import json, os, re, shutil, subprocess, tempfile
import export as exporter

VERIF = exporter.VERIF


def run_witnesses():
    repo = os.environ.get("VERIF_REPO", exporter.REPO)
    th = exporter.tree_hash(repo)
    with open(os.path.join(VERIF, "witness", "src", "lib.rs"), "rb") as fh:
        import hashlib
        th = th + "-" + hashlib.sha256(fh.read()).hexdigest()[:12]
    cdir = os.path.join(VERIF, ".cache", "witness")
    os.makedirs(cdir, exist_ok=True)
    cpath = os.path.join(cdir, th + ".json")
    if os.path.exists(cpath):
        return json.load(open(cpath))
    tmp = tempfile.mkdtemp(prefix="rarena-witness-", dir=os.environ.get("VERIF_TMP", "/var/tmp"))
    try:
        os.makedirs(os.path.join(tmp, "src"))
        shutil.copy(os.path.join(VERIF, "witness", "src", "lib.rs"), os.path.join(tmp, "src", "lib.rs"))
        toml = open(os.path.join(VERIF, "witness", "Cargo.toml")).read().replace('path = "/repo/rarena-allocator"', 'path = "%s/rarena-allocator"' % repo)
        open(os.path.join(tmp, "Cargo.toml"), "w").write(toml)
        shutil.copy(os.path.join(repo, "Cargo.lock"), os.path.join(tmp, "Cargo.lock"))
        env = dict(os.environ, CARGO_NET_OFFLINE="true", CARGO_TARGET_DIR=os.path.join(tmp, "target"))
        p = subprocess.run(["cargo", "+nightly", "test", "--doc", "--offline"], cwd=tmp, env=env, stdout=subprocess.PIPE, stderr=subprocess.STDOUT, text=True)
        out = p.stdout
        tests = []
        for m in re.finditer(r"^test src/lib\.rs - (W\d+) \(line (\d+)\)( - compile fail| - compile)? \.\.\. (\w+)", out, re.M):
            tests.append({"witness": m.group(1), "line": int(m.group(2)), "compile_fail": (m.group(3) or "").strip() == "- compile fail", "ok": m.group(4) == "ok"})
        res = {"tests": tests, "built": bool(tests), "tail": out[-1500:] if not tests or p.returncode != 0 else ""}
        json.dump(res, open(cpath, "w"))
        return res
    finally:
        shutil.rmtree(tmp, ignore_errors=True)
