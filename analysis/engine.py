"""Rule engine: registry, obligations, evidence, known findings, CLI glue."""
import json, os, re, sys, time, hashlib, traceback

HERE = os.path.dirname(os.path.abspath(__file__))
VERIF = os.path.dirname(HERE)
sys.path.insert(0, HERE)

from facts import Facts, AnchorError  # noqa: E402
import sym  # noqa: E402
from sym import Evaluator, show, tag, implied_facts  # noqa: E402
import export as exporter  # noqa: E402

RULES = []


class Rule:
    def __init__(self, rid, prop, floor, text, fn, configs=None, also=(), tiers=None):
        self.id, self.prop, self.floor, self.text, self.fn, self.configs = rid, prop, floor, text, fn, configs
        # other properties that also report this rule's obligations; an entry ("C02", "sync") lists only the obligations about that flavour (C02 is a
        # property of the shared arena: a defect of unsync::Arena alone does not violate it)
        self.also = tuple(a if isinstance(a, str) else a[0] for a in also)
        self.also_only = {a[0]: a[1] for a in also if not isinstance(a, str)}
        self.tiers = tiers       # None = every tier


def rule(rid, prop, floor, text, configs=None, also=(), tiers=None):
    def deco(fn):
        RULES.append(Rule(rid, prop, floor, text, fn, configs, also, tiers))
        return fn
    return deco


class Ob:
    """One obligation instance: ok True (discharged) / False (violated)."""

    def __init__(self, key, ok, what, loc=None, detail=None, trivial=False):
        self.key, self.ok, self.what, self.loc, self.detail, self.trivial = key, bool(ok), what, loc, detail or {}, trivial
        self.rule = None
        self.config = None


class Ctx:
    def __init__(self, facts, config):
        self.facts = facts
        self.config = config
        self._cache = {}

    @property
    def memmap(self):
        return "memmap" in self.config

    @property
    def std(self):
        return self.config != "alloc"

    def new_capture_values(self, body):
        """A closure that captures a variable the reference tree's closure did not capture (a value the enclosing function now computes once and hands in,
        `let layout = header_meta(..); f(..).and_then(|m| { .. layout .. })`): that capture is not a free symbol - it is what the enclosing function
        computed.  -> {capture name: term in the enclosing function}"""
        import sym as _sym
        ref = _sym._NAMES["upvars"].get(body.path)
        if body.kind != "Closure" or ref is None or not body.upvars:
            return {}
        new = [u for u in body.upvars if u["name"] not in set(ref.values())]
        if not new or len(new) == len(body.upvars):
            return {}
        parent = self.facts.body(body.parent_fn) if body.parent_fn else None
        if parent is None:
            return {}
        ev, res = self.eval(parent, no_inline=(r"\{closure",))
        caps = getattr(ev, "closure_caps", {}).get(body.path)
        if not caps:
            return {}
        out = {}
        for u in new:
            fi = [p_ for p_ in u["place"]["proj"] if isinstance(p_, dict) and "f" in p_]
            if not fi or fi[0]["i"] >= len(caps):
                continue
            v = caps[fi[0]["i"]]
            if tag(v) in ("undef", "ref"):
                continue
            out[u["name"]] = v
        return out

    def eval(self, body, **policy):
        if body.kind == "Closure" and "upvar_values" not in policy:
            uv = self.new_capture_values(body)
            if uv:
                policy = dict(policy, upvar_values=tuple(sorted(uv.items(), key=repr)))
        key = (body.path, repr(sorted(policy.items())))
        r = self._cache.get(key)
        if r is None:
            ev = Evaluator(self.facts, **policy)
            res = ev.run(body)
            r = (ev, res)
            self._cache[key] = r
        return r

    # guards / facts of an entry, across inlined frames
    def guards_of(self, ev, e):
        gs = []
        cur = e
        while cur is not None:
            res = cur["res"]
            if res is not None:
                own = ev.guards(res, cur["bb"], cur["body"])
                if cur.get("subst"):
                    # the entry stands for one alternative of a join: its guards speak about that alternative
                    from sym import _subst
                    ph, alt = cur["subst"]
                    own = [(_subst(c, ph, alt) if isinstance(c, tuple) else c, r) for c, r in own]
                gs.extend(own)
            for g in cur.get("extra_guards", []) or []:
                gs.append((g, ("eq", 1)))
            for origin, jb in cur.get("extra_edges", []) or []:
                # the entry stands for the paths that entered join block jb over the edge origin -> jb
                if res is not None:
                    gs.extend(ev.guards_edge(res, origin, jb, cur["body"]))
            cur = cur.get("parent")
        return gs

    def facts_of(self, ev, e):
        return implied_facts(self.guards_of(ev, e))

    def loc(self, e):
        return e["body"].loc(e["bb"], e.get("si"))

    def fpath(self, e):
        """top-level function the entry belongs to + chain"""
        return e["body"].path


def key_of(rule_id, fn_path, role, ordinal=None):
    k = "%s:%s:%s" % (rule_id, fn_path, role)
    if ordinal is not None:
        k += ":%s" % ordinal
    return k


# ----------------------------------------------------------------------------- known findings
def load_known(path=None):
    path = path or os.path.join(VERIF, "known_findings.txt")
    findings, fixed = {}, []
    if not os.path.exists(path):
        return findings, fixed
    for line in open(path):
        line = line.strip()
        if not line or line.startswith("#"):
            continue
        m = re.match(r'^finding:\s+property=(\S+)\s+key=(?:"([^"]+)"|(\S+))\s+(.*)$', line)
        if m:
            findings[(m.group(1), m.group(2) or m.group(3))] = m.group(4)    # keys that contain spaces (`<T as Trait>::f`) are quoted
            continue
        m = re.match(r"^fixed:\s+property=(\S+)\s+(\S+)\s+(.*)$", line)
        if m:
            fixed.append((m.group(1), m.group(2), m.group(3)))
    return findings, fixed


# ----------------------------------------------------------------------------- running
def run_property(prop, tier="quick", seed=0, out=sys.stdout):
    t0 = time.time()
    configs = exporter.QUICK if tier == "quick" else exporter.THOROUGH
    rules = [r for r in RULES if (r.prop == prop or prop in r.also) and (r.tiers is None or tier in r.tiers)]
    if not rules:
        out.write("BROKEN: no rules registered for %s\n" % prop)
        return 2
    obs = []
    broken = []
    per_rule = {}
    scanned = {}
    for cfg in configs:
        try:
            fpath = exporter.export(cfg)
            facts = Facts(fpath, cfg)
        except Exception as ex:  # build failure etc.
            broken.append("export %s: %s" % (cfg, ex))
            continue
        scanned[cfg] = {"bodies": len(facts.bodies), "own_bodies": len(facts.own), "fact_file": os.path.relpath(fpath, VERIF),
                        # private functions that the reference table does not know were inlined into their callers before the rules ran
                        "helpers_inlined_into_callers": sorted(set("%s <- %s" % (c_, h_) for c_, h_ in facts.spliced)),
                        # locals of a struct type the reference table does not know, taken apart into one local per field
                        "struct_locals_split_into_fields": sorted(set("%s: %s (%s)" % t_ for t_ in facts.split_locals)),
                        "loops_over_array_literals_unrolled": sorted(set("%s: %d elements" % t_ for t_ in facts.unrolled)),
                        # new named locals joined from variant constructions and matched afterwards: each construction sent straight to its arm
                        "joins_of_new_enum_locals_threaded": sorted(set("%s: %s (%d constructions)" % t_ for t_ in facts.threaded))}
        ctx = Ctx(facts, cfg)
        for r in rules:
            if r.configs is not None and cfg not in r.configs:
                continue
            n = 0
            only = r.also_only.get(prop) if r.prop != prop else None
            try:
                for ob in r.fn(ctx):
                    # ("C02", "sync") keeps the obligations about sync::..., ("C02", "!unsync") everything but those about unsync::... (code shared by both
                    # flavours - the handles - serves the sync arena too)
                    # ("C16", "key:(vec|anon)-copy") keeps the obligations whose key matches the expression (a rule with clauses that matter to the other property
                    # and clauses that do not)
                    if only is not None and only.startswith("key:"):
                        if not re.search(only[4:], ob.key):
                            continue
                    elif only is not None and (bool(re.search(r"(?<![a-z])%s::" % only.lstrip("!"), ob.key)) == only.startswith("!")):
                        continue
                    ob.rule = r
                    ob.config = cfg
                    obs.append(ob)
                    n += 1
            except AnchorError as ex:
                broken.append("%s [%s]: anchor missing: %s" % (r.id, cfg, ex))
                continue
            except Exception as ex:
                broken.append("%s [%s]: rule crashed: %s\n%s" % (r.id, cfg, ex, traceback.format_exc(limit=6)))
                continue
            per_rule.setdefault(r.id, {})[cfg] = n
            floor = r.floor(cfg) if callable(r.floor) else r.floor
            if only is not None:
                floor = 1
            if n < floor:
                broken.append("%s [%s]: only %d instances analysed, floor is %d (rule no longer matches the code it is about)" % (r.id, cfg, n, floor))
    findings, fixed = load_known()
    # group violations by key
    viol = {}
    for ob in obs:
        if not ob.ok:
            viol.setdefault(ob.key, []).append(ob)
    new_viol, known_hit = [], []
    os.makedirs(os.path.join(VERIF, "reports"), exist_ok=True)
    for key, lst in sorted(viol.items()):
        if (prop, key) in findings:
            known_hit.append((key, findings[(prop, key)], lst))
        else:
            new_viol.append((key, lst))
    for key, desc, lst in known_hit:
        out.write("KNOWN-FINDING: property=%s %s [key=%s at %s]\n" % (prop, desc, key, lst[0].loc))
    rc = 0
    for key, lst in new_viol:
        rp = os.path.join(VERIF, "reports", "%s-%s.json" % (prop, hashlib.sha1(key.encode()).hexdigest()[:12]))
        rep = {"property": prop, "key": key, "rule": lst[0].rule.id, "rule_text": lst[0].rule.text,
               "instances": [{"config": o.config, "loc": o.loc, "what": o.what, "detail": jsonable(o.detail)} for o in lst]}
        with open(rp, "w") as fh:
            json.dump(rep, fh, indent=1)
        out.write("  violation %s\n    rule: %s\n    at:   %s\n    what: %s\n" % (key, lst[0].rule.text, lst[0].loc, lst[0].what))
        out.write("VIOLATION property=%s replay=%s\n" % (prop, rp))
        rc = 1
    st = []
    if tier == "thorough" and not os.environ.get("VERIF_REPO"):
        import selftest
        st = selftest.run(prop)
        for r in st:
            if r["status"] == "FAILED":
                broken.append("self-test: %s expected %s on %s, got keys %s %s" % (r["patch"], r["expect"], prop, r.get("keys"), r.get("broken") or ""))
        if st:
            out.write("self-test: %d recorded change(s) for %s: %d as expected, %d skipped (patch no longer applies), %d FAILED\n" % (
                len(st), prop, sum(1 for r in st if r["status"] == "ok"), sum(1 for r in st if r["status"] == "skipped"), sum(1 for r in st if r["status"] == "FAILED")))
    for b in broken:
        out.write("BROKEN: %s\n" % b)
    if broken and rc == 0:
        rc = 2
    # ---- evidence
    nontriv = set()
    for ob in obs:
        if not ob.trivial:
            nontriv.add((ob.rule.id, ob.key))
    samples = []
    seen_rules = set()
    for ob in obs:
        if ob.rule.id in seen_rules and len(samples) > 14:
            continue
        if sum(1 for s in samples if s["rule"] == ob.rule.id) >= 3:
            continue
        seen_rules.add(ob.rule.id)
        samples.append({"rule": ob.rule.id, "key": ob.key, "at": ob.loc, "config": ob.config, "verdict": "holds" if ob.ok else "VIOLATED", "what": ob.what,
                        "detail": jsonable(ob.detail)})
    discharged = sum(1 for ob in obs if ob.ok)
    ev = {
        "property_id": prop,
        "tier": tier,
        "seed": int(seed),
        "level": "other",
        "coverage": {
            "explanation": EXPLAIN.get(prop, "static rules over exported MIR facts"),
            "evaluations": len(obs),
            "distinct_nontrivial": len(nontriv),
            "rule": "one obligation per (rule, code site) found by role in the type-checked MIR of /repo's current tree; "
                    "distinct = distinct (rule, site key); non-trivial = the site matched real code (vacuous instances are not emitted)",
            "samples": samples,
            "obligations": len(obs),
            "discharged": discharged,
            "violated_keys": sorted(viol.keys()),
            "known_findings_reported": [k for k, _, _ in known_hit],
            "rules": [{"id": r.id, "text": r.text, "floor": (r.floor("memmap") if callable(r.floor) else r.floor), "instances": per_rule.get(r.id, {})} for r in rules],
            "configs": scanned,
            "checker_cmd": "./check %s --tier %s" % (prop, tier),
            "trusted_base": ["rustc nightly MIR construction and callee resolution", "driver/src/main.rs (fact exporter)",
                             "analysis/sym.py models of core items (atomics, ptr::write*, Option/Result plumbing)"],
            "exhaustive": False,
            "broken": broken,
            "selftest": st,
        },
        "assumptions": ASSUME.get(prop, []),
        "wall_s": round(time.time() - t0, 2),
        "violations": len(new_viol),
    }
    if not os.environ.get("VERIF_NO_EVIDENCE"):
        os.makedirs(os.path.join(VERIF, "evidence"), exist_ok=True)
        with open(os.path.join(VERIF, "evidence", "%s.json" % prop), "w") as fh:
            json.dump(ev, fh, indent=1)
    out.write("%s tier=%s configs=%s rules=%d obligations=%d discharged=%d violated_keys=%d (known %d) broken=%d wall=%.1fs\n" % (
        prop, tier, ",".join(configs), len(rules), len(obs), discharged, len(viol), len(known_hit), len(broken), time.time() - t0))
    return rc


def jsonable(x, depth=0):
    if depth > 6:
        return "…"
    if isinstance(x, dict):
        return {str(k): jsonable(v, depth + 1) for k, v in x.items()}
    if isinstance(x, (list, set, frozenset)):
        return [jsonable(v, depth + 1) for v in x]
    if isinstance(x, (sym.Lin,)):
        return show(x)
    if isinstance(x, tuple):
        if x and isinstance(x[0], str):
            return show(x)
        return [jsonable(v, depth + 1) for v in x]
    if isinstance(x, (str, int, float, bool)) or x is None:
        return x
    return repr(x)


EXPLAIN = {}
ASSUME = {}
