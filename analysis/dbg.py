import sys, glob
sys.path.insert(0, '/verif/analysis')
from facts import *
from sym import *
def main():
    f = Facts(sorted(glob.glob(__import__("os").environ.get("DBG_FACTS","/verif/.cache/facts/*/memmap.json")), key=__import__('os').path.getmtime)[-1])
    pat = sys.argv[1]
    kinds = set(sys.argv[2].split(',')) if len(sys.argv) > 2 else None
    for b in f.find(pat):
        ev = Evaluator(f)
        r = ev.run(b)
        print("==", b.path, "passes", r.passes, "ret:", show(r.ret))
        for e in r.log:
            if kinds and e['kind'] not in kinds: continue
            d = {k: (show(v) if isinstance(v,(tuple,Lin)) else v) for k,v in e.items() if k not in ('body','bb','si','chain','frame','seq','kind','sub','res','parent','substs','self_ty','decl','site','mac','line')}
            if 'args' in e: d['args'] = [show(a) for a in e['args']]
            if 'ops' in e: d['ops'] = [show(a) for a in e['ops']]
            print("  %s%s bb%s %s %s" % ("  "*len(e['chain']), e['body'].name, e['bb'], e['kind'], d))
main()
