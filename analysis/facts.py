"""Fact loading, CFG / dominance utilities over the exported MIR."""
import json, os, re, sys, functools

sys.setrecursionlimit(20000)


def succs_of(term):
    k = term["k"]
    if k == "goto":
        return [term["t"]]
    if k == "switch":
        return [a[1] for a in term["arms"]] + [term["otherwise"]]
    if k == "call":
        return [term["ret"]] if term["ret"] is not None else []
    if k == "assert":
        return [term["ok"]]
    if k == "drop":
        return [term["t"]]
    return []


def place_of(op):
    if op is None:
        return None
    return op.get("copy") or op.get("move")


class Body:
    def __init__(self, raw, facts):
        self.raw = raw
        self.facts = facts
        self.path = raw["path"]
        self.file = raw["file"]
        self.line = raw["line"]
        self.kind = raw["kind"]
        self.vis = raw["vis"]
        self.is_unsafe = raw["unsafe"]
        self.macro = raw["macro"]
        self.nargs = raw["nargs"]
        self.locals = raw["locals"]
        self.blocks = raw["blocks"]
        self.upvars = raw["upvars"]
        self.impl_self = raw["impl_self"]
        self.impl_trait = raw["impl_trait"]
        self.in_trait = raw["in_trait"]
        self.parent_fn = raw["parent_fn"]
        self.n = len(self.blocks)
        self.succ = []
        for b in self.blocks:
            if b["cleanup"]:
                self.succ.append([])
            else:
                self.succ.append([s for s in dict.fromkeys(succs_of(b["term"])) if not self.blocks[s]["cleanup"]])
        self._reach0 = None
        # predecessors are the *reachable* ones: blocks that inlining / jump threading (or rustc) left without a way in must not take part in any
        # dataflow over predecessors
        live = self.reach(0)
        self.pred = [[] for _ in range(self.n)]
        for i, ss in enumerate(self.succ):
            if i not in live:
                continue
            for j in ss:
                self.pred[j].append(i)
        self._dom = None
        self._edge_dom_cache = {}

    # ---- naming
    @property
    def name(self):
        return self.path.split("::")[-1]

    def __repr__(self):
        return "<Body %s>" % self.path

    def loc(self, bi=None, si=None):
        if bi is None:
            return "%s:%d" % (self.file, self.line)
        b = self.blocks[bi]
        if si is not None and si < len(b["stmts"]):
            return "%s:%d" % (self.file, b["stmts"][si]["line"])
        return "%s:%d" % (self.file, b["term"].get("line", self.line))

    def local_name(self, l):
        return self.locals[l]["name"]

    def local_ty(self, l):
        return self.locals[l]["ty"]

    # ---- graph
    def reach(self, start=0, removed=frozenset(), stop=frozenset()):
        seen = set()
        st = [start]
        while st:
            x = st.pop()
            if x in seen or x in stop:
                continue
            seen.add(x)
            for y in self.succ[x]:
                if (x, y) not in removed:
                    st.append(y)
        return seen

    @property
    def reachable(self):
        if self._reach0 is None:
            self._reach0 = self.reach(0)
        return self._reach0

    def _compute_dom(self):
        n = self.n
        reach = self.reachable
        order = self.rpo()
        dom = {i: None for i in reach}
        dom[0] = {0}
        changed = True
        while changed:
            changed = False
            for i in order:
                if i == 0:
                    continue
                ps = [p for p in self.pred[i] if p in reach and dom[p] is not None]
                if not ps:
                    continue
                nd = set.intersection(*[dom[p] for p in ps]) | {i}
                if nd != dom[i]:
                    dom[i] = nd
                    changed = True
        self._dom = dom

    def dominates(self, a, b):
        if self._dom is None:
            self._compute_dom()
        d = self._dom.get(b)
        return d is not None and a in d

    def edge_dominates(self, edge, b):
        """b reachable from entry only through edge (x,y)."""
        key = edge
        r = self._edge_dom_cache.get(key)
        if r is None:
            r = self.reach(0, removed=frozenset({edge}))
            self._edge_dom_cache[key] = r
        return b in self.reachable and b not in r

    def rpo(self):
        order = []
        seen = set()
        # iterative DFS
        stack = [(0, iter(self.succ[0]))]
        seen.add(0)
        while stack:
            x, it = stack[-1]
            adv = False
            for y in it:
                if y not in seen:
                    seen.add(y)
                    stack.append((y, iter(self.succ[y])))
                    adv = True
                    break
            if not adv:
                order.append(x)
                stack.pop()
        order.reverse()
        return order

    def back_edges(self):
        res = []
        for u in self.reachable:
            for v in self.succ[u]:
                if self.dominates(v, u):
                    res.append((u, v))
        return res

    def natural_loop(self, edge):
        u, v = edge
        body = {v}
        st = [u]
        while st:
            x = st.pop()
            if x in body:
                continue
            body.add(x)
            st.extend(self.pred[x])
        return body

    def returns(self):
        return [i for i in self.reachable if self.blocks[i]["term"]["k"] == "ret"]

    # ---- terminators
    def calls(self):
        for i in sorted(self.reachable):
            t = self.blocks[i]["term"]
            if t["k"] == "call":
                yield i, t

    @staticmethod
    def callee_name(t):
        """Resolved callee where the exporter could resolve it, else the declared one."""
        return t.get("resolved") or t.get("callee") or ""

    def switches(self):
        for i in sorted(self.reachable):
            t = self.blocks[i]["term"]
            if t["k"] == "switch":
                yield i, t

    def edges_into(self, b):
        return [(p, b) for p in self.pred[b]]


TINY_CLOSURE_BLOCKS = 3


def canonical_closure_numbers(text):
    """rustc numbers the closures of a function in source order, so adding `.ok_or_else(|| err(..))` in front of the closure a rule is about would shift
    its name.  Closures of at most TINY_CLOSURE_BLOCKS basic blocks (error constructors, one-expression adapters) are numbered after the others; the relative
    order inside each group is kept.  The renaming is applied to every occurrence of the path in the fact file (bodies, parents, closure aggregates)."""
    d = json.loads(text)
    sizes = {b["path"]: len(b["blocks"]) for b in d["bodies"] if "{closure#" in b["path"]}
    if not sizes:
        return text
    seg = re.compile(r"^(.*)::\{closure#(\d+)\}$")
    groups = {}
    for p in sizes:
        m = seg.match(p)
        groups.setdefault(m.group(1), []).append(int(m.group(2)))
    local = {}          # (parent, old index) -> new index
    for parent, idxs in groups.items():
        idxs.sort()
        order = sorted(idxs, key=lambda k: (sizes["%s::{closure#%d}" % (parent, k)] <= TINY_CLOSURE_BLOCKS, k))
        for new, old in enumerate(order):
            local[(parent, old)] = idxs[new]

    def rename(p):
        m = seg.match(p)
        if not m:
            return p
        parent, k = m.group(1), int(m.group(2))
        return "%s::{closure#%d}" % (rename(parent), local.get((parent, k), k))
    ren = {p: rename(p) for p in sizes}
    ren = {a: b for a, b in ren.items() if a != b}
    if not ren:
        return text
    olds = sorted(ren, key=len, reverse=True)
    for i, a in enumerate(olds):
        text = text.replace(json.dumps(a)[1:-1], "\x00CLOSURE%d\x00" % i)
    for i, a in enumerate(olds):
        text = text.replace("\x00CLOSURE%d\x00" % i, json.dumps(ren[a])[1:-1])
    return text


def _reference_functions():
    try:
        with open(os.path.join(os.path.dirname(os.path.abspath(__file__)), "names.json")) as fh:
            return set(json.load(fh)["params"].keys())
    except Exception:
        return None


def _renumber(x, L, B, in_place=False):
    """shift every local index by L in a (deep-copied) MIR fragment"""
    if isinstance(x, dict):
        if "l" in x and "proj" in x:
            x["l"] += L
            for pr in x["proj"]:
                if isinstance(pr, dict) and "idx" in pr:
                    pr["idx"] += L
            return
        for v in x.values():
            _renumber(v, L, B)
    elif isinstance(x, list):
        for v in x:
            _renumber(v, L, B)


def _realias(x, frm, to):
    if isinstance(x, dict):
        if "l" in x and "proj" in x:
            if x["l"] == frm:
                x["l"] = to
            for pr in x["proj"]:
                if isinstance(pr, dict) and pr.get("idx") == frm:
                    pr["idx"] = to
            return
        for v in x.values():
            _realias(v, frm, to)
    elif isinstance(x, list):
        for v in x:
            _realias(v, frm, to)


def _instantiate(x, tymap, constmap, impls):
    """a copied fragment of a generic helper, specialised to the generic arguments of the call being inlined: type parameters are replaced in the type
    strings of calls (and trait methods on them resolved to the impl's method when the crate has one), const parameters become their values"""
    if not tymap and not constmap:
        return
    pat = re.compile(r"(?<![\w:'])(%s)(?![\w])" % "|".join(re.escape(k) for k in sorted(tymap, key=len, reverse=True))) if tymap else None

    def sub_ty(s_):
        return pat.sub(lambda m: tymap[m.group(1)], s_) if pat is not None and isinstance(s_, str) else s_

    def resolve(callee, self_ty):
        """<self_ty as Trait>::method of the crate, for a trait-method path Trait::method"""
        if not callee or not self_ty or "::" not in callee:
            return None
        tr, meth = callee.rsplit("::", 1)
        for im in impls:
            if im.get("trait") and im["trait"].split("<")[0] == tr.split("<")[0] and im.get("self_ty") == self_ty:
                for it in im.get("items", []):
                    if it.rsplit("::", 1)[-1] == meth:
                        return it
        return None

    def walk(y):
        if isinstance(y, dict):
            if "const" in y and isinstance(y["const"], dict):
                cst = y["const"]
                if cst.get("int") is None and cst.get("dbg") in constmap:
                    cst["int"] = constmap[cst["dbg"]]
                if cst.get("fn"):
                    f2 = sub_ty(cst["fn"])
                    if f2 != cst["fn"]:
                        # a trait method named as a value: `<S as Trait>::m` or `Trait::m::<S>` (the first generic argument is Self)
                        m = re.match(r"^<(.+) as ([^>]+(?:<.*>)?)>::(\w+)$", f2)
                        m2 = re.match(r"^([\w:]+)::(\w+)::<([^,<>]+)>$", f2)
                        r_ = None
                        if m:
                            r_ = resolve("%s::%s" % (m.group(2), m.group(3)), m.group(1))
                        elif m2:
                            r_ = resolve("%s::%s" % (m2.group(1), m2.group(2)), m2.group(3))
                        cst["fn"] = r_ or f2
                    cst["ty"] = sub_ty(cst.get("ty"))
                return
            if y.get("k") == "call":
                st0 = y.get("self_ty")
                y["substs"] = [sub_ty(z) for z in y.get("substs") or []]
                y["self_ty"] = sub_ty(st0)
                if y["self_ty"] != st0 or (y.get("resolved") in (None, y.get("callee")) and y.get("self_ty")):
                    r_ = resolve(y.get("callee"), y["self_ty"])
                    if r_:
                        y["resolved"] = r_
            for v in y.values():
                walk(v)
        elif isinstance(y, list):
            for v in y:
                walk(v)
    walk(x)


def _inline_call(c, bi, h, arg_ops, impls=()):
    """replace the call terminator of block `bi` of raw body `c` by the blocks of raw body `h` (MIR inlining on the fact representation)"""
    import copy
    t = c["blocks"][bi]["term"]
    L, B = len(c["locals"]), len(c["blocks"])
    c["locals"].extend(copy.deepcopy(h["locals"]))
    # the helper's generic parameters take the call's generic arguments
    tymap, constmap = {}, {}
    gs, sb = h.get("generics") or [], t.get("substs") or []
    if gs and len(gs) == len(sb):
        for g_, a_ in zip(gs, sb):
            if g_.startswith("'") or g_ == a_:
                continue
            if re.match(r"^-?\d+$", a_ or ""):
                constmap[g_] = a_
            elif re.match(r"^\w+$", g_):
                tymap[g_] = a_
    for l_ in c["locals"][L:]:
        if tymap and isinstance(l_.get("ty"), str):
            l_["ty"] = re.sub(r"(?<![\w:'])(%s)(?![\w])" % "|".join(re.escape(k) for k in sorted(tymap, key=len, reverse=True)), lambda m: tymap[m.group(1)], l_["ty"])
    blk = c["blocks"][bi]
    for k_, a in enumerate(arg_ops):
        blk["stmts"].append({"place": {"l": L + 1 + k_, "proj": []}, "rv": {"k": "use", "a": a}, "line": t.get("line"), "mac": False})
    cont, dest, line = t.get("ret"), t["dest"], t.get("line")
    blk["term"] = {"k": "goto", "t": B}
    alias = dest["l"] if not dest["proj"] else None     # the callee's return place is the call's destination itself
    for hb in copy.deepcopy(h["blocks"]):
        _instantiate(hb, tymap, constmap, impls)
        _renumber(hb, L, B)
        if alias is not None:
            _realias(hb, L, alias)
        tt = hb["term"]
        k = tt["k"]
        if k == "goto":
            tt["t"] += B
        elif k == "switch":
            tt["arms"] = [[v, x + B] for v, x in tt["arms"]]
            tt["otherwise"] += B
        elif k == "call":
            if tt.get("ret") is not None:
                tt["ret"] += B
        elif k == "drop":
            tt["t"] += B
        elif k == "assert":
            tt["ok"] += B
        elif k == "ret":
            if alias is None:
                hb["stmts"].append({"place": dest, "rv": {"k": "use", "a": {"move": {"l": L, "proj": []}}}, "line": tt.get("line") or line, "mac": False})
            hb["term"] = {"k": "goto", "t": cont} if cont is not None else {"k": "unreachable"}
        c["blocks"].append(hb)


def _thread_returns(c, first_new, cont, dest, adt_discr):
    """Jump threading after inlining: the inlined callee ends in blocks that assign the call's destination a known variant / constant and jump to the
    continuation, which does nothing but test that discriminant / flag (`match helper() { A => .., B => .. }`, `if helper() { .. }`, `helper()?`).  Each such
    block is sent straight to the arm its value selects (through copies of the straight-line blocks in between and of the continuation's test), so that the
    control-flow graph has no path on which the helper returned A and the caller went on in arm B.  Nothing is threaded unless the shape is exactly that."""
    import copy
    if cont is None or dest["proj"]:
        return 0
    cb = c["blocks"][cont]
    t = cb["term"]
    flag_test = discr_test = try_test = False
    try_kind = None
    if t["k"] == "switch":
        opl = t["op"].get("move") or t["op"].get("copy")
        if opl is None or opl["proj"]:
            return 0
        flag_test = opl["l"] == dest["l"] and not cb["stmts"]
        discr_test = (len(cb["stmts"]) == 1 and cb["stmts"][0]["rv"]["k"] == "discr" and cb["stmts"][0]["rv"]["p"] == dest
                      and cb["stmts"][0]["place"] == {"l": opl["l"], "proj": []})
        sw, pre = t, cb["stmts"]
    elif (t["k"] == "call" and (t.get("callee") or "").endswith("ops::Try::branch") and not cb["stmts"] and len(t["args"]) == 1
          and t["args"][0].get("move") == dest and t.get("ret") is not None and not t["dest"]["proj"]):
        # `helper()?`: the continuation is `d = Try::branch(move dest)` followed by the test of d's discriminant
        st_ = str(t.get("self_ty") or "")
        try_kind = "Result" if re.match(r"(std|core)::result::Result<", st_) else ("Option" if re.match(r"(std|core)::option::Option<", st_) else None)
        tb = c["blocks"][t["ret"]]
        sw = tb["term"]
        opl = (sw["op"].get("move") or sw["op"].get("copy")) if sw["k"] == "switch" else None
        try_test = (try_kind is not None and opl is not None and not opl["proj"] and len(tb["stmts"]) == 1 and tb["stmts"][0]["rv"]["k"] == "discr"
                    and tb["stmts"][0]["rv"]["p"] == t["dest"] and tb["stmts"][0]["place"] == {"l": opl["l"], "proj": []})
        pre = tb["stmts"]
    if not (flag_test or discr_test or try_test):
        return 0

    def arm_of(v):
        """value left in dest -> value the continuation's switch sees"""
        if not try_test:
            return v
        if try_kind == "Result":        # Ok(0) -> Continue(0), Err(1) -> Break(1)
            return v
        return 1 - v                    # None(0) -> Break(1), Some(1) -> Continue(0)

    payload = [None]

    def value_of(blk):
        """(discriminant / constant the block leaves in dest, the block it goes on to), or (None, None); payload[0] = the operands of the variant built"""
        v = None
        payload[0] = None
        tt = blk["term"]
        for st in blk["stmts"]:
            if st["place"]["l"] == dest["l"]:
                if st["place"]["proj"]:
                    v = None
                    payload[0] = None
                    continue
                rv = st["rv"]
                v = None
                payload[0] = None
                if rv["k"] == "agg" and isinstance(rv["kind"], dict) and "vi" in rv["kind"] and (discr_test or try_test):
                    v = adt_discr(rv["kind"].get("adt"), rv["kind"]["vi"])
                    payload[0] = (rv["kind"]["vi"], rv["ops"])
                elif rv["k"] == "use" and "const" in rv["a"] and rv["a"]["const"].get("int") is not None and flag_test:
                    v = int(rv["a"]["const"]["int"])
        if tt["k"] == "goto":
            return v, tt["t"]
        if (tt["k"] == "call" and (tt.get("callee") or "").endswith("ops::FromResidual::from_residual") and tt["dest"] == dest and tt.get("ret") is not None
                and (discr_test or try_test)):
            # `?` inside the helper: what it hands back is the residual variant
            st_ = str(tt.get("self_ty") or "")
            if re.match(r"(std|core)::result::Result<", st_):
                return 1, tt["ret"]
            if re.match(r"(std|core)::option::Option<", st_):
                return 0, tt["ret"]
        return None, None

    def writes_dest(blk):
        return any(st["place"]["l"] == dest["l"] for st in blk["stmts"])

    def chain_to_cont(i):
        """the straight-line blocks (single `goto`, dest untouched) from block i to the continuation, or None"""
        out = []
        while i != cont:
            if len(out) > 8 or i < first_new:
                return None
            bl = c["blocks"][i]
            if bl["term"]["k"] not in ("goto", "drop") or writes_dest(bl):      # (a `drop` of a by-value parameter at the helper's exit has one way on)
                return None
            out.append(i)
            i = bl["term"]["t"]
        return out

    def own_tail(i):
        """When the arm that starts at block i runs straight to a `return` (no branch on the way), a copy of it, so that the threaded path keeps a return of
        its own - as it had when the helper's `return Err(..)` was still written in the caller - instead of sharing the arm with the helper's other exits."""
        seq = []
        while True:
            if len(seq) > 8 or i in seq:
                return None
            bl = c["blocks"][i]
            tt = bl["term"]
            seq.append(i)
            if tt["k"] == "ret":
                break
            if tt["k"] == "goto":
                i = tt["t"]
            elif tt["k"] == "call" and tt.get("ret") is not None:
                i = tt["ret"]
            elif tt["k"] == "drop":
                i = tt["t"]
            elif tt["k"] == "assert":
                i = tt["ok"]
            else:
                return None
        base = len(c["blocks"])
        for k, bi in enumerate(seq):
            nb = copy.deepcopy(c["blocks"][bi])
            tt = nb["term"]
            if tt["k"] == "goto" or tt["k"] == "drop":
                tt["t"] = base + k + 1
            elif tt["k"] == "call":
                tt["ret"] = base + k + 1
            elif tt["k"] == "assert":
                tt["ok"] = base + k + 1
            c["blocks"].append(nb)
        return base

    arms = {int(v): b for v, b in sw["arms"]}
    n = 0
    last = len(c["blocks"])
    for p_ in range(first_new, last):
        pb = c["blocks"][p_]
        v, nxt = value_of(pb)
        if v is None:
            continue
        chain = chain_to_cont(nxt)
        if chain is None:
            continue
        tgt = arms.get(arm_of(v), sw["otherwise"])
        # a nested pattern on a constant payload (`Break(false) => .., Break(true) => ..`): the arm's own test of that field is decided as well
        for _ in range(3):
            tb = c["blocks"][tgt]
            t2 = tb["term"]
            if payload[0] is None or discr_test is False or tb["stmts"] or t2["k"] != "switch":
                break
            op2 = t2["op"].get("copy") or t2["op"].get("move")
            if (op2 is None or op2["l"] != dest["l"] or len(op2["proj"]) != 2 or not isinstance(op2["proj"][0], dict) or op2["proj"][0].get("vi") != payload[0][0]
                    or not isinstance(op2["proj"][1], dict) or "i" not in op2["proj"][1]):
                break
            k = op2["proj"][1]["i"]
            opk = payload[0][1][k] if k < len(payload[0][1]) else None
            if not (isinstance(opk, dict) and "const" in opk and opk["const"].get("int") is not None):
                break
            tgt = {int(a_): b_ for a_, b_ in t2["arms"]}.get(int(opk["const"]["int"]), t2["otherwise"])
        own = own_tail(tgt)
        if own is not None:
            tgt = own
        # copies, last to first: the continuation's test, then the straight-line blocks before it
        c["blocks"].append({"cleanup": False, "stmts": copy.deepcopy(pre), "term": {"k": "goto", "t": tgt}})
        head = len(c["blocks"]) - 1
        if try_test:
            tcall = copy.deepcopy(t)
            tcall["ret"] = head
            c["blocks"].append({"cleanup": False, "stmts": [], "term": tcall})
            head = len(c["blocks"]) - 1
        for ci in reversed(chain):
            tcopy = copy.deepcopy(c["blocks"][ci]["term"])
            tcopy["t"] = head
            c["blocks"].append({"cleanup": False, "stmts": copy.deepcopy(c["blocks"][ci]["stmts"]), "term": tcopy})
            head = len(c["blocks"]) - 1
        if pb["term"]["k"] == "goto":
            pb["term"] = {"k": "goto", "t": head}
        else:
            pb["term"]["ret"] = head
        n += 1
    return n


def _closure_behind(c, op, depth=0):
    """the closure aggregate a call operand holds, when that is decided by single assignments inside raw body `c` (moves, copies and shared borrows of
    locals are followed); returns the closure's path or None"""
    if depth > 6 or not isinstance(op, dict):
        return None
    pl = op.get("move") or op.get("copy")
    if pl is None or pl["proj"]:
        return None
    defs = [st for blk in c["blocks"] for st in blk["stmts"] if st["place"]["l"] == pl["l"] and not st["place"]["proj"]]
    if len(defs) != 1:
        return None
    rv = defs[0]["rv"]
    if rv["k"] == "use":
        return _closure_behind(c, rv["a"], depth + 1)
    if rv["k"] == "ref" and not rv["p"]["proj"]:
        return _closure_behind(c, {"copy": rv["p"]}, depth + 1)
    if rv["k"] == "agg" and isinstance(rv["kind"], dict) and "closure" in rv["kind"]:
        return rv["kind"]["closure"]
    return None


def _inline_closure_calls(c, bodies, from_block):
    """after a helper was inlined, a closure handed to it as `impl Fn..` is called where the helper called its parameter: inline that closure's body too"""
    n = 0
    for bi in range(from_block, len(c["blocks"])):
        t = c["blocks"][bi]["term"]
        if t["k"] != "call" or not t.get("callee") or not re.search(r"ops::(function::)?(FnOnce::call_once|FnMut::call_mut|Fn::call)$", t["callee"]) or len(t["args"]) != 2:
            continue
        cp = _closure_behind(c, t["args"][0])
        cb = bodies.get(cp) if cp else None
        tup = t["args"][1].get("move") or t["args"][1].get("copy")
        if cb is None or tup is None or tup["proj"] or len(cb["blocks"]) > 200:
            continue
        ops = [t["args"][0]] + [{"copy": {"l": tup["l"], "proj": [{"f": str(j), "i": j, "adt": ""}]}} for j in range(cb["nargs"] - 1)]
        _inline_call(c, bi, cb, ops)
        n += 1
    return n



def _adt_discr_fn(d):
    adts = {a["path"]: a for a in d.get("adts", [])}
    for e_ in d.get("ext_enums", []):
        adts.setdefault(e_["path"], e_)

    def adt_discr(path, vi):
        a = adts.get(path)
        if a is not None and vi < len(a["variants"]) and a["variants"][vi].get("discr") is not None:
            return int(a["variants"][vi]["discr"])
        if path in ("std::option::Option", "core::option::Option", "std::result::Result", "core::result::Result", "std::ops::ControlFlow", "core::ops::ControlFlow",
                    "core::ops::control_flow::ControlFlow"):
            return vi
        return None
    return adt_discr


def local_names(body):
    """the user-named locals of a raw body, as `name: type` strings (parameters included)"""
    return sorted(set("%s: %s" % (l["name"], l["ty"]) for l in body["locals"] if l.get("name")))


def _reference_locals():
    try:
        with open(os.path.join(os.path.dirname(os.path.abspath(__file__)), "names.json")) as fh:
            r = json.load(fh).get("locals")
            return {k: set(v) for k, v in r.items()} if r is not None else None
    except Exception:
        return None


def thread_new_local_joins(d, ref_locals):
    """A named local that the reference tree's function does not have, joined from variant constructions and then matched (`let refusal = if a { Some(x) } else
    if b { Some(y) } else { None }; if let Some(r) = refusal { return Err(r) }`), is somebody's way of writing the early returns as one table: every block that
    builds a variant of it is sent straight to the arm that variant selects (the same jump threading as after inlining a new helper), so that the rules keep
    reading one return per reason, each under its own test."""
    if ref_locals is None:
        return []
    adt_discr = _adt_discr_fn(d)
    done = []
    for c in d["bodies"]:
        if c["file"].startswith("/") or len(c["blocks"]) > 3000:
            continue
        ref = ref_locals.get(c["path"], set())
        for cont in range(len(c["blocks"])):
            cb = c["blocks"][cont]
            t = cb["term"]
            if t["k"] != "switch" or len(cb["stmts"]) != 1 or cb["stmts"][0]["rv"]["k"] != "discr":
                continue
            dest = cb["stmts"][0]["rv"]["p"]
            if dest["proj"] or dest["l"] >= len(c["locals"]):
                continue
            l = c["locals"][dest["l"]]
            if not l.get("name") or "%s: %s" % (l["name"], l["ty"]) in ref or dest["l"] <= c["nargs"]:
                continue
            n = _thread_returns(c, 0, cont, dest, adt_discr)
            if n:
                done.append((c["path"], l["name"], n))
    return done

def splice_new_helpers(d, reference):
    """A private function that the reference tree (names.json: the functions of the tree the rules were written against) does not have is a helper somebody
    extracted: it is inlined into its callers at the MIR level (locals and blocks renumbered, parameters assigned from the call's operands, every `return`
    replaced by an assignment of the call's destination and a jump to its continuation), so that the rules - which are anchored at the protocol functions
    they know - keep reading the whole operation with its own control-flow graph.  The helper's body stays in the fact file (closures, recursion) but is
    marked `spliced` and left out of `Facts.own` once every call of it has been inlined."""
    import copy
    if reference is None:
        return []
    bodies = {b["path"]: b for b in d["bodies"]}
    adts = {a["path"]: a for a in d.get("adts", [])}
    for e_ in d.get("ext_enums", []):
        adts.setdefault(e_["path"], e_)      # enums of other crates that the bodies use (ControlFlow, Ordering, Either, ..)

    def adt_discr(path, vi):
        a = adts.get(path)
        if a is not None and vi < len(a["variants"]) and a["variants"][vi].get("discr") is not None:
            return int(a["variants"][vi]["discr"])
        if path in ("std::option::Option", "core::option::Option", "std::result::Result", "core::result::Result", "std::ops::ControlFlow", "core::ops::ControlFlow",
                    "core::ops::control_flow::ControlFlow"):
            return vi
        return None

    def is_helper(b):
        return (b["kind"] in ("Fn", "AssocFn") and b["path"] not in reference and b["vis"] != "pub" and not b["file"].startswith("/")
                and b.get("in_trait") is None and len(b["blocks"]) <= 400
                # a method of an impl of one of the crate's own traits is a helper like any other once a call names it (`S::take` with S known)
                and (b.get("impl_trait") is None or not re.match(r"(std|core|alloc)::", str(b["impl_trait"]))))
    helpers = {p for p, b in bodies.items() if is_helper(b)}
    if not helpers:
        return []
    def calls_of(b):
        return [(i, blk["term"]) for i, blk in enumerate(b["blocks"]) if blk["term"]["k"] == "call" and (blk["term"].get("resolved") or blk["term"].get("callee")) in helpers]
    done = []
    for _round in range(4):
        changed = False
        for c in d["bodies"]:
            if len(c["blocks"]) > 3000:
                continue
            for bi, t in calls_of(c):
                hp = t.get("resolved") or t.get("callee")
                h = bodies[hp]
                if h is c or calls_of(h) and _round < 3:
                    continue            # inner helpers first; never a function into itself
                if len(t["args"]) != h["nargs"]:
                    continue
                nb = len(c["blocks"])
                cont_, dest_ = t.get("ret"), t["dest"]
                _inline_call(c, bi, h, list(t["args"]), d.get("impls", ()))
                _thread_returns(c, nb, cont_, dest_, adt_discr)
                for _ in range(3):
                    if not _inline_closure_calls(c, bodies, nb):
                        break
                done.append((c["path"], hp))
                changed = True
        if not changed:
            break
    # a helper every call of which was inlined is analysed inside its callers
    still = set()
    for c in d["bodies"]:
        for _, t in calls_of(c):
            still.add(t.get("resolved") or t.get("callee"))
    for hp in helpers:
        if hp not in still and any(h_ == hp for _, h_ in done):
            bodies[hp]["spliced"] = True
    return done


def _reference_adts():
    try:
        with open(os.path.join(os.path.dirname(os.path.abspath(__file__)), "names.json")) as fh:
            r = json.load(fh).get("adts")
            return set(r) if r is not None else None
    except Exception:
        return None


def _places(x, out):
    if isinstance(x, dict):
        if "l" in x and "proj" in x:
            out.append(x)
            return
        for v in x.values():
            _places(v, out)
    elif isinstance(x, list):
        for v in x:
            _places(v, out)


def split_new_struct_locals(d, ref_adts):
    """A struct that the reference tree does not have, used to keep several local variables together (`struct Cursor { node, word, size, next }` in place
    of four loop variables), is taken apart again: a local of such a type that is only ever built from its fields, copied whole to / from another such
    local and read field by field is replaced by one local per field (scalar replacement of aggregates on the fact representation).  The rules keep seeing
    the individual variables with their own data flow.  A local that is borrowed, passed or returned whole is left alone.  -> [(function, local name, struct)]"""
    if ref_adts is None:
        return []
    adts = {a["path"]: a for a in d.get("adts", [])}
    new = {p_: a for p_, a in adts.items() if a["kind"] == "Struct" and p_ not in ref_adts and len(a["variants"]) == 1 and not a["file"].startswith("/")}

    def tuple_fields(ty):
        """field types of a tuple type `(A, B, ..)` (top-level commas), or None"""
        if not (ty.startswith("(") and ty.endswith(")")) or ty == "()":
            return None
        out, depth, cur = [], 0, ""
        for ch in ty[1:-1]:
            if ch in "(<[":
                depth += 1
            elif ch in ")>]":
                depth -= 1
            if ch == "," and depth == 0:
                out.append(cur.strip())
                cur = ""
            else:
                cur += ch
        if cur.strip():
            out.append(cur.strip())
        return out if len(out) >= 2 else None

    def head(ty):
        # a tuple local (`let (value, flag) = match k { A => (x, true), B => (y, false) }`) is a struct without a name: its type is its own key
        if tuple_fields(ty) is not None:
            if ty not in new:
                new[ty] = {"variants": [{"fields": [{"name": str(i_), "ty": t_} for i_, t_ in enumerate(tuple_fields(ty))]}], "tuple": True}
            return ty
        m = re.match(r"([A-Za-z_][\w:]*)", ty)
        return m.group(1) if m else None

    def is_field(pr):
        return isinstance(pr, dict) and "f" in pr and "i" in pr
    done = []
    for c in d["bodies"]:
        if c["file"].startswith("/"):
            continue
        cand = {i: head(l["ty"]) for i, l in enumerate(c["locals"]) if i > c["nargs"] and head(l["ty"]) in new and not l["ty"].startswith("&")}
        if not cand:
            continue
        bad = set()
        copies = []          # (dst, src) whole copies between candidates
        for blk in c["blocks"]:
            for st in blk["stmts"]:
                lhs, rv = st["place"], st["rv"]
                rps = []
                _places(rv, rps)
                whole_copy = None
                if lhs["l"] in cand and not lhs["proj"]:
                    S = cand[lhs["l"]]
                    if (rv["k"] == "agg" and len(rv["ops"]) == len(new[S]["variants"][0]["fields"])
                            and ((isinstance(rv["kind"], dict) and rv["kind"].get("adt") == S) or (rv["kind"] == "tuple" and new[S].get("tuple")))):
                        # the fields are assigned one after the other: none of them may read the struct being built
                        if any(p_["l"] == lhs["l"] for p_ in rps):
                            bad.add(lhs["l"])
                    elif rv["k"] == "use" and (rv["a"].get("copy") or rv["a"].get("move")) is not None:
                        src = rv["a"].get("copy") or rv["a"].get("move")
                        if src["l"] in cand and not src["proj"] and cand[src["l"]] == S and src["l"] != lhs["l"]:
                            whole_copy = (lhs["l"], src["l"])
                            copies.append(whole_copy)
                        else:
                            bad.add(lhs["l"])
                    else:
                        bad.add(lhs["l"])
                elif lhs["l"] in cand and not is_field(lhs["proj"][0]):
                    bad.add(lhs["l"])
                for p_ in rps:
                    if p_["l"] in cand:
                        if not p_["proj"]:
                            if whole_copy is None or p_["l"] != whole_copy[1]:
                                bad.add(p_["l"])
                        elif not is_field(p_["proj"][0]):
                            bad.add(p_["l"])
            tps = []
            _places(blk["term"], tps)
            for p_ in tps:
                if p_["l"] in cand and (not p_["proj"] or not is_field(p_["proj"][0])):
                    bad.add(p_["l"])
        for u in c.get("upvars") or []:
            pass
        changed = True
        while changed:
            changed = False
            for a_, b_ in copies:
                if (a_ in bad) != (b_ in bad):
                    bad |= {a_, b_}
                    changed = True
        ok = {i: S for i, S in cand.items() if i not in bad}
        if not ok:
            continue
        parts = {}
        for i, S in sorted(ok.items()):
            fl = new[S]["variants"][0]["fields"]
            parts[i] = []
            for f in fl:
                nm = c["locals"][i]["name"]
                c["locals"].append({"ty": re.sub(r"'[a-z_]\w* ?", "", f["ty"]), "name": ("%s.%s" % (nm, f["name"])) if nm else None})
                parts[i].append(len(c["locals"]) - 1)
            done.append((c["path"], c["locals"][i]["name"], S))

        def rewrite(x):
            ps = []
            _places(x, ps)
            for p_ in ps:
                if p_["l"] in parts and p_["proj"]:
                    k = p_["proj"][0]["i"]
                    p_["l"] = parts[p_["l"]][k]
                    del p_["proj"][0]
        for blk in c["blocks"]:
            out = []
            for st in blk["stmts"]:
                lhs, rv = st["place"], st["rv"]
                if lhs["l"] in parts and not lhs["proj"]:
                    if rv["k"] == "agg":
                        for k, op in enumerate(rv["ops"]):
                            rewrite(op)
                            out.append(dict(st, place={"l": parts[lhs["l"]][k], "proj": []}, rv={"k": "use", "a": op}))
                    else:
                        src = rv["a"].get("copy") or rv["a"].get("move")
                        for k in range(len(parts[lhs["l"]])):
                            out.append(dict(st, place={"l": parts[lhs["l"]][k], "proj": []}, rv={"k": "use", "a": {"copy": {"l": parts[src["l"]][k], "proj": []}}}))
                    continue
                rewrite(st)
                out.append(st)
            blk["stmts"] = out
            rewrite(blk["term"])
    return done


def _succs_raw(t):
    k = t["k"]
    if k == "goto" or k == "drop":
        return [t["t"]]
    if k == "switch":
        return [x for _, x in t["arms"]] + [t["otherwise"]]
    if k == "call":
        return [t["ret"]] if t.get("ret") is not None else []
    if k == "assert":
        return [t["ok"]]
    return []


def _retarget(t, f):
    k = t["k"]
    if k == "goto" or k == "drop":
        t["t"] = f(t["t"])
    elif k == "switch":
        t["arms"] = [[v, f(x)] for v, x in t["arms"]]
        t["otherwise"] = f(t["otherwise"])
    elif k == "call":
        if t.get("ret") is not None:
            t["ret"] = f(t["ret"])
    elif k == "assert":
        t["ok"] = f(t["ok"])


def unroll_array_loops(d):
    """`for x in [a, b, c] { .. }` over a local array literal (a table of (offset, size, bytes) rows walked by a loop) is unrolled on the fact
    representation: one copy of the loop body per element, `next()` replaced by `Some(element k)`, the last copy followed by the `None` exit.  The rules then
    read the statements the loop stands for.  Only the exact shape is touched: the array is built once by an aggregate of at most 8 operands that are
    constants or locals assigned once, the iterator is used by that loop only, the loop has one header.  -> [(function, number of elements)]"""
    import copy
    done = []
    for c in d["bodies"]:
        if c["file"].startswith("/") or len(c["blocks"]) > 400:
            continue
        blocks = c["blocks"]

        def defs_of(l):
            out = []
            for bi, blk in enumerate(blocks):
                for st in blk["stmts"]:
                    if st["place"]["l"] == l and not st["place"]["proj"]:
                        out.append(("stmt", bi, st))
                t = blk["term"]
                if t["k"] == "call" and t["dest"]["l"] == l and not t["dest"]["proj"]:
                    out.append(("call", bi, t))
            return out

        def whole(op):
            pl = op.get("move") or op.get("copy") if isinstance(op, dict) else None
            return pl["l"] if pl is not None and not pl["proj"] else None

        for bi in range(len(blocks)):
            t = blocks[bi]["term"]
            if t["k"] != "call" or not (t.get("callee") or "").endswith("iter::IntoIterator::into_iter") or len(t["args"]) != 1:
                continue
            m = re.match(r"^\[.*; (\d+)\]$", str(t.get("self_ty") or ""))
            if not m or not (1 <= int(m.group(1)) <= 8) or t.get("ret") is None or t["dest"]["proj"]:
                continue
            n = int(m.group(1))
            # the array literal behind the argument
            a = whole(t["args"][0])
            ops = None
            for _ in range(4):
                if a is None:
                    break
                ds = defs_of(a)
                if len(ds) != 1 or ds[0][0] != "stmt":
                    break
                rv = ds[0][2]["rv"]
                if rv["k"] == "agg" and rv["kind"] == "array" and len(rv["ops"]) == n:
                    ops = rv["ops"]
                    break
                a = whole(rv["a"]) if rv["k"] == "use" else None
            if ops is None:
                continue
            elems = []
            for op in ops:
                if "const" in op:
                    elems.append(op)
                    continue
                l = whole(op)
                if l is None or len(defs_of(l)) != 1:
                    elems = None
                    break
                elems.append({"copy": {"l": l, "proj": []}})
            if elems is None:
                continue
            # the iterator local (through whole moves) and the loop header that calls next() on it
            it = t["dest"]["l"]
            for _ in range(3):
                mv = [(bj, st) for bj, blk in enumerate(blocks) for st in blk["stmts"] if st["rv"]["k"] == "use" and whole(st["rv"]["a"]) == it and not st["place"]["proj"]]
                if len(mv) == 1:
                    it = mv[0][1]["place"]["l"]
                else:
                    break
            heads = []
            for hj, blk in enumerate(blocks):
                tt = blk["term"]
                if tt["k"] == "call" and (tt.get("callee") or "").endswith("iter::Iterator::next") and len(tt["args"]) == 1 and tt.get("ret") is not None and not tt["dest"]["proj"]:
                    # the argument is a (re)borrow of the iterator made in this block
                    r = whole(tt["args"][0])
                    seen = set()
                    while r is not None and r not in seen:
                        seen.add(r)
                        src = [st for st in blk["stmts"] if st["place"]["l"] == r and not st["place"]["proj"] and st["rv"]["k"] == "ref"]
                        if len(src) != 1:
                            r = None
                            break
                        pl = src[0]["rv"]["p"]
                        if pl["l"] == it and not pl["proj"]:
                            heads.append(hj)
                            break
                        r = pl["l"] if pl["proj"] == ["deref"] else None
            if len(heads) != 1:
                continue
            H = heads[0]
            th = blocks[H]["term"]
            R, S = th["dest"]["l"], th["ret"]
            sb = blocks[S]
            if sb["term"]["k"] != "switch" or len(sb["stmts"]) != 1 or sb["stmts"][0]["rv"]["k"] != "discr" or sb["stmts"][0]["rv"]["p"] != {"l": R, "proj": []}:
                continue
            arms = {int(v): x for v, x in sb["term"]["arms"]}
            if 0 not in arms or (1 not in arms and sb["term"]["otherwise"] is None):
                continue
            EXIT, BODY = arms[0], arms.get(1, sb["term"]["otherwise"])
            # the loop: blocks that reach H without leaving through EXIT, reachable from BODY
            preds = {}
            for x, blk in enumerate(blocks):
                if blk["cleanup"]:
                    continue
                for y in _succs_raw(blk["term"]):
                    preds.setdefault(y, []).append(x)
            fwd, st_ = set(), [BODY]
            while st_:
                x = st_.pop()
                if x in fwd or x == H:
                    continue
                fwd.add(x)
                st_.extend(y for y in _succs_raw(blocks[x]["term"]) if not blocks[y]["cleanup"])
            bwd, st_ = set(), [H]
            while st_:
                x = st_.pop()
                if x in bwd:
                    continue
                bwd.add(x)
                st_.extend(y for y in preds.get(x, []) if y != S and y != H)
            loop = (fwd & bwd) | {H, S}
            entries = [x for x in preds.get(H, []) if x not in loop]
            if not entries or len(loop) > 40 or EXIT in loop:
                continue
            some_kind = {"adt": "std::option::Option", "variant": "Some", "vi": 1, "fields": ["0"]}
            none_kind = {"adt": "std::option::Option", "variant": "None", "vi": 0, "fields": []}
            line = th.get("line")
            order = sorted(loop)
            base = len(blocks)
            idx = lambda k, x: base + k * len(order) + order.index(x)
            final = base + n * len(order)
            for k in range(n):
                for x in order:
                    nb = copy.deepcopy(blocks[x])
                    if x == H:
                        nb["stmts"].append({"place": {"l": R, "proj": []}, "rv": {"k": "agg", "kind": dict(some_kind), "ops": [copy.deepcopy(elems[k])]}, "line": line, "mac": False})
                        nb["term"] = {"k": "goto", "t": idx(k, S)}
                    elif x == S:
                        nb["term"] = {"k": "goto", "t": idx(k, BODY) if BODY in loop else BODY}
                    else:
                        _retarget(nb["term"], lambda y, k=k: (idx(k + 1, H) if k + 1 < n else final) if y == H else (idx(k, y) if y in loop else y))
                    blocks.append(nb)
            blocks.append({"cleanup": False, "stmts": [{"place": {"l": R, "proj": []}, "rv": {"k": "agg", "kind": dict(none_kind), "ops": []}, "line": line, "mac": False}] + copy.deepcopy(sb["stmts"]),
                           "term": {"k": "goto", "t": EXIT}})
            for x in entries:
                _retarget(blocks[x]["term"], lambda y: idx(0, H) if y == H else y)
            done.append((c["path"], n))
        # `[a, b, c].iter().for_each(|row| ..)`: one call of the closure per element, in order
        for bi in range(len(blocks)):
            t = blocks[bi]["term"]
            if (t["k"] != "call" or not (t.get("callee") or "").endswith("iter::Iterator::for_each") or len(t["args"]) != 2 or t.get("ret") is None
                    or not re.match(r"^(std|core)::slice::Iter<", str(t.get("self_ty") or ""))):
                continue
            it, clo = whole(t["args"][0]), whole(t["args"][1])
            if it is None or clo is None:
                continue
            ds = defs_of(it)
            if len(ds) != 1 or ds[0][0] != "call" or not (ds[0][2].get("callee") or "").endswith("<impl [T]>::iter") or len(ds[0][2]["args"]) != 1:
                continue
            # the slice is a reference to an array literal (through the unsizing cast)
            a = whole(ds[0][2]["args"][0])
            ops = None
            for _ in range(6):
                if a is None:
                    break
                dd = defs_of(a)
                if len(dd) != 1 or dd[0][0] != "stmt":
                    break
                rv = dd[0][2]["rv"]
                if rv["k"] == "agg" and rv["kind"] == "array" and 1 <= len(rv["ops"]) <= 8:
                    ops = rv["ops"]
                    break
                if rv["k"] in ("use", "cast"):
                    a = whole(rv["a"])
                elif rv["k"] == "ref" and (not rv["p"]["proj"] or rv["p"]["proj"] == ["deref"]):
                    a = rv["p"]["l"]
                else:
                    a = None
            if ops is None:
                continue
            els = [whole(op) for op in ops]
            if any(l is None or len(defs_of(l)) != 1 for l in els):
                continue
            ety = re.sub(r"^(std|core)::slice::Iter<'\w+, (.*)>$", r"\2", str(t["self_ty"]))
            nxt = t["ret"]
            first = None
            prev = None
            for k, l in enumerate(els):
                L0 = len(c["locals"])
                c["locals"].extend([{"ty": "&" + ety, "name": None}, {"ty": "(&%s,)" % ety, "name": None}, {"ty": "&mut " + c["locals"][clo]["ty"], "name": None}, {"ty": "()", "name": None}])
                nb = {"cleanup": False, "stmts": [
                    {"place": {"l": L0, "proj": []}, "rv": {"k": "ref", "mut": False, "p": {"l": l, "proj": []}}, "line": t.get("line"), "mac": False},
                    {"place": {"l": L0 + 1, "proj": []}, "rv": {"k": "agg", "kind": "tuple", "ops": [{"move": {"l": L0, "proj": []}}]}, "line": t.get("line"), "mac": False},
                    {"place": {"l": L0 + 2, "proj": []}, "rv": {"k": "ref", "mut": True, "p": {"l": clo, "proj": []}}, "line": t.get("line"), "mac": False}],
                    "term": {"k": "call", "callee": "std::ops::FnMut::call_mut", "substs": [], "self_ty": None, "resolved": "std::ops::FnMut::call_mut", "fop": None,
                             "args": [{"move": {"l": L0 + 2, "proj": []}}, {"move": {"l": L0 + 1, "proj": []}}], "dest": {"l": L0 + 3, "proj": []}, "ret": nxt,
                             "line": t.get("line"), "mac": False}}
                blocks.append(nb)
                if prev is not None:
                    prev["term"]["ret"] = len(blocks) - 1
                else:
                    first = len(blocks) - 1
                prev = nb
            blocks[bi]["term"] = {"k": "goto", "t": first}
            done.append((c["path"], len(els)))
    return done


class Facts:
    def __init__(self, path, config=None):
        self.path = path
        self.config = config
        with open(path) as fh:
            d = json.loads(canonical_closure_numbers(fh.read()))
        self.spliced = splice_new_helpers(d, _reference_functions())
        self.threaded = thread_new_local_joins(d, _reference_locals())
        self.unrolled = unroll_array_loops(d)
        self.split_locals = split_new_struct_locals(d, _reference_adts())
        self.raw = d
        self.crate = d["crate"]
        self.rustc = d["rustc"]
        self.bodies = [Body(b, self) for b in d["bodies"]]
        self.by_path = {}
        for b in self.bodies:
            self.by_path.setdefault(b.path, []).append(b)
        self.adts = {a["path"]: a for a in d["adts"]}
        self.impls = d["impls"]
        self.ext_enums = {e["path"]: e for e in d.get("ext_enums", [])}
        self.layouts = d["layouts"]
        self.own = [b for b in self.bodies if not b.file.startswith("/") and not b.raw.get("spliced")]

    def body(self, path):
        bs = self.by_path.get(path)
        if not bs:
            return None
        return bs[0]

    def find(self, regex, own=True):
        r = re.compile(regex)
        return [b for b in (self.own if own else self.bodies) if r.search(b.path)]

    def one(self, regex):
        bs = self.find(regex)
        if len(bs) != 1:
            raise AnchorError("anchor %r matched %d bodies: %s" % (regex, len(bs), [b.path for b in bs][:6]))
        return bs[0]

    def variant_by_discr(self, adt_path, discr):
        a = self.adts.get(adt_path)
        if not a:
            return None
        for v in a["variants"]:
            if v["discr"] is not None and int(v["discr"]) == int(discr):
                return v["name"]
        return None

    def closures_of(self, body):
        return [b for b in self.bodies if b.kind == "Closure" and b.parent_fn == body.path]


class AnchorError(Exception):
    """A rule could not find the code it is about: the check is broken, not the code."""


# --------------------------------------------------------------------------- pretty printer (debug aid)
def fmt_place(p, body=None):
    s = "_%d" % p["l"]
    if body is not None and body.locals[p["l"]]["name"]:
        s += "{%s}" % body.locals[p["l"]]["name"]
    for pr in p["proj"]:
        if pr == "deref":
            s = "(*%s)" % s
        elif "f" in pr:
            s += "." + pr["f"]
        elif "as" in pr:
            s = "(%s as %s)" % (s, pr["as"])
        elif "idx" in pr:
            s += "[_%d]" % pr["idx"]
        else:
            s += "[?%s]" % json.dumps(pr)
    return s


def fmt_op(o, body=None):
    if "const" in o:
        c = o["const"]
        if c["fn"]:
            return "fn " + c["fn"]
        if c["path"]:
            return "const %s(=%s)" % (c["path"], c["int"])
        if c["int"] is not None:
            return "%s_%s" % (c["int"], c["ty"])
        return "const{%s}" % c["dbg"]
    if "copy" in o:
        return fmt_place(o["copy"], body)
    if "move" in o:
        return "move " + fmt_place(o["move"], body)
    return json.dumps(o)


def fmt_rv(rv, body=None):
    k = rv["k"]
    if k == "use":
        return fmt_op(rv["a"], body)
    if k == "binop":
        return "%s(%s, %s)" % (rv["op"], fmt_op(rv["a"], body), fmt_op(rv["b"], body))
    if k == "unop":
        return "%s(%s)" % (rv["op"], fmt_op(rv["a"], body))
    if k == "cast":
        return "%s as %s [%s]" % (fmt_op(rv["a"], body), rv["ty"], rv["kind"])
    if k == "ref":
        return "&%s%s" % ("mut " if rv.get("mut") else "", fmt_place(rv["p"], body))
    if k == "discr":
        return "discriminant(%s)" % fmt_place(rv["p"], body)
    if k == "agg":
        kd = rv["kind"]
        if isinstance(kd, dict) and "adt" in kd:
            nm = "%s::%s" % (kd["adt"], kd["variant"])
            return "%s{%s}" % (nm, ", ".join("%s: %s" % (f, fmt_op(o, body)) for f, o in zip(kd["fields"], rv["ops"])))
        if isinstance(kd, dict) and "closure" in kd:
            return "closure %s[%s]" % (kd["closure"], ", ".join(fmt_op(o, body) for o in rv["ops"]))
        return "%s(%s)" % (kd, ", ".join(fmt_op(o, body) for o in rv["ops"]))
    return json.dumps(rv)


def dump(body, out=sys.stdout):
    out.write("fn %s  [%s:%d] nargs=%d vis=%s unsafe=%s\n" % (body.path, body.file, body.line, body.nargs, body.vis, body.is_unsafe))
    for i, l in enumerate(body.locals):
        out.write("  let _%d: %s%s\n" % (i, l["ty"], "  // %s" % l["name"] if l["name"] else ""))
    for u in body.upvars:
        out.write("  upvar %s = %s\n" % (u["name"], fmt_place(u["place"])))
    for i, b in enumerate(body.blocks):
        if b["cleanup"]:
            continue
        out.write(" bb%d:\n" % i)
        for s in b["stmts"]:
            out.write("    %s = %s   // L%d\n" % (fmt_place(s["place"], body), fmt_rv(s["rv"], body), s["line"]))
        t = b["term"]
        k = t["k"]
        if k == "call":
            out.write("    %s = %s(%s) -> bb%s   // L%d%s\n" % (
                fmt_place(t["dest"], body), (t["callee"] or fmt_op(t["fop"], body)) + ("<%s>" % ",".join(t["substs"]) if t["substs"] else ""),
                ", ".join(fmt_op(a, body) for a in t["args"]), t["ret"], t["line"],
                " [resolved %s]" % t["resolved"] if t.get("resolved") and t["resolved"] != t["callee"] else ""))
        elif k == "switch":
            out.write("    switchInt(%s) -> [%s, otherwise: bb%d]\n" % (fmt_op(t["op"], body), ", ".join("%s: bb%d" % (a[0], a[1]) for a in t["arms"]), t["otherwise"]))
        elif k == "assert":
            out.write("    assert(%s == %s, %s) -> bb%d\n" % (fmt_op(t["cond"], body), t["expected"], t["kind"], t["ok"]))
        elif k == "goto":
            out.write("    goto bb%d\n" % t["t"])
        elif k == "drop":
            out.write("    drop(%s) -> bb%d\n" % (fmt_place(t["p"], body), t["t"]))
        else:
            out.write("    %s\n" % k)


if __name__ == "__main__":
    import glob
    f = Facts(sorted(glob.glob("/verif/.cache/facts/*/memmap.json"))[-1])
    for b in f.find(sys.argv[1]):
        dump(b)
