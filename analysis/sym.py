"""AVN - affine value numbering: a flow-sensitive symbolic evaluator over exported MIR.

Every value is a normal-form term:
  * Lin            integer-linear combination of atoms (+ constant); pointers are Lin too (base + offset)
  * atoms          hashable tuples: ('param',i,name) ('field',base,name) ('hload',base,path,ver) ('call',name,args[,site])
                   ('load',site,target) ('cas',site,target,expected,new) ('alignUp',a,x) ('hi',w) ('lo',w) ('pack',hi,lo)
                   ('size_of',T) ('align_of',T) ('phi',site,local) ('op',name,a,b) ('cmp',op,a,b) ('not',x) ('discr',x)
                   ('payload',x,variant,idx) ('min',a,b) ('max',a,b) ('satsub',a,b) ...
  * ('struct',adt,((field,val),...))  ('tuple',(vals))  ('variant',adt,name,(vals))  ('vsum',adt,((name,(vals)),...))
  * ('ref',('loc',frame,local,path))  reference to a local of an evaluation frame;  references into the heap are the
    pointer term itself (path-less) or ('ref',('heap',base,path)).
  * ('closure',def,(upvars))  ('fn',path)

Nothing is executed: the evaluator walks the CFG in reverse post-order once per widening round; joins keep equal
values, join structs field-wise and enum values variant-wise ('vsum'), and otherwise widen to a phi atom.  Loop-carried
locals are widened at the loop head.  Arithmetic is over the integers; every Add/Sub/Mul is logged as an 'arith'
site so that overflow is a separate obligation.
"""
import re
from facts import place_of, AnchorError

# ----------------------------------------------------------------------------- Lin


class Lin:
    __slots__ = ("m", "c", "_k")

    def __init__(self, m=None, c=0):
        self.m = {k: v for k, v in (m or {}).items() if v != 0}
        self.c = c
        self._k = None

    def key(self):
        if self._k is None:
            self._k = (tuple(sorted(self.m.items(), key=repr)), self.c)
        return self._k

    def __eq__(self, o):
        return isinstance(o, Lin) and self.key() == o.key()

    def __ne__(self, o):
        return not self.__eq__(o)

    def __hash__(self):
        return hash(("lin",) + self.key())

    def __repr__(self):
        return show(self)

    def is_const(self):
        return not self.m

    def atoms(self):
        return list(self.m.keys())


def norm(l):
    """A Lin that is exactly one atom is represented by the atom itself."""
    if isinstance(l, Lin) and l.c == 0 and len(l.m) == 1:
        (k, v), = l.m.items()
        if v == 1:
            return k
    return l


def const(n):
    return Lin({}, int(n))


def as_lin(v):
    if isinstance(v, Lin):
        return v
    return Lin({v: 1}, 0)


def add(a, b):
    a, b = as_lin(a), as_lin(b)
    m = dict(a.m)
    for k, v in b.m.items():
        m[k] = m.get(k, 0) + v
    return norm(Lin(m, a.c + b.c))


def neg(a):
    a = as_lin(a)
    return norm(Lin({k: -v for k, v in a.m.items()}, -a.c))


def sub(a, b):
    return add(a, neg(b))


def scale(a, n):
    a = as_lin(a)
    return norm(Lin({k: v * n for k, v in a.m.items()}, a.c * n))


def mul(a, b):
    """product of two linear terms, distributed: sum of ('mul', x, y) atoms (x, y atoms in canonical order) - so (k + 1) * p == k * p + p syntactically"""
    a, b = as_lin(a), as_lin(b)
    out = const(a.c * b.c)
    for x, cx in a.m.items():
        out = add(out, scale(x, cx * b.c))
    for y, cy in b.m.items():
        out = add(out, scale(y, cy * a.c))
    for x, cx in a.m.items():
        for y, cy in b.m.items():
            u, v = sorted([x, y], key=repr)
            out = add(out, scale(("mul", u, v), cx * cy))
    return out


def is_const(v):
    return isinstance(v, Lin) and v.is_const()


def const_val(v):
    return v.c if is_const(v) else None


def tag(v):
    return v[0] if isinstance(v, tuple) and v and isinstance(v[0], str) else None


# ----------------------------------------------------------------------------- pretty printing
def show(v, depth=0):
    if depth > 12:
        return "…"
    if isinstance(v, Lin):
        parts = []
        for k, c in sorted(v.m.items(), key=lambda kv: repr(kv[0])):
            s = show(k, depth + 1)
            if c == 1:
                parts.append(s)
            elif c == -1:
                parts.append("-" + s)
            else:
                parts.append("%d*%s" % (c, s))
        if v.c or not parts:
            parts.append(str(v.c))
        return "(" + " + ".join(parts).replace("+ -", "- ") + ")" if len(parts) > 1 else parts[0]
    if isinstance(v, tuple) and v and isinstance(v[0], str):
        t = v[0]
        if t == "param":
            return v[2] or "arg%d" % v[1]
        if t == "upvar":
            return "^" + str(v[1])
        if t == "field":
            return "%s.%s" % (show(v[1], depth + 1), v[2])
        if t == "hload":
            return "%s->%s@%s" % (show(v[1], depth + 1), ".".join(map(str, v[2])), show_ver(v[3]))
        if t == "struct":
            return "%s{%s}" % (v[1].split("::")[-1], ", ".join("%s: %s" % (f, show(x, depth + 1)) for f, x in v[2]))
        if t == "tuple":
            return "(" + ", ".join(show(x, depth + 1) for x in v[1]) + ")"
        if t == "variant":
            return "%s(%s)" % (v[2], ", ".join(show(x, depth + 1) for x in v[3]))
        if t == "vsum":
            return "<" + " | ".join("%s(%s)" % (n, ", ".join(show(x, depth + 1) for x in p)) for n, p in v[2]) + ">"
        if t == "ref":
            return "&" + show(v[1], depth + 1)
        if t == "loc":
            return "frame%d._%d%s" % (v[1], v[2], "".join("." + str(p) for p in v[3]))
        if t == "heap":
            return "[%s]%s" % (show(v[1], depth + 1), "".join("." + str(p) for p in v[2]))
        if t == "call":
            return "%s(%s)%s" % (v[1].split("::")[-1], ", ".join(show(x, depth + 1) for x in v[2]), "#%s" % show_site(v[3]) if len(v) > 3 else "")
        if t == "load":
            return "load[%s]#%s" % (show(v[2], depth + 1), show_site(v[1]))
        if t == "cas":
            return "cas[%s](%s -> %s)#%s" % (show(v[2], depth + 1), show(v[3], depth + 1), show(v[4], depth + 1), show_site(v[1]))
        if t == "phi":
            if len(v) > 3:
                return "phi#%s._%s{%s}" % (show_site(v[1])[-24:], v[2], " | ".join(show(x, depth + 1) for x in v[3]))
            return "phi#%s._%s" % (show_site(v[1])[-24:], v[2])
        if t in ("size_of", "align_of"):
            return "%s<%s>" % (t, v[1])
        return "%s(%s)" % (t, ", ".join(show(x, depth + 1) for x in v[1:]))
    if isinstance(v, tuple):
        return "(" + ", ".join(show(x, depth + 1) for x in v) + ")"
    return str(v)


def show_site(s):
    if isinstance(s, tuple):
        return "/".join(show_site(x) for x in s)
    return str(s)


def show_ver(v):
    return show_site(v)


# ----------------------------------------------------------------------------- struct helpers
def mk_struct(adt, fields):
    return ("struct", adt, tuple(fields.items()) if isinstance(fields, dict) else tuple(fields))


def struct_get(s, f):
    for k, v in s[2]:
        if k == f:
            return v
    return None


def struct_set(s, f, val):
    out = []
    found = False
    for k, v in s[2]:
        if k == f:
            out.append((k, val))
            found = True
        else:
            out.append((k, v))
    if not found:
        out.append((f, val))
    return ("struct", s[1], tuple(out))


PURE_RE = re.compile(
    r"^(core|std|alloc)::(?!sync::atomic|ptr::(write|copy|swap|replace|drop_in_place|read)|mem::(take|replace|swap|forget)|"
    r"intrinsics::(write_bytes|copy)|fs::|io::|alloc::|thread::|cell::.*::(set|replace|swap))"
)
PURE_CRATE_RE = re.compile(
    r"(::raw_ptr|::raw_mut_ptr|::as_ptr|::as_mut_ptr|::capacity|::offset|::buffer_offset|::buffer_capacity|::header|::header_mut|"
    r"::get_segment_node|::as_inner_ref|::as_inner_mut|::as_inner_ref_mut|::as_inner_ptr|::cap|::data_offset|::reserved|"
    r"::read_only|::unify|::freelist|::magic_version|::version|::flag|::maximum_retries|::refs|::as_ref|::deref|::pad|"
    r"::page_size|::reserved_bytes|::minimum_segment_size|::maximum_alignment|::lock_meta|::populate|::contains|::bits|"
    r"::from_bits_retain|::union|::empty|::all|::is_empty|::len|::allocated|::remaining|::discarded|::path|::as_path)$"
)

INT_TY = re.compile(r"^(u|i)(8|16|32|64|128|size)$")

# reference naming of parameters / captured variables (tools/gen_names.py): atoms are named by function path and position, not by what the
# source currently calls them, so a renamed parameter does not change any term
try:
    import json as _json, os as _os
    _NAMES = _json.load(open(_os.path.join(_os.path.dirname(_os.path.abspath(__file__)), "names.json")))
except Exception:
    _NAMES = {"params": {}, "upvars": {}}


def param_name(body, i):
    ref = _NAMES["params"].get(body.path)
    if ref is not None and len(ref) == body.nargs and i < len(ref):
        return ref[i]
    return body.locals[i + 1]["name"] or "arg%d" % i


def upvar_name(body, k, actual):
    """captured variables are named as in the reference table unless the capture list changed: the capture *index* follows the order of first use in
    the closure body, so only the set of names is compared - a single renamed capture is mapped back to its reference name, anything else keeps the
    actual names"""
    ref = _NAMES["upvars"].get(body.path)
    if ref is None:
        return actual
    refnames = set(ref.values())
    actual_names = set(u["name"] for u in (body.upvars or []))
    if actual in refnames:
        return actual
    renamed, missing = actual_names - refnames, refnames - actual_names
    if len(renamed) == 1 and len(missing) == 1 and actual in renamed:
        return next(iter(missing))
    return actual


class Frame:
    _next = [0]

    def __init__(self, body, chain, parent=None):
        self.body = body
        self.parent = parent  # the call entry (in the caller's frame) that inlined this frame
        self.res = None
        self.env = {}
        Frame._next[0] += 1
        self.id = Frame._next[0]
        self.chain = chain  # tuple of (body path, bb) call sites leading here


class Entry(dict):
    """One log entry: kind, body, bb, chain, plus kind-specific keys."""
    __getattr__ = dict.get


class Result:
    def __init__(self):
        self.log = []
        self.ret = None
        self.conds = {}      # bb -> cond term of its switch
        self.env_in = {}
        self.env_out = {}
        self.passes = 0
        self.body = None
        self.frame = None

    def entries(self, kind=None, pred=None):
        for e in self.log:
            if kind is not None and e["kind"] != kind:
                continue
            if pred is not None and not pred(e):
                continue
            yield e

    def calls(self, regex):
        r = re.compile(regex)
        return [e for e in self.log if e["kind"] == "call" and r.search(e["callee"])]


class Evaluator:
    def __init__(self, facts, inline=True, max_depth=5, no_inline=(), inline_only=None, assume=(), upvar_values=()):
        self.facts = facts
        # specialisation: atoms replaced by given values whenever they are read (e.g. opts.unify := 1)
        self.assume = dict(assume)
        self.upvar_values = dict(upvar_values)      # captured variable name -> the value the enclosing function gave it (engine.Ctx.eval fills it in)
        self.inline = inline
        self.max_depth = max_depth
        self.no_inline = [re.compile(x) for x in no_inline]
        self.inline_only = [re.compile(x) for x in inline_only] if inline_only is not None else None
        self.transparent = {}
        for p, a in facts.adts.items():
            if "TRANSPARENT" in a["repr"].upper() and len(a["variants"]) == 1 and len(a["variants"][0]["fields"]) == 1:
                self.transparent[p] = a["variants"][0]["fields"][0]["name"]
        self.frames = {}

    # ------------------------------------------------------------------ public
    def closure_args(self, body):
        """symbolic arguments for a closure body evaluated on its own: captured variables become named atoms"""
        n = 0
        ups = {}
        for u in body.upvars:
            pr = u["place"]["proj"]
            fi = [p for p in pr if isinstance(p, dict) and "f" in p]
            if not fi:
                continue
            k = fi[0]["i"]
            by_ref = pr and pr[-1] == "deref" and pr.index(fi[0]) < len(pr) - 1
            atom = ("upvar", upvar_name(body, k, u["name"]))
            atom = self.upvar_values.get(atom[1], atom)
            ups[k] = ("ref", ("tmp", atom)) if by_ref else atom
            n = max(n, k + 1)
        env = ("closure", body.path, tuple(ups.get(i, ("upvar", "#%d" % i)) for i in range(n)))
        a0 = ("ref", ("tmp", env)) if body.locals[1]["ty"].startswith("&") else env
        return [a0] + [("param", i, param_name(body, i)) for i in range(1, body.nargs)]

    def run(self, body, args=None):
        if args is None and body.kind == "Closure" and body.nargs >= 1:
            args = self.closure_args(body)
        self.heap = {}
        self.ver = (("v", 0), ("v", 0))   # (arena / unknown memory version, parameter-struct memory version)
        self._vcount = 0
        self.stack = []
        self.log = []
        res = self._eval_body(body, args, chain=())
        return res

    # ------------------------------------------------------------------ body evaluation
    def _eval_body(self, body, args, chain, parent=None):
        if args is None:
            args = [("param", i, param_name(body, i)) for i in range(body.nargs)]
        widen = {}
        heap0 = dict(self.heap)
        ver0 = self.ver
        log_start = len(self.log)
        res = None
        for rnd in range(12):
            del self.log[log_start:]
            self.heap = dict(heap0)
            self.ver = ver0
            frame = Frame(body, chain, parent)
            self.frames[frame.id] = frame
            res, changed = self._pass(body, frame, args, widen, chain)
            res.passes = rnd + 1
            if not changed:
                break
        res.log = self.log[log_start:]
        res.all_log = self.log
        res.body = body
        return res

    def _pass(self, body, frame, args, widen, chain):
        res = Result()
        res.frame = frame
        res.body = body
        frame.res = res
        order = body.rpo()
        pos = {b: i for i, b in enumerate(order)}
        out = {}  # bb -> (env, heap, ver)
        self.stack.append(frame)
        rets = []
        try:
            for bi in order:
                preds = [p for p in body.pred[bi] if p in out and (p, bi) in out[p][3]]
                if bi == 0:
                    env = {i + 1: a for i, a in enumerate(args)}
                    heap, ver = self.heap, self.ver
                    if preds:  # entry block inside a loop: join with back edges handled by widening
                        pass
                else:
                    if not preds:
                        continue
                    env, heap, ver = self._join(bi, [out[p] for p in preds], frame, preds)
                for l in sorted(widen.get(bi, ()), key=repr):
                    if l == "#heap":
                        heap = {}
                        ver = (("w", frame_site(chain, body, bi)),) * 2
                    elif isinstance(l, tuple):
                        # a struct-valued loop variable of which only some fields change around the loop (a Range iterator): widen those fields only
                        base = env.get(l[0])
                        if tag(base) == "struct":
                            env[l[0]] = self._set_path(base, l[1], ("phi", frame_site(chain, body, bi), (l[0],) + tuple(l[1])))
                        else:
                            env[l[0]] = ("phi", frame_site(chain, body, bi), l[0])
                    else:
                        env[l] = ("phi", frame_site(chain, body, bi), l)
                res.env_in[bi] = dict(env)
                frame.env = env
                self.heap, self.ver = dict(heap), ver
                blk = body.blocks[bi]
                for si, st in enumerate(blk["stmts"]):
                    self._stmt(body, frame, bi, si, st, res)
                live = self._term(body, frame, bi, blk["term"], res, rets)
                out[bi] = (dict(frame.env), dict(self.heap), self.ver, live)
                res.env_out[bi] = out[bi][0]
        finally:
            self.stack.pop()
        # widening check on back edges
        changed = False
        for u in order:
            for v in body.succ[u]:
                if pos.get(v, 1 << 30) <= pos[u] and u in out and (u, v) in out[u][3]:
                    envu, heapu, veru, _ = out[u]
                    envv = res.env_in.get(v, {})
                    w = widen.setdefault(v, set())
                    for l in set(envu) | set(envv):
                        if l in w:
                            continue
                        a, b = envu.get(l), envv.get(l)
                        if a is not None and b is not None and a != b:
                            paths = _struct_diff(a, b)
                            if paths is None or any(not p_ for p_ in paths):
                                w.add(l)
                                changed = True
                            else:
                                for p_ in paths:
                                    if (l, p_) not in w:
                                        w.add((l, p_))
                                        changed = True
                    if "#heap" not in w:
                        hv = out_heap_in(out, body, v, pos)
                        if hv is not None and (heapu != hv[0] or veru != hv[1]):
                            # heap differs around the loop: start the loop head with an unknown heap
                            w.add("#heap")
                            changed = True
        # return value = join of _0 at return blocks
        if rets:
            vals = [r[0] for r in rets]
            v = vals[0]
            o = rets[0][3]
            for r in rets[1:]:
                v = self._join_val(v, r[0], ("ret", frame_site(chain, body, 0)), 0, 0, o, r[3])
                o = None
            res.ret = v
            # leave heap as the join of the return states
            hs = [(r[1], r[2]) for r in rets]
            h, ver = hs[0]
            for h2, v2 in hs[1:]:
                if h2 != h or v2 != ver:
                    diff = [k for k in set(h) | set(h2) if h.get(k) != h2.get(k)]
                    h = {k: x for k, x in h.items() if h2.get(k) == x}
                    ver = _join_ver(ver, v2, ("j", frame_site(chain, body, "ret")), diff)
            self.heap, self.ver = dict(h), ver
        else:
            res.ret = ("never",)
        self._last_out = out
        return res, changed

    def _join(self, bi, states, frame, origins=None):
        origins = origins or [None] * len(states)
        if len(states) == 1:
            e, h, v, _ = states[0]
            return dict(e), dict(h), v
        env = {}
        keys = set(states[0][0])
        for s in states[1:]:
            keys &= set(s[0])
        site = frame_site(frame.chain, frame.body, bi)
        for k in keys:
            vals = [s[0][k] for s in states]
            if len(states) > 2 and all(isinstance(x, Lin) and x.is_const() for x in vals) and all(o is not None for o in origins) and len(set(vals)) > 1:
                # a flag set to constants on several edges: keep every (constant, edge) pair, also when two edges set the same constant
                pairs = sorted(set(zip(vals, origins)), key=repr)
                if len(pairs) <= 6:
                    env[k] = ("phi", site, k, tuple(p[0] for p in pairs), tuple(p[1] for p in pairs))
                    continue
            v = states[0][0][k]
            o = origins[0]
            for s, o2 in zip(states[1:], origins[1:]):
                v = self._join_val(v, s[0][k], site, k, 0, o, o2)
                o = None
            env[k] = v
        h = states[0][1]
        ver = states[0][2]
        for s in states[1:]:
            if s[1] != h or s[2] != ver:
                # a location stored on one side only: reads after the join must not equal reads before it
                diff = [k for k in set(h) | set(s[1]) if h.get(k) != s[1].get(k)]
                h = {k: x for k, x in h.items() if s[1].get(k) == x}
                ver = _join_ver(ver, s[2], ("j", site), diff)
        return env, dict(h), ver

    def _join_val(self, a, b, site, local, depth=0, oa=None, ob=None):
        if a == b:
            return a
        ta, tb = tag(a), tag(b)
        if depth < 6:
            if ta == "struct" and tb == "struct" and a[1] == b[1]:
                fa, fb = dict(a[2]), dict(b[2])
                if set(fa) == set(fb):
                    return mk_struct(a[1], {k: self._join_val(fa[k], fb[k], site, (local, k), depth + 1, oa, ob) for k in fa})
            if ta == "tuple" and tb == "tuple" and len(a[1]) == len(b[1]):
                return ("tuple", tuple(self._join_val(x, y, site, (local, i), depth + 1, oa, ob) for i, (x, y) in enumerate(zip(a[1], b[1]))))
            if ta in ("variant", "vsum") and tb in ("variant", "vsum") and a[1] == b[1]:
                va = dict([(a[2], a[3])]) if ta == "variant" else dict(a[2])
                vb = dict([(b[2], b[3])]) if tb == "variant" else dict(b[2])
                outv = {}
                for n in set(va) | set(vb):
                    if n in va and n in vb:
                        pa, pb = va[n], vb[n]
                        if len(pa) == len(pb):
                            outv[n] = tuple(self._join_val(x, y, site, (local, n, i), depth + 1, oa, ob) for i, (x, y) in enumerate(zip(pa, pb)))
                        else:
                            outv[n] = tuple(("phi", site, (local, n, i)) for i in range(max(len(pa), len(pb))))
                    else:
                        outv[n] = va.get(n, vb.get(n))
                if len(outv) == 1:
                    (n, p), = outv.items()
                    return ("variant", a[1], n, p)
                # which incoming edge built which variant (`let r = if c { A } else { B(x) }; match r { .. }`): a later test of the discriminant then
                # carries the guards of those edges (guards(): _flag_phi_guards)
                frm = []
                okf = depth == 0
                for x_, o_ in ((a, oa), (b, ob)):
                    if tag(x_) == "variant" and o_ is not None:
                        frm.append((x_[2], o_))
                    elif tag(x_) == "vsum" and len(x_) > 3 and x_[3][0] == "from" and x_[3][1] == site:
                        frm.extend(x_[3][2])
                    else:
                        okf = False
                if okf and frm:
                    return ("vsum", a[1], tuple(sorted(outv.items())), ("from", site, tuple(sorted(set(frm), key=repr))))
                return ("vsum", a[1], tuple(sorted(outv.items())))
        alts = []
        origins = []
        for x, o in ((a, oa), (b, ob)):
            if tag(x) == "phi" and len(x) > 3 and x[1] == site and x[2] == local:
                alts.extend(x[3])
                origins.extend(x[4])
            else:
                alts.append(x)
                origins.append(o)
        pairs = sorted(set(zip(alts, origins)), key=repr)
        if len(pairs) > 6:
            return ("phi", site, local)
        return ("phi", site, local, tuple(p[0] for p in pairs), tuple(p[1] for p in pairs))

    # ------------------------------------------------------------------ places
    def _resolve(self, frame, place):
        """-> ('val', value, loc|None) or ('hplace', base, path, stable)."""
        l = place["l"]
        v = frame.env.get(l)
        if v is None:
            v = ("undef", frame.id, l)
        state = ("val", v, ("loc", frame.id, l, ()))
        ltype = frame.body.locals[l]["ty"]
        first = True
        for pr in place["proj"]:
            if pr == "deref":
                if state[0] == "val":
                    val = state[1]
                    if tag(val) == "ref":
                        tgt = val[1]
                        if tgt[0] == "loc":
                            fr = self.frames[tgt[1]]
                            cur = fr.env.get(tgt[2], ("undef", tgt[1], tgt[2]))
                            cur = self._walk_value(cur, tgt[3])
                            state = ("val", cur, tgt)
                        elif tgt[0] == "tmp":
                            state = ("val", tgt[1], None)
                        else:
                            state = ("hplace", tgt[1], tgt[2], False)
                    else:
                        stable = first and ltype.startswith("&") and not ltype.startswith("&mut ")
                        if stable and tag(val) == "param" and isinstance(val[1], int):
                            # a shared view (`&self` helper) of something the evaluated function holds by `&mut`: the fields are whatever the
                            # function has stored so far, not their entry values
                            top = self.stack[0].body if getattr(self, "stack", None) else frame.body
                            if val[1] + 1 < len(top.locals) and top.locals[val[1] + 1]["ty"].startswith("&mut "):
                                stable = False
                        state = ("hplace", val, (), stable)
                else:
                    # deref of a pointer stored in the heap: load it first
                    ptr = self._heap_read(state[1], state[2], state[3], frame)
                    if tag(ptr) == "ref" and ptr[1][0] == "heap":
                        state = ("hplace", ptr[1][1], ptr[1][2], False)
                    else:
                        state = ("hplace", ptr, (), False)
            elif "f" in pr:
                name = pr["f"]
                if pr.get("adt") in self.transparent and self.transparent[pr["adt"]] == name:
                    first = False
                    continue
                if state[0] == "val":
                    val, loc = state[1], state[2]
                    nloc = ("loc", loc[1], loc[2], loc[3] + (name,)) if loc else None
                    state = ("val", self._field(val, name, pr.get("i")), nloc)
                else:
                    stable = state[3] and not self._interior_mut(pr.get("adt"), name)
                    state = ("hplace", state[1], state[2] + (name,), stable)
            elif "as" in pr:
                if state[0] == "val":
                    val, loc = state[1], state[2]
                    nloc = ("loc", loc[1], loc[2], loc[3] + (("as", pr["as"]),)) if loc else None
                    state = ("val", self._downcast(val, pr["as"]), nloc)
                else:
                    state = ("hplace", state[1], state[2] + (("as", pr["as"]),), state[3])
            elif "idx" in pr:
                iv = frame.env.get(pr["idx"], ("undef", frame.id, pr["idx"]))
                if state[0] == "val":
                    state = ("val", ("index", state[1], iv), None)
                else:
                    state = ("hplace", state[1], state[2] + (("idx", iv),), False)
            else:
                if state[0] == "val":
                    state = ("val", ("proj", state[1], repr(sorted(pr.items()))), None)
                else:
                    state = ("hplace", state[1], state[2] + (("proj", repr(sorted(pr.items()))),), False)
            first = False
        return state

    def _interior_mut(self, adt, name):
        a = self.facts.adts.get(adt) if adt else None
        if not a:
            return True
        for v in a["variants"]:
            for f in v["fields"]:
                if f["name"] == name:
                    return bool(re.search(r"^(std::sync::atomic::|core::sync::atomic::|std::cell::|core::cell::|loom::|(un)?sync::SegmentNode|(un)?sync::sealed::Header)", f["ty"]))
        return True

    def _walk_value(self, val, path):
        for p in path:
            if isinstance(p, tuple) and p[0] == "as":
                val = self._downcast(val, p[1])
            else:
                val = self._field(val, p, None)
        return val

    def _field(self, val, name, idx):
        t = tag(val)
        if t == "struct":
            r = struct_get(val, name)
            if r is not None:
                return r
            return ("field", val, name)
        def _idx():
            if idx is not None:
                return idx
            try:
                return int(name)
            except (TypeError, ValueError):
                return None
        if t == "tuple":
            i = _idx()
            if i is not None and i < len(val[1]):
                return val[1][i]
        if t == "payloads":  # result of a downcast: tuple of payload values
            i = _idx()
            if i is not None and i < len(val[1]):
                return val[1][i]
            return ("field", val, name)
        if t == "closure":
            i = _idx()
            if i is not None and i < len(val[2]):
                return val[2][i]
        if t == "ref" and val[1][0] == "heap":
            return ("field", val, name)
        return ("field", val, name)

    def _downcast(self, val, vname):
        t = tag(val)
        if t == "variant":
            if val[2] == vname:
                return ("payloads", val[3])
            return ("payloads", ())
        if t == "vsum":
            for n, p in val[2]:
                if n == vname:
                    return ("payloads", p)
            return ("payloads", ())
        return ("downcast", val, vname)

    def _heap_read(self, base, path, stable, frame):
        path = tuple(path)
        if stable and path:
            v = base
            for p in path:
                v = ("field", v, p) if not isinstance(p, tuple) else ("downcast", v, p[1])
            return v
        key = (base, path)
        if key in self.heap:
            return self.heap[key]
        # a read through a prefix that was stored as a struct
        for i in range(len(path) - 1, -1, -1):
            k2 = (base, path[:i])
            if k2 in self.heap:
                return self._walk_value(self.heap[k2], path[i:])
        return ("hload", base, path, self.ver[1] if tag(base) == "param" else self.ver[0])

    def read(self, frame, place):
        st = self._resolve(frame, place)
        if st[0] == "val":
            v = st[1]
            # field of payloads like (x as Ok).0 on an opaque value
            v = self._simplify(v)
        else:
            v = self._heap_read(st[1], st[2], st[3], frame)
        if self.assume and isinstance(v, tuple) and v in self.assume:
            return self.assume[v]
        return v

    def _simplify(self, v):
        # ('field', ('downcast', X, V), i) -> ('payload', X, V, i) with cas_ok simplification
        if tag(v) == "field" and tag(v[1]) == "downcast":
            x, vn, i = v[1][1], v[1][2], v[2]
            return self._payload(x, vn, i)
        if tag(v) == "field" and tag(v[1]) == "field":
            # ((x as Some).0).1: a field of a payload that is itself an aggregate
            inner = self._simplify(v[1])
            if inner is not v[1] and inner != v[1]:
                return self._field(inner, v[2], None)
        return v

    def _payload(self, x, vn, i):
        try:
            i = int(i)
        except (TypeError, ValueError):
            pass
        if tag(x) == "cas" and i == 0:
            if vn == "Ok":
                return x[3]  # a successful CAS returns its expected value
            return ("casfail", x)
        if tag(x) == "call" and x[1].endswith("Try::branch") and vn == "Continue":
            return self._payload(x[2][0], "Ok" if True else "Some", i)
        if tag(x) == "filter" and vn == "Some":
            return self._payload(x[1], vn, i)
        if tag(x) == "tryfrom" and vn == "Ok" and i == 0:
            return x[1]
        if tag(x) == "rangenext" and vn == "Some" and i == 0:
            return x[1]
        if tag(x) == "nonzero" and vn == "Some" and i == 0:
            return x[1]
        if tag(x) == "variant" and x[2] == vn and isinstance(i, int) and i < len(x[3]):
            return x[3][i]
        if tag(x) == "phi" and len(x) > 3 and isinstance(i, int) and len(x[3]) <= 4:
            # a join of Option / Result values, asked for the payload of one variant: the alternatives that are literally another variant cannot be meant;
            # when one candidate is left, it is the payload
            cands = []
            for a_ in x[3]:
                if tag(a_) == "variant":
                    if a_[2] == vn and i < len(a_[3]):
                        cands.append(a_[3][i])
                    continue
                if tag(a_) in ("call", "filter", "vsum", "nonzero", "tryfrom"):
                    p_ = self._payload(a_, vn, i)
                    if tag(p_) == "payload" and p_[1] == a_:
                        cands = None
                        break
                    cands.append(p_)
                    continue
                cands = None
                break
            if cands is not None and len(cands) == 1:
                return cands[0]
        if tag(x) == "vsum" and isinstance(i, int):
            # a value known variant by variant (the result of a combinator): the payload of the variant asked for
            for n_, p_ in x[2]:
                if n_ == vn and i < len(p_):
                    return p_[i]
        if tag(x) == "call" and x[1].endswith("checked_sub") and vn == "Some" and i == 0:
            return sub(x[2][0], x[2][1])
        if tag(x) == "call" and x[1].endswith("checked_add") and vn == "Some" and i == 0:
            return add(x[2][0], x[2][1])
        return ("payload", x, vn, i)

    def operand(self, frame, op):
        if "const" in op:
            c = op["const"]
            if c["fn"]:
                return ("fn", c["fn"])
            if c["int"] is not None:
                n = int(c["int"])
                ty = c["ty"]
                m = re.match(r"^i(8|16|32|64|128|size)$", ty)
                if m:
                    bits = 64 if m.group(1) == "size" else int(m.group(1))
                    if n >= 1 << (bits - 1):
                        n -= 1 << bits
                if c["path"] and re.search(r"(REMOVED_SEGMENT_NODE|SENTINEL_SEGMENT_NODE_(SIZE|OFFSET))$", c["path"]):
                    return ("named", c["path"].split("::")[-1], n)
                return const(n)
            if c.get("ref_int") is not None:
                # a promoted reference to a scalar (`x.cmp(&0)`)
                n = int(c["ref_int"])
                m = re.match(r"^&(?:'\w+ )?i(8|16|32|64|128|size)$", c["ty"])
                if m:
                    bits = 64 if m.group(1) == "size" else int(m.group(1))
                    if n >= 1 << (bits - 1):
                        n -= 1 << bits
                return ("ref", ("tmp", const(n)))
            if c["path"]:
                return ("constpath", c["path"], c["dbg"])
            return ("constval", c["ty"], c["dbg"])
        p = place_of(op)
        if p is None:
            return ("unknown-operand", repr(op))
        return self.read(frame, p)

    def assign(self, frame, place, val, bi, si, res):
        l = place["l"]
        proj = place["proj"]
        if not proj:
            frame.env[l] = val
            if l == 0:
                own_ = "%s@" % frame.body.name
                if tag(val) == "vsum" and len(val) > 3 and val[3][0] == "by":
                    # `r.map(f)` returned as it is = `match r { Ok(v) => Ok(f(v)), Err(e) => Err(e) }`: one return per variant of r
                    vals = [(("variant", val[1], nm, payload), [("variant-is", val[3][1], nm)], None) for nm, payload in val[2]]
                elif (tag(val) == "vsum" and len(val) > 3 and val[3][0] == "from" and len(val[3][1]) == len(frame.chain) + 1 and str(val[3][1][-1]).startswith(own_)
                      and all(o is not None for _, o in val[3][2])):
                    # a value joined from variant constructions of this frame (the exits of an inlined helper, possibly passed through `.map(..)`) and returned
                    # as it is: one return per construction, each with what that edge brought
                    try:
                        jb_ = int(str(val[3][1][-1]).split("@")[-1])
                    except ValueError:
                        jb_ = None
                    vals = []
                    pay = dict(val[2])
                    for nm, origin in (val[3][2] if jb_ is not None else ()):
                        v_ = ("variant", val[1], nm, pay.get(nm, ()))
                        phis = []
                        same_variant = [o for n_, o in val[3][2] if n_ == nm]

                        def origins_of(x):
                            # the incoming edges of a payload join; one edge left unnamed is the construction of this variant that is not among the named ones
                            o4 = list(x[4])
                            if o4.count(None) == 1:
                                rest_ = [o for o in same_variant if o not in o4]
                                if len(rest_) == 1:
                                    o4[o4.index(None)] = rest_[0]
                            return o4
                        _walk_terms(v_, lambda x: phis.append(x) if (tag(x) == "phi" and len(x) > 4 and x[1] == val[3][1] and x[4] and len(x[4]) == len(x[3])
                                                                    and origin in origins_of(x)) else None)
                        for ph_ in phis:
                            v_ = _subst(v_, ph_, ph_[3][origins_of(ph_).index(origin)])
                        vals.append((self._resimplify(v_), [], (origin, jb_)))
                    if not vals:
                        vals = [(val, [], None)]
                else:
                    vals = [(val, [], None)]
                for val_, eg_, edge_ in vals:
                    split = self._dispatch_join(frame, val_)
                    at_ = edge_[0] if edge_ is not None else bi      # (a return that stands for one incoming edge of a join is reached over that edge)
                    if split is not None and not (frame.body.dominates(split[1], at_) or split[1] == at_) and not self._reached_only_through(frame, bi, split[1]):
                        split = None        # some path returns here without passing the dispatch: the per-call reading would lose it
                    if split is None:
                        e_ = self._log(frame, bi, si, kind="ret0", value=val_)
                        if e_ is not None and eg_:
                            e_.setdefault("extra_guards", []).extend(eg_)
                        if e_ is not None and edge_ is not None:
                            e_.setdefault("extra_edges", []).append(edge_)
                    else:
                        # `let r = match kind { A => f(), B => g() }; ..; return h(r)`: one return per call that can have produced r
                        ph, jb = split
                        for alt, origin in zip(ph[3], ph[4]):
                            v2 = _subst(val_, ph, alt)
                            if tag(v2) == "vsum" and len(v2) > 3 and v2[3][0] == "by":
                                for nm, payload in v2[2]:
                                    e_ = self._log(frame, bi, si, kind="ret0", value=("variant", v2[1], nm, payload))
                                    e_.setdefault("extra_edges", []).append((origin, jb))
                                    if edge_ is not None:
                                        e_["extra_edges"].append(edge_)
                                    e_.setdefault("extra_guards", []).extend(list(eg_) + [("variant-is", v2[3][1], nm)])
                                    e_["subst"] = (ph, alt)
                                continue
                            e_ = self._log(frame, bi, si, kind="ret0", value=self._resimplify(v2))
                            e_.setdefault("extra_edges", []).append((origin, jb))
                            if edge_ is not None:
                                e_["extra_edges"].append(edge_)
                            if eg_:
                                e_.setdefault("extra_guards", []).extend(eg_)
                            e_["subst"] = (ph, alt)
            return
        # find the deepest deref
        last_deref = -1
        for i, pr in enumerate(proj):
            if pr == "deref":
                last_deref = i
        if last_deref < 0:
            path = self._path_of(proj, frame)
            if path is None:
                frame.env[l] = ("clobbered", frame.id, l, bi, si)
                return
            frame.env[l] = self._set_path(frame.env.get(l, ("undef", frame.id, l)), path, val)
            return
        st = self._resolve(frame, {"l": l, "proj": proj[: last_deref + 1]})
        rest = self._path_of(proj[last_deref + 1:], frame)
        if st[0] == "val":
            loc = st[2]
            if loc is None or rest is None:
                return
            fr = self.frames[loc[1]]
            full = loc[3] + rest
            if not full:
                fr.env[loc[2]] = val
            else:
                fr.env[loc[2]] = self._set_path(fr.env.get(loc[2], ("undef", loc[1], loc[2])), full, val)
            return
        base, path = st[1], tuple(st[2]) + (rest if rest is not None else ("?",))
        # drop transparent wrappers already handled in _resolve/_path_of
        self._heap_store(frame, bi, si, base, path, val)

    def _heap_store(self, frame, bi, si, base, path, val, how="store"):
        # invalidate overlapping entries
        for k in list(self.heap):
            if k[0] == base and (k[1][: len(path)] == path or path[: len(k[1])] == k[1]):
                del self.heap[k]
        self.heap[(base, path)] = val
        self._log(frame, bi, si, kind="store", base=base, path=path, value=val, how=how)

    def _path_of(self, proj, frame=None):
        out = []
        for pr in proj:
            if pr == "deref":
                return None
            if "idx" in pr and frame is not None:
                out.append(("idx", frame.env.get(pr["idx"], ("undef", frame.id, pr["idx"]))))
                continue
            if "cidx" in pr:
                out.append(("idx", const(pr["cidx"])))
                continue
            if "f" in pr:
                if pr.get("adt") in self.transparent and self.transparent[pr["adt"]] == pr["f"]:
                    continue
                out.append(pr["f"])
            elif "as" in pr:
                out.append(("as", pr["as"]))
            else:
                return None
        return tuple(out)

    def _set_path(self, val, path, new):
        if not path:
            return new
        p = path[0]
        if isinstance(p, tuple) and p[0] == "idx":
            return ("array-update", val, p[1], new)
        if isinstance(p, tuple):  # downcast write: keep opaque
            return ("clobbered-variant", val, p[1], self._set_path(self._downcast(val, p[1]), path[1:], new))
        t = tag(val)
        if t == "struct":
            cur = struct_get(val, p)
            if cur is None:
                cur = ("field", val, p)
            return struct_set(val, p, self._set_path(cur, path[1:], new))
        if t == "tuple":
            try:
                i = int(p)
                items = list(val[1])
                items[i] = self._set_path(items[i], path[1:], new)
                return ("tuple", tuple(items))
            except (ValueError, IndexError):
                pass
        # opaque base: materialise as a partial struct
        s = ("struct", "?partial", ())
        s = struct_set(s, "#base", val)
        return struct_set(s, p, self._set_path(("field", val, p), path[1:], new))

    # ------------------------------------------------------------------ statements
    def _stmt(self, body, frame, bi, si, st, res):
        rv = st["rv"]
        k = rv["k"]
        val = None
        if k == "use":
            val = self.operand(frame, rv["a"])
        elif k == "cast":
            val = self.operand(frame, rv["a"])
            kind = rv["kind"]
            if kind == "IntToInt":
                src = val
                # narrowing / sign-changing casts are recorded, value kept (arithmetic over Z)
                self._log(frame, bi, si, kind="cast", value=src, ty=rv["ty"], mac=st.get("mac"))
            elif kind == "Transmute":
                val = ("transmute", rv["ty"], val) if tag(val) not in (None,) and not isinstance(val, Lin) else val
        elif k == "binop":
            a = self.operand(frame, rv["a"])
            b = self.operand(frame, rv["b"])
            val = self._binop(frame, bi, si, rv["op"], a, b, st)
        elif k == "unop":
            a = self.operand(frame, rv["a"])
            op = rv["op"]
            if op == "Not":
                val = self._not(a)
            elif op == "Neg":
                val = neg(a) if _numeric(a) else ("neg", a)
            elif op == "PtrMetadata":
                val = a[2] if tag(a) == "slice" else ("len", a)
            else:
                val = ("unop", op, a)
        elif k == "ref":
            stt = self._resolve(frame, rv["p"])
            if stt[0] == "val":
                if stt[2] is not None:
                    val = ("ref", stt[2])
                else:
                    val = ("ref", ("tmp", stt[1]))
            else:
                base, path = stt[1], tuple(stt[2])
                val = base if not path else ("ref", ("heap", base, path))
        elif k == "agg":
            kd = rv["kind"]
            ops = [self.operand(frame, o) for o in rv["ops"]]
            if kd == "tuple":
                val = ("tuple", tuple(ops))
            elif kd == "array":
                val = ("array", tuple(ops))
            elif isinstance(kd, dict) and "adt" in kd:
                a = self.facts.adts.get(kd["adt"])
                is_enum = (a and a["kind"] == "Enum") or kd["adt"] in ("std::option::Option", "std::result::Result", "std::ops::ControlFlow", "either::Either")
                if is_enum or (a is None and kd["variant"] != kd["adt"].split("::")[-1]):
                    val = ("variant", kd["adt"], kd["variant"], tuple(ops))
                else:
                    val = mk_struct(kd["adt"], dict(zip(kd["fields"], ops)))
                    self._log(frame, bi, si, kind="agg", adt=kd["adt"], value=val)
            elif isinstance(kd, dict) and "closure" in kd:
                val = ("closure", kd["closure"], tuple(ops))
                # what the captured places hold now (by-reference captures are references to locals whose frame state changes later)
                if not hasattr(self, "closure_caps"):
                    self.closure_caps = {}
                snap = []
                for o_ in ops:
                    v_ = o_
                    for _ in range(3):
                        if tag(v_) == "ref":
                            v_ = self._deref_val(v_)
                    snap.append(v_)
                self.closure_caps.setdefault(kd["closure"], tuple(snap))
            else:
                val = ("agg", repr(kd), tuple(ops))
        elif k == "discr":
            v = self.read(frame, rv["p"])
            val = self._discr(v)
        elif k == "setdiscr":
            return
        elif k == "intrinsic":
            self._log(frame, bi, si, kind="intrinsic", dbg=rv["dbg"])
            return
        elif k == "repeat":
            val = ("repeat", self.operand(frame, rv["a"]), rv["n"])
        else:
            val = ("rv", k, rv.get("dbg", ""), frame_site(frame.chain, body, (bi, si)))
        self.assign(frame, st["place"], val, bi, si, res)

    def _discr(self, v):
        t = tag(v)
        if t == "variant":
            d = self._variant_discr(v[1], v[2])
            if d is not None:
                return const(d)
        return ("discr", v)

    def _variant_discr(self, adt, vname):
        std = {"std::option::Option": {"None": 0, "Some": 1}, "std::result::Result": {"Ok": 0, "Err": 1},
               "std::ops::ControlFlow": {"Continue": 0, "Break": 1}, "either::Either": {"Left": 0, "Right": 1}}
        if adt in std:
            return std[adt].get(vname)
        a = self.facts.adts.get(adt)
        if a:
            for v in a["variants"]:
                if v["name"] == vname and v["discr"] is not None:
                    return int(v["discr"])
        return None

    def discr_variant(self, adt, d):
        std = {"std::option::Option": {0: "None", 1: "Some"}, "std::result::Result": {0: "Ok", 1: "Err"},
               "std::ops::ControlFlow": {0: "Continue", 1: "Break"}, "either::Either": {0: "Left", 1: "Right"}}
        if adt in std:
            return std[adt].get(d)
        return self.facts.variant_by_discr(adt, d)

    def _not(self, a):
        if is_const(a):
            return const(0 if a.c else 1)
        if tag(a) == "not":
            return a[1]
        if tag(a) == "cmp":
            inv = {"Eq": "Ne", "Ne": "Eq", "Lt": "Ge", "Ge": "Lt", "Gt": "Le", "Le": "Gt"}
            return ("cmp", inv[a[1]], a[2], a[3])
        return ("not", a)

    def _binop(self, frame, bi, si, op, a, b, st):
        base = op.replace("WithOverflow", "").replace("Unchecked", "")
        checked = op.endswith("WithOverflow")
        if base in ("Add", "Sub", "Mul"):
            ty = None
            try:
                pl = st.get("place") or {}
                if not pl.get("proj"):
                    ty = frame.body.locals[pl["l"]]["ty"]
                    m = re.match(r"^\((\w+), bool\)$", ty)
                    ty = m.group(1) if m else ty
            except (KeyError, IndexError, TypeError):
                ty = None
            self._log(frame, bi, si, kind="arith", op=base, a=a, b=b, checked=checked, unchecked=op.endswith("Unchecked"), ty=ty, mac=st.get("mac"), line=st.get("line"))
        num = _numeric(a) and _numeric(b)
        r = None
        if base == "Add" and num:
            r = add(a, b)
        elif base == "Sub" and num:
            r = sub(a, b)
        elif base == "Mul" and num and (is_const(a) or is_const(b)):
            r = scale(b, a.c) if is_const(a) else scale(a, b.c)
        elif base == "Mul" and num and len(as_lin(a).m) <= 3 and len(as_lin(b).m) <= 3:
            r = mul(a, b)
        elif base in ("Div", "Rem") and num and not (is_const(a) and is_const(b)):
            r = ("div" if base == "Div" else "rem", a, b)
        elif base in ("Eq", "Ne", "Lt", "Le", "Gt", "Ge"):
            if is_const(a) and is_const(b):
                r = const(int({"Eq": a.c == b.c, "Ne": a.c != b.c, "Lt": a.c < b.c, "Le": a.c <= b.c, "Gt": a.c > b.c, "Ge": a.c >= b.c}[base]))
            else:
                r = ("cmp", base, a, b)
        elif base == "Offset" and num:
            r = add(a, b)
        elif base in ("BitAnd", "BitOr") and tag(a) in ("cmp", "not", "call") and tag(b) in ("cmp", "not", "call"):
            r = ("bool" + base[3:].lower(), a, b)
        else:
            r = ("op", base, a, b)
        if checked:
            return ("tuple", (r, ("ovf", base, a, b)))
        return r

    # ------------------------------------------------------------------ terminators
    def _term(self, body, frame, bi, t, res, rets):
        k = t["k"]
        live = set()
        if k == "goto":
            live.add((bi, t["t"]))
        elif k == "switch":
            cond = self.operand(frame, t["op"])
            res.conds[bi] = cond
            self._log(frame, bi, None, kind="switch", cond=cond)
            cv = const_val(cond)
            if cv is not None:
                tgt = None
                for v, b in t["arms"]:
                    if int(v) == cv:
                        tgt = b
                if tgt is None:
                    tgt = t["otherwise"]
                live.add((bi, tgt))
            else:
                for v, b in t["arms"]:
                    live.add((bi, b))
                live.add((bi, t["otherwise"]))
        elif k == "ret":
            rets.append((frame.env.get(0, ("undef", frame.id, 0)), dict(self.heap), self.ver, bi))
            self._log(frame, bi, None, kind="ret", value=frame.env.get(0))
        elif k == "assert":
            cond = self.operand(frame, t["cond"])
            if t["kind"] not in ("misaligned", "null"):
                self._log(frame, bi, None, kind="assert", akind=t["kind"], cond=cond, expected=t["expected"],
                          ops=[self.operand(frame, o) for o in t.get("ops", [])], line=t.get("line"))
            live.add((bi, t["ok"]))
        elif k == "drop":
            ty = t.get("ty", "")
            v = self.read(frame, t["p"])
            self._log(frame, bi, None, kind="drop", ty=ty, value=v, line=t.get("line"))
            live.add((bi, t["t"]))
        elif k == "call":
            self._call(body, frame, bi, t, res)
            if t["ret"] is not None:
                live.add((bi, t["ret"]))
        return {e for e in live if not body.blocks[e[1]]["cleanup"]}

    def _dispatch_join(self, frame, val):
        """an own-frame join, inside `val`, of the results of different calls (a merged dispatch): (phi, join block) or None"""
        own = "%s@" % frame.body.name
        hit = []

        def grab(x):
            if (not hit and tag(x) == "phi" and len(x) > 4 and x[4] and all(o is not None for o in x[4]) and len(x[1]) == len(frame.chain) + 1
                    and str(x[1][-1]).startswith(own) and len(x[3]) >= 2):
                def callof(a):
                    # the call an alternative is the result of - as it is, or after `?` took its Ok / Some payload (`match kind { A => f()?, B => g()? }`)
                    if tag(a) == "call" and len(a) > 3:
                        return a
                    if tag(a) == "payload" and tag(a[1]) == "call" and len(a[1]) > 3 and a[2] in ("Ok", "Some"):
                        return a[1]
                    return None
                calls = [callof(a) for a in x[3] if callof(a) is not None]
                rest = [a for a in x[3] if callof(a) is None]
                # the results of different calls, possibly next to plain Option / Result values (`match kind { None => Err(..), A => f(), B => g() }`)
                if calls and len(set(a[1] for a in calls)) == len(calls) and all(tag(a) in ("variant", "vsum") for a in rest) and (len(calls) >= 2 or rest):
                    hit.append(x)
                elif isinstance(x[2], tuple) and x[2] and x[2][0] in ("comb", "fnptr") and all(tag(a) in ("variant", "vsum", "call") for a in x[3]):
                    hit.append(x)       # made by distributing a combinator / an indirect call over such a join
            return None
        _walk_terms(val, grab)
        if not hit:
            return None
        try:
            return hit[0], int(str(hit[0][1][-1]).split("@")[-1])
        except ValueError:
            return None

    def _reached_only_through(self, frame, bi, jb):
        """every feasible path to block bi passes block jb although jb does not dominate bi in the CFG: bi lies behind a test of the discriminant of a value
        joined from variant constructions (`let r = helper..; match r { Ok(x) => .. }` after inlining), and every construction that satisfies the test is
        dominated by jb"""
        try:
            gs = self.guards(frame.res, bi, frame.body)
        except Exception:
            return False
        for cond, rel in gs:
            v = cond[1] if tag(cond) == "discr" else None
            if not (tag(v) == "vsum" and len(v) > 3 and v[3][0] == "from"):
                continue
            ok_orig = []
            for nm, o in v[3][2]:
                d = self._variant_discr(v[1], nm)
                if d is None:
                    ok_orig = None
                    break
                sat = (rel[0] == "eq" and d == rel[1]) or (rel[0] == "ne" and d not in tuple(rel[1])) or (rel[0] == "in" and d in tuple(rel[1]))
                if sat:
                    ok_orig.append(o)
            if ok_orig and all(o == jb or frame.body.dominates(jb, o) for o in ok_orig):
                return True
        return False

    def _resimplify(self, v):
        """payload(call, ..) terms made by substitution keep their form; nothing to fold today"""
        return v

    def _log(self, frame, bi, si, **kw):
        e = Entry(kw)
        e["body"] = frame.body
        e["bb"] = bi
        e["si"] = si
        e["chain"] = frame.chain
        e["frame"] = frame.id
        e["res"] = frame.res
        e["parent"] = frame.parent
        e["seq"] = len(self.log)
        self.log.append(e)
        return e

    # ------------------------------------------------------------------ calls
    def _call(self, body, frame, bi, t, res):
        callee = t.get("resolved") or t.get("callee")
        args = [self.operand(frame, a) for a in t["args"]]
        site = frame_site(frame.chain, body, bi)
        if callee is None:
            fv = self.operand(frame, t["fop"]) if t.get("fop") else None
            callee = "<indirect>"
            if tag(fv) == "fn":
                callee = fv[1].split("::<")[0]
            elif (tag(fv) == "phi" and len(fv) > 4 and fv[4] and all(o is not None for o in fv[4]) and len(fv[3]) >= 2 and all(tag(a) == "fn" for a in fv[3])
                  and len(set(fv[3])) == len(fv[3])):
                # a call through a function pointer that was chosen from a few functions (`let f = match kind { A => Self::a, B => Self::b }; f(self, n)`):
                # one call per function, each under the guards of the edge that chose it; the result is joined over the same edges
                try:
                    jb = int(str(fv[1][-1]).split("@")[-1])
                except ValueError:
                    jb = None
                if jb is not None:
                    argtys = []
                    for a in t["args"]:
                        pl = place_of(a)
                        argtys.append(body.locals[pl["l"]]["ty"] if pl is not None and not pl["proj"] else ("const" if "const" in a else None))
                    vals = []
                    for alt, origin in zip(fv[3], fv[4]):
                        self._argtys = argtys
                        cal = alt[1].split("::<")[0]
                        entry = self._log(frame, bi, None, kind="call", callee=cal, decl=None, args=args, substs=[], self_ty=None, line=t.get("line"),
                                          mac=t.get("mac"), site=site + ("via:%s" % cal.split("::")[-1],))
                        entry.setdefault("extra_edges", []).append((origin, jb))
                        v_ = self._model(frame, bi, t, cal, args, site + ("via:%s" % cal.split("::")[-1],), entry)
                        entry["result"] = v_
                        vals.append(v_)
                    val = ("phi", fv[1], ("fnptr", bi), tuple(vals), tuple(fv[4]))
                    self.assign(frame, t["dest"], val, bi, None, res)
                    return
        argtys = []
        for a in t["args"]:
            pl = place_of(a)
            argtys.append(body.locals[pl["l"]]["ty"] if pl is not None and not pl["proj"] else ("const" if "const" in a else None))
        self._argtys = argtys
        entry = self._log(frame, bi, None, kind="call", callee=callee, decl=t.get("callee"), args=args, substs=t.get("substs", []),
                          self_ty=t.get("self_ty"), line=t.get("line"), mac=t.get("mac"), site=site)
        val = self._model(frame, bi, t, callee, args, site, entry)
        entry["result"] = val
        self.assign(frame, t["dest"], val, bi, None, res)

    def _should_inline(self, callee_body, callee):
        if not self.inline or callee_body is None:
            return False
        if len(self.stack) >= self.max_depth:
            return False
        if any(f.body is callee_body for f in self.stack):
            return False
        # the blanket pattern "\{closure" keeps a rule in the frame of the function it reads (the constructor closures are analysed on their own); a
        # closure of one expression (`|| 0`, `|| err("..")`) is part of that frame's arithmetic and is evaluated in place
        tiny = callee_body.kind == "Closure" and len(callee_body.blocks) <= 3
        if any(r.search(callee) for r in self.no_inline if not (tiny and r.pattern == r"\{closure")):
            return False
        if self.inline_only is not None and not any(r.search(callee) for r in self.inline_only):
            return False
        if callee_body.n > 400:
            return False
        return True

    def _deref_val(self, v):
        """value behind a reference term (for closures / atomics passed by ref)"""
        if tag(v) == "ref":
            tgt = v[1]
            if tgt[0] == "loc":
                fr = self.frames[tgt[1]]
                return self._walk_value(fr.env.get(tgt[2], ("undef", tgt[1], tgt[2])), tgt[3])
            if tgt[0] == "tmp":
                return tgt[1]
            if tgt[0] == "heap" and len(tgt) == 3:
                return self._heap_read(tgt[1], tgt[2], False, None)     # `&self.len`: the current value of the field
        return v

    def _target(self, v):
        """canonical term of the memory location a reference/pointer designates"""
        if tag(v) == "ref":
            tgt = v[1]
            if tgt[0] == "heap":
                return ("heap", tgt[1], tgt[2])
            if tgt[0] == "loc":
                # a reference to a local that itself holds a reference (e.g. &&AtomicU64)
                inner = self._deref_val(v)
                if tag(inner) == "ref" or isinstance(inner, Lin) or tag(inner) in ("field", "call", "hload", "param", "phi"):
                    return ("local", tgt)
            return ("local", tgt)
        return ("heap", v, ())

    def _model(self, frame, bi, t, callee, args, site, entry):
        c = callee
        substs = t.get("substs", [])
        short = c.split("::")[-1]
        # ---- layout queries
        if c in ("std::mem::size_of", "core::mem::size_of"):
            return self._layout(substs[0], 0)
        if c in ("std::mem::align_of", "core::mem::align_of"):
            return self._layout(substs[0], 1)
        if c in ("std::mem::needs_drop", "core::mem::needs_drop"):
            return ("needs_drop", substs[0])
        if c == "align_offset":
            al = self._layout(substs[0], 1)
            if tag(args[0]) == "alignUp" and args[0][1] == al:
                return args[0]      # aligning an aligned offset is the identity
            if is_const(al) and al.c == 1:
                return args[0]
            return ("alignUp", al, args[0])
        if c == "decode_segment_node":
            w = args[0]
            if tag(w) == "pack":
                return ("tuple", (w[1], w[2]))
            return ("tuple", (("hi", w), ("lo", w)))
        if c == "encode_segment_node":
            a, b = args
            if tag(a) == "hi" and tag(b) == "lo" and a[1] == b[1]:
                return a[1]
            return ("pack", a, b)
        # ---- atomics
        m = re.search(r"atomic::Atomic(?:U32|U64|Usize|Bool|::<\w+>)?::fetch_update(::<.*>)?$", c)
        if m and len(args) == 4:
            # a.fetch_update(set, fetch, |cur| (cur == X).then_some(new)) is compare_exchange(X, new, set, fetch): a CAS loop that gives up as soon as the value is
            # not the expected one.  Any other closure is left opaque.
            tgt = self._target(args[0])
            fval = self._deref_val(args[3])
            cb = self.facts.body(fval[1]) if tag(fval) == "closure" else None
            if cb is not None and self._should_inline(cb, cb.path):
                cur = ("load", site + ("fetch_update",), tgt)
                cself = ("ref", ("tmp", fval)) if cb.locals[1]["ty"].startswith("&") else fval
                entry2 = self._log(frame, bi, None, kind="closure-call", closure=fval, on="current value", recv=cur)
                r = self._inline(frame, bi, cb, [cself, cur], entry2)
                if tag(r) == "filter" and tag(r[1]) == "variant" and r[1][2] == "Some" and tag(r[2]) == "cmp" and r[2][1] == "Eq" and cur in (r[2][2], r[2][3]):
                    exp = r[2][3] if r[2][2] == cur else r[2][2]
                    new_ = r[1][3][0]
                    uses_cur = []
                    _walk_terms(("tuple", (exp, new_)), lambda x: uses_cur.append(1) if x == cur else None)
                    if not uses_cur:
                        entry["atomic"] = "compare_exchange"
                        entry["target"] = tgt
                        entry["expected"], entry["new"] = exp, new_
                        entry["ordering"] = _ordering(args[1])
                        entry["fail_ordering"] = _ordering(args[2])
                        entry["via"] = "fetch_update"
                        self.heap.pop(("atomic", tgt), None)
                        return ("cas", site, tgt, exp, new_)
            self.heap.pop(("atomic", tgt), None)
            self._invalidate()
            return ("call", c, tuple(args), site)
        m = re.search(r"atomic::Atomic(?:U32|U64|Usize|Bool|::<\w+>)?::(load|store|compare_exchange|compare_exchange_weak|fetch_add|fetch_sub|swap|fetch_or|fetch_and|new|into_inner|get_mut)$", c)
        if m:
            op = m.group(1)
            if op == "new":
                return ("atomic_new", args[0])
            tgt = self._target(args[0])
            entry["atomic"] = op
            entry["target"] = tgt
            if op == "load":
                entry["ordering"] = _ordering(args[1])
                hv = self.heap.get(("atomic", tgt))
                v = hv if hv is not None else ("load", site, tgt)
                entry["value"] = v
                return v
            if op == "store":
                entry["ordering"] = _ordering(args[2])
                entry["new"] = args[1]
                self.heap[("atomic", tgt)] = args[1]
                self._log(frame, bi, None, kind="store", base=tgt, path=(), value=args[1], how="atomic-store", ordering=entry["ordering"])
                return ("tuple", ())
            if op in ("compare_exchange", "compare_exchange_weak"):
                entry["expected"], entry["new"] = args[1], args[2]
                entry["ordering"] = _ordering(args[3])
                entry["fail_ordering"] = _ordering(args[4])
                self.heap.pop(("atomic", tgt), None)
                return ("cas", site, tgt, args[1], args[2])
            if op in ("fetch_add", "fetch_sub", "swap", "fetch_or", "fetch_and"):
                entry["ordering"] = _ordering(args[2])
                entry["operand"] = args[1]
                self.heap.pop(("atomic", tgt), None)
                return ("rmw", op, site, tgt, args[1])
            return ("call", c, tuple(args), site)
        if re.search(r"sync::atomic::fence$", c):
            entry["atomic"] = "fence"
            entry["ordering"] = _ordering(args[0])
            return ("tuple", ())
        # ---- RefCounter trait (sealed): fetch_add / fetch_sub through the trait
        m = re.search(r"RefCounter(?:>)?::(fetch_add|fetch_sub|new)$", c)
        if m and not self.facts.body(c):
            op = m.group(1)
            if op == "new":
                return ("refcounter_new", args[0])
            entry["atomic"] = op
            entry["target"] = self._target(args[0])
            entry["ordering"] = _ordering(args[2])
            entry["operand"] = args[1]
            return ("rmw", op, site, entry["target"], args[1])
        # ---- UnsafeCell accessors: the cell's address is the content's address
        if re.search(r"(UnsafeCellExt(<.*>)?>?::as_inner_(ref|mut|ptr|ref_mut)|cell::UnsafeCell::<T>::(get|raw_get|get_mut))$", c):
            return args[0]
        # ---- header accessors are one abstract location per arena / memory
        if re.search(r"^(sync|unsync)::Arena::header(_mut)?$", c):
            entry["pure"] = True
            return ("call", c.replace("header_mut", "header"), tuple(args))
        if re.search(r"^memory::Memory::<R, PR, H>::header(_mut)?$", c):
            entry["pure"] = True
            return ("call", "memory::Memory::header", tuple(args))
        # ---- raw memory writers
        if re.search(r"(ptr::write_bytes|intrinsics::write_bytes|ptr::mut_ptr::<impl \*mut T>::write_bytes)$", c):
            entry["effect"] = "write_bytes"
            entry["dst"], entry["byte"], entry["count"] = args[0], args[1], args[2]
            self._invalidate(raw=True)
            return ("tuple", ())
        if re.search(r"(ptr::copy_nonoverlapping|ptr::copy|intrinsics::copy_nonoverlapping|intrinsics::copy)$", c):
            entry["effect"] = "copy"
            entry["src"], entry["dst"], entry["count"] = args[0], args[1], args[2]
            self._invalidate(raw=True)
            return ("tuple", ())
        if re.search(r"(ptr::write|ptr::mut_ptr::<impl \*mut T>::write|ptr::write_unaligned|ptr::write_volatile)$", c):
            entry["effect"] = "ptr_write"
            entry["dst"], entry["value"] = args[0], args[1]
            self._invalidate(raw=True)
            return ("tuple", ())
        if re.search(r"slice::<impl \[T\]>::copy_from_slice$", c):
            entry["effect"] = "copy_from_slice"
            entry["dst"], entry["src"] = args[0], args[1]
            self._invalidate(raw=True)
            return ("tuple", ())
        if re.search(r"ptr::drop_in_place$", c):
            entry["effect"] = "drop_in_place"
            self._invalidate()
            return ("tuple", ())
        # ---- pointer arithmetic / casts (identity-like)
        if re.search(r"ptr::(mut_ptr|const_ptr)::<impl \*(mut|const) T>::(add|byte_add)$", c):
            return add(args[0], args[1]) if _numeric(args[0]) and _numeric(args[1]) else ("op", "ptradd", args[0], args[1])
        if re.search(r"ptr::(mut_ptr|const_ptr)::<impl \*(mut|const) T>::(offset)$", c):
            return add(args[0], args[1]) if _numeric(args[0]) and _numeric(args[1]) else ("op", "ptradd", args[0], args[1])
        if re.search(r"ptr::(mut_ptr|const_ptr)::<impl \*(mut|const) T>::(cast|cast_mut|cast_const)$", c):
            return args[0]
        if re.search(r"ptr::(mut_ptr|const_ptr)::<impl \*(mut|const) T>::offset_from$", c):
            return sub(args[0], args[1]) if _numeric(args[0]) and _numeric(args[1]) else ("op", "ptrsub", args[0], args[1])
        if re.search(r"ptr::(mut_ptr|const_ptr)::<impl \*(mut|const) T>::is_null$", c):
            return ("is_null", args[0])
        if re.search(r"NonNull::<T>::(new_unchecked|as_ptr|cast)$", c):
            return args[0]
        if re.search(r"NonNull::<T>::(as_ref|as_mut)$", c):
            v = self._deref_val(args[0]) if tag(args[0]) == "ref" and args[0][1][0] == "loc" else args[0]
            return v
        if re.search(r"NonNull::<T>::dangling$", c):
            return ("dangling", substs[0] if substs else "?")
        if re.search(r"slice::from_raw_parts(_mut)?$", c):
            return ("slice", args[0], args[1])
        if re.search(r"MaybeUninit::<T>::(as_mut_ptr|as_ptr)$", c):
            return ("maybeuninit_ptr", args[0])
        if re.search(r"MaybeUninit::<T>::uninit$", c):
            return ("uninit", substs[0] if substs else "?")
        if re.search(r"slice::<impl \[T\]>::len$", c):
            x = self._deref_val(args[0]) if tag(args[0]) == "ref" else args[0]
            if tag(x) == "slice":
                return x[2]
            return ("len", x)
        # ---- integer helpers
        if re.search(r"(cmp::Ord::max|cmp::max|num::<impl \w+>::max)$", c) or c.endswith("::max") and len(args) == 2 and c.startswith(("core::", "std::")):
            return _minmax("max", args[0], args[1])
        if re.search(r"(cmp::Ord::min|cmp::min|num::<impl \w+>::min)$", c) or c.endswith("::min") and len(args) == 2 and c.startswith(("core::", "std::")):
            return _minmax("min", args[0], args[1])
        if re.search(r"(cmp::Ord::clamp|num::<impl \w+>::clamp|cmp::Ord for \w+>::clamp)$", c) and len(args) == 3 and all(_numeric(a) for a in args):
            # x.clamp(lo, hi) = min(hi, max(lo, x)) (it asserts lo <= hi: data_offset <= cap is an arena invariant, C16-L3)
            return _minmax("min", args[2], _minmax("max", args[1], args[0]))
        if re.search(r"ops::(range::)?RangeInclusive::<.*>::new$", c) and len(args) == 2:
            return ("struct", "std::ops::RangeInclusive", (("start", args[0]), ("end", args[1])))
        if re.search(r"ops::(range::)?Range(Inclusive)?::<.*>::contains(::<.*>)?$", c) and len(args) == 2:
            # (a..b).contains(&x) = a <= x && x < b ; (a..=b).contains(&x) = a <= x && x <= b
            rng, item = self._deref_val(args[0]), self._deref_val(args[1])
            if tag(rng) == "struct" and struct_get(rng, "start") is not None and struct_get(rng, "end") is not None and _numeric(item):
                incl = "RangeInclusive" in c or str(rng[1]).endswith("RangeInclusive")
                return ("booland", ("cmp", "Ge", item, struct_get(rng, "start")), ("cmp", "Le" if incl else "Lt", item, struct_get(rng, "end")))
        if re.search(r"num::<impl u\w+>::abs_diff$", c) and len(args) == 2:
            # a.abs_diff(b) = a - b when a >= b, b - a otherwise
            return ("ite", as_lin(sub(args[0], args[1])), sub(args[0], args[1]), sub(args[1], args[0]))
        if re.search(r"num::<impl u\w+>::saturating_sub$", c):
            return ("satsub", args[0], args[1])
        if re.search(r"num::<impl i\w+>::saturating_(add|sub)$", c):
            # signed saturation only differs from the exact result beyond +-2^63; every later comparison in this
            # crate is against 32-bit quantities, for which the exact and the saturated value compare alike
            entry["checked_arith"] = short
            return add(args[0], args[1]) if short.endswith("add") else sub(args[0], args[1])
        if re.search(r"num::<impl \w+>::(checked_add|checked_sub|checked_mul|saturating_add|wrapping_add|wrapping_sub|overflowing_add)$", c):
            entry["checked_arith"] = short
            return ("call", c, tuple(args))
        if re.search(r"num::<impl \w+>::(to|from)_(be|le|ne)_bytes$", c):
            return ("call", c, tuple(args))
        # ---- Option / Result plumbing
        if re.search(r"ops::Try>?::branch$", c) or c.endswith("::branch") and "Try" in (t.get("callee") or ""):
            x = args[0]
            if tag(x) == "variant":
                if x[2] in ("Ok", "Some"):
                    return ("variant", "std::ops::ControlFlow", "Continue", x[3])
                return ("variant", "std::ops::ControlFlow", "Break", (x,))
            if tag(x) == "vsum":
                d = dict(x[2])
                good = "Ok" if "Ok" in d or "Err" in d else "Some"
                outv = {}
                if good in d:
                    outv["Continue"] = d[good]
                bad = [n for n in d if n != good]
                if bad:
                    outv["Break"] = (("variant", x[1], bad[0], d[bad[0]]),)
                if len(outv) == 1:
                    (n, p), = outv.items()
                    return ("variant", "std::ops::ControlFlow", n, p)
                if len(x) > 3 and x[3][0] == "and":
                    gd_ = {"Some": 1, "Ok": 0}.get(good)
                    return ("vsum", "std::ops::ControlFlow", tuple(sorted(outv.items())), ("maps", x, (("Break", 1 - gd_), ("Continue", gd_))))
                if len(x) > 3 and x[3][0] == "maps":
                    # the operand's variant is decided by another value's (`opt.ok_or_else(..)?`): `?` keeps the correspondence
                    mp = dict(x[3][2])
                    return ("vsum", "std::ops::ControlFlow", tuple(sorted(outv.items())),
                            ("maps", x[3][1], tuple(sorted([("Continue", mp.get(good))] + [("Break", mp.get(b_)) for b_ in bad[:1]]))))
                if len(x) > 3 and x[3][0] == "from":
                    # the operand was joined from variant constructions: `?` keeps the correspondence (Ok / Some -> Continue, the other -> Break)
                    frm = tuple(sorted(set(("Continue" if nm == good else "Break", o) for nm, o in x[3][2]), key=repr))
                    return ("vsum", "std::ops::ControlFlow", tuple(sorted(outv.items())), ("from", x[3][1], frm))
                return ("vsum", "std::ops::ControlFlow", tuple(sorted(outv.items())))
            # opaque operand: split it by the kind of the Try type so that `?` on it still yields a proper None / Err value
            # (the correspondence with the operand's own variant is kept: a test of the ControlFlow value is a test of the operand)
            if "option::Option" in c:
                return ("vsum", "std::ops::ControlFlow", (("Break", (("variant", "std::option::Option", "None", ()),)), ("Continue", (self._payload(x, "Some", 0),))),
                        ("maps", x, (("Break", 0), ("Continue", 1))))
            if "result::Result" in c:
                return ("vsum", "std::ops::ControlFlow", (("Break", (("variant", "std::result::Result", "Err", (self._payload(x, "Err", 0),)),)), ("Continue", (self._payload(x, "Ok", 0),))),
                        ("maps", x, (("Break", 1), ("Continue", 0))))
            return ("call", "Try::branch", (x,))
        if re.search(r"FromResidual(<.*>)?>?::from_residual$", c) or c.endswith("::from_residual"):
            x = args[0]
            if tag(x) == "variant" and x[2] == "Err":
                return ("variant", "std::result::Result", "Err", x[3])
            if tag(x) == "variant" and x[2] == "None":
                return ("variant", "std::option::Option", "None", ())
            if tag(x) == "payloads" and len(x[1]) == 1 and tag(x[1][0]) == "variant" and x[1][0][2] in ("Err", "None"):
                return ("variant", x[1][0][1], x[1][0][2], x[1][0][3])
            return ("residual", x)
        if re.search(r"num::(nonzero::)?NonZero::<.*>::new$", c) and len(args) == 1:
            # NonZero::new(x): Some(x) iff x != 0; the wrapper is transparent (payload and .get() are x itself)
            return ("nonzero", args[0])
        if re.search(r"num::(nonzero::)?NonZero::<.*>::get$", c) and len(args) == 1:
            return args[0]
        if re.search(r"ops::(control_flow::)?ControlFlow::<.*>::(is_continue|is_break)$", c) and len(args) == 1:
            x = self._deref_val(args[0])
            want = "Continue" if short == "is_continue" else "Break"
            if tag(x) == "variant":
                return const(int(x[2] == want))
            return ("variant-is", x, want)
        if re.search(r"(Result|Option)::<.*>::(is_ok|is_err|is_some|is_none)$", c):
            x = self._deref_val(args[0])

            def is_of(x, depth=0):
                if tag(x) == "variant":
                    truth = {"is_ok": x[2] == "Ok", "is_err": x[2] == "Err", "is_some": x[2] == "Some", "is_none": x[2] == "None"}[short]
                    return const(int(truth))
                if tag(x) == "filter" and tag(x[1]) == "variant" and x[1][2] == "Some" and short in ("is_some", "is_none"):
                    # Some(v).filter(|_| c) is Some exactly when c holds
                    return x[2] if short == "is_some" else ("not", x[2])
                if tag(x) == "phi" and len(x) > 4 and x[4] and depth < 3 and all(tag(a) in ("variant", "filter", "phi") for a in x[3]):
                    # the answer along each incoming edge is the answer for what that edge brings
                    return ("phi", x[1], ("is", short, x[2]), tuple(is_of(a, depth + 1) for a in x[3])) + tuple(x[4:])
                return ("is", short, x)
            return is_of(x)
        if re.search(r"(Result|Option)::<.*>::(unwrap|expect|unwrap_unchecked)$", c):
            x = args[0]
            entry["panics_if"] = ("not-good", x)
            if tag(x) == "variant" and x[2] in ("Ok", "Some"):
                return x[3][0]
            if tag(x) == "vsum":
                d = dict(x[2])
                for g in ("Ok", "Some"):
                    if g in d:
                        return d[g][0]
            return self._payload(x, "Ok" if "Result" in c else "Some", 0)
        if re.search(r"(Result|Option)::<.*>::(unwrap_or_default)$", c):
            x = args[0]
            if tag(x) == "call" and x[1].endswith("checked_sub"):
                return ("satsub", x[2][0], x[2][1])
            return ("call", c, tuple(args))
        if re.search(r"(Result|Option)::<.*>::(unwrap_or)$", c) and len(args) == 2:
            x, dflt = args
            if tag(x) == "call" and x[1].endswith("checked_sub") and is_const(dflt) and as_lin(dflt).c == 0:
                return ("satsub", x[2][0], x[2][1])
            if tag(x) == "variant":
                return x[3][0] if x[2] in ("Ok", "Some") else dflt
            return ("call", c, tuple(args))
        if re.search(r"IntoIterator>?::into_iter$", c) and len(args) == 1 and tag(args[0]) == "struct" and args[0][1].endswith("ops::Range"):
            return args[0]      # a Range is its own iterator
        if re.search(r"iter::Iterator for std::ops::Range<\w+>>::next$|iter::Iterator for core::ops::Range<\w+>>::next$", c) and len(args) == 1:
            # for i in a..b: next() yields the current start while start < end and advances it by one
            r = args[0]
            if tag(r) == "ref" and r[1][0] == "loc":
                tgt = r[1]
                fr = self.frames[tgt[1]]
                cur = fr.env.get(tgt[2])
                rng = self._walk_value(cur, tgt[3]) if cur is not None else None
                if tag(rng) == "struct" and struct_get(rng, "start") is not None and struct_get(rng, "end") is not None:
                    st_, en_ = struct_get(rng, "start"), struct_get(rng, "end")
                    if _numeric(st_) and _numeric(en_):
                        fr.env[tgt[2]] = self._set_path(cur, tgt[3], struct_set(rng, "start", add(st_, const(1))))
                        entry["range_next"] = (st_, en_)
                        return ("rangenext", st_, en_)
            self._invalidate(args)
            return ("call", c, tuple(args))
        if re.search(r"ops::RangeInclusive::<Idx>::new$", c) and len(args) == 2:
            return mk_struct("std::ops::RangeInclusive", {"start": args[0], "end": args[1]})
        if re.search(r"ops::(RangeInclusive|Range)::<Idx>::contains$", c) and len(args) == 2:
            # (a..=b).contains(&x) = a <= x && x <= b ; (a..b).contains(&x) = a <= x && x < b
            rng = self._deref_val(args[0])
            x = self._deref_val(args[1])
            if tag(rng) == "struct" and struct_get(rng, "start") is not None and struct_get(rng, "end") is not None and _numeric(x):
                lo, hi = struct_get(rng, "start"), struct_get(rng, "end")
                upper = ("cmp", "Le", x, hi) if "Inclusive" in c else ("cmp", "Lt", x, hi)
                return ("booland", ("cmp", "Le", lo, x), upper)
        if re.search(r"slice::<impl \[T\]>::chunks$", c) and len(args) == 2:
            return ("chunks", args[0], args[1])
        if re.search(r"slice::<impl \[T\]>::chunks_exact$", c) and len(args) == 2:
            # like chunks, but a final partial chunk is left out
            return ("chunks", args[0], args[1], "exact")
        if re.search(r"slice::<impl \[T\]>::split_at$", c) and len(args) == 2:
            # s.split_at(k) = (&s[..k], &s[k..]): written as the two index expressions (panics unless k <= s.len(), like the indexing would)
            s_, k_ = args
            entry["panics_if"] = ("cmp", "Gt", k_, ("len", s_))
            return ("tuple", (("call", "<[T] as std::ops::Index<std::ops::Range<usize>>>::index", (s_, mk_struct("std::ops::Range", {"start": const(0), "end": k_}))),
                              ("call", "<[T] as std::ops::Index<std::ops::RangeFrom<usize>>>::index", (s_, mk_struct("std::ops::RangeFrom", {"start": k_})))))
        if re.search(r"IntoIterator>?::into_iter$", c) and len(args) == 1 and tag(args[0]) == "chunks":
            return args[0]
        if re.search(r"(iter::Iterator for (std|core)::slice::Chunks(Exact)?<.*>>::next|<(std|core)::slice::Chunks(Exact)?<.*> as (std|core)::iter::Iterator>::next)$", c) and len(args) == 1:
            r = self._deref_val(args[0]) if tag(args[0]) == "ref" else args[0]
            if tag(args[0]) == "ref" and args[0][1][0] == "loc":
                tgt = args[0][1]
                cur = self.frames[tgt[1]].env.get(tgt[2])
                r = self._walk_value(cur, tgt[3]) if cur is not None else None
            if tag(r) == "chunks":
                # the contract of slice::chunks: consecutive, gap-free sub-slices of r[1] in order, None once it is exhausted
                return ("chunksnext", r[1], r[2]) + tuple(r[3:])
            self._invalidate(args)
            return ("call", c, tuple(args))
        if re.search(r"iter::Iterator>?::by_ref$|Iterator::by_ref$", c) and len(args) == 1:
            return args[0]      # `it.by_ref()` is `&mut it`
        if re.search(r"slice::(iter::)?ChunksExact::<.*>::remainder$", c) and len(args) == 1 and tag(self._deref_val(args[0])) == "chunks":
            # what chunks_exact leaves out: the last len % n bytes of the slice, i.e. slice[len - len % n ..]
            ch = self._deref_val(args[0])
            ln = ("len", ch[1])
            return ("call", "<[T] as std::ops::Index<std::ops::RangeFrom<usize>>>::index", (ch[1], mk_struct("std::ops::RangeFrom", {"start": sub(ln, ("rem", ln, ch[2]))})))
        if re.search(r"iter::Iterator>?::for_each$|Iterator::for_each$", c) and len(args) == 2 and tag(args[0]) == "ref" and tag(self._deref_val(args[0])) == "chunks":
            args = [self._deref_val(args[0]), args[1]]      # `(&mut chunks).for_each(f)` after `by_ref()`
        if re.search(r"iter::Iterator>?::for_each$|Iterator::for_each$", c) and len(args) == 2 and tag(args[0]) == "chunks":
            # chunks.for_each(f): f is applied to the consecutive chunks in order (the contract of slice::chunks / chunks_exact); evaluated once on a
            # generic chunk, every entry of the closure is marked with the chunks term it ranges over
            fval = self._deref_val(args[1])
            cb = self.facts.body(fval[1]) if tag(fval) == "closure" else None
            if cb is not None and self._should_inline(cb, cb.path):
                ch = args[0]
                nxt = ("chunksnext", ch[1], ch[2]) + tuple(ch[3:])
                cself = ("ref", ("tmp", fval)) if cb.locals[1]["ty"].startswith("&") else fval
                entry2 = self._log(frame, bi, None, kind="closure-call", closure=fval, on="each-chunk", recv=ch)
                n0 = len(self.log)
                self._inline(frame, bi, cb, [cself, ("payload", nxt, "Some", 0)], entry2)
                for e_ in self.log[n0:]:
                    e_["foreach"] = nxt
                return ("tuple", ())
        if re.search(r"^(std|core)::mem::(replace|take)$", c) and len(args) in (1, 2) and tag(args[0]) == "ref":
            # mem::replace(&mut place, v): `let old = place; place = v; old` (mem::take: v = the type's default, left symbolic)
            tgt = args[0][1]
            new = args[1] if len(args) == 2 else ("call", c.replace("take", "default"), ())
            if tgt[0] == "heap" and len(tgt) == 3:
                old = self._heap_read(tgt[1], tuple(tgt[2]), False, None)
                self._heap_store(frame, bi, None, tgt[1], tuple(tgt[2]), new)
                return old
            if tgt[0] == "loc":
                fr = self.frames[tgt[1]]
                cur = fr.env.get(tgt[2], ("undef", tgt[1], tgt[2]))
                old = self._walk_value(cur, tgt[3])
                fr.env[tgt[2]] = new if not tgt[3] else self._set_path(cur, tuple(tgt[3]), new)
                return old
        if re.search(r"bool::<impl bool>::then_some$|<impl bool>::then_some$", c) and len(args) == 2:
            # c.then_some(v) = Some(v).filter(|_| c)
            return ("filter", ("variant", "std::option::Option", "Some", (args[1],)), args[0])
        if re.search(r"<impl bool>::then$", c) and len(args) == 2:
            fval = self._deref_val(args[1])
            cb = self.facts.body(fval[1]) if tag(fval) == "closure" else None
            if cb is not None and self._should_inline(cb, cb.path):
                entry2 = self._log(frame, bi, None, kind="closure-call", closure=fval, on="true", recv=args[0])
                pv = self._inline(frame, bi, cb, [fval], entry2, guard=args[0])
                return ("filter", ("variant", "std::option::Option", "Some", (pv,)), args[0])
        if re.search(r"Option::<.*>::filter$", c) and len(args) == 2:
            # opt.filter(p): Some(x) iff opt is Some(x) and p(&x); represented as ("filter", opt, p(&x)) - its discriminant carries both facts
            recv, fval = args[0], self._deref_val(args[1])
            if tag(recv) == "variant" and recv[2] == "None":
                return recv
            cb = self.facts.body(fval[1]) if tag(fval) == "closure" else None
            if cb is not None and self._should_inline(cb, cb.path):
                x = recv[3][0] if tag(recv) == "variant" and recv[2] == "Some" else self._payload(recv, "Some", 0)
                cself = ("ref", ("tmp", fval)) if cb.locals[1]["ty"].startswith("&") else fval
                entry2 = self._log(frame, bi, None, kind="closure-call", closure=fval, on="Some", recv=recv)
                pv = self._inline(frame, bi, cb, [cself, ("ref", ("tmp", x))], entry2, guard=("variant-is", recv, "Some"))
                return ("filter", recv, pv)
            self._invalidate()
            return ("call", c, tuple(args))
        m = re.search(r"(Result|Option)::<.*>::map_or_else$", c)
        if m and len(args) == 3:
            # opt.map_or_else(d, f) = opt.map(f).unwrap_or_else(d)
            mapped = self._combinator(frame, bi, m.group(1), "map", args[0], args[2], site + ("map_or_else",), entry)
            return self._combinator(frame, bi, m.group(1), "unwrap_or_else", mapped, args[1], site, entry)
        m = re.search(r"(Result|Option)::<.*>::(map|and_then|map_err|inspect|inspect_err|ok_or_else|unwrap_or_else|or_else)$", c)
        if m and len(args) == 2:
            return self._combinator(frame, bi, m.group(1), m.group(2), args[0], args[1], site, entry)
        m = re.search(r"(Result|Option)::<.*>::(is_some_and|is_ok_and|is_none_or)$", c)
        if m and len(args) == 2:
            # opt.is_some_and(f) = opt is Some && f(payload);  opt.is_none_or(f) = opt is None || f(payload)
            recv = args[0]
            mapped = self._combinator(frame, bi, m.group(1), "map", recv, args[1], site, entry)
            good = "Ok" if m.group(1) == "Result" else "Some"
            pv = None
            if tag(mapped) == "variant":
                pv = mapped[3][0] if mapped[2] == good else None
                if pv is None:
                    return const(0 if m.group(2) != "is_none_or" else 1)
                return pv
            if tag(mapped) == "vsum":
                pv = dict(mapped[2]).get(good, (None,))[0]
            if pv is not None:
                if tag(recv) == "call" and recv[1].endswith("checked_sub"):
                    some = ("cmp", "Le", recv[2][1], recv[2][0])
                else:
                    some = ("is", "is_ok" if m.group(1) == "Result" else "is_some", recv)
                if m.group(2) == "is_none_or":
                    return ("boolor", ("not", some), pv)
                return ("booland", some, pv)
            return ("call", c, tuple(args))
        if re.search(r"(cmp::Ord(<.*>)?>?::cmp|cmp::Ord for \w+>::cmp)$", c) and len(args) == 2:
            a_, b_ = self._deref_val(args[0]), self._deref_val(args[1])
            if _numeric(a_) and _numeric(b_):
                return ("ordcmp", a_, b_)
        m = re.search(r"(Result|Option)::<.*>::map_or$", c)
        if m and len(args) == 3:
            # opt.map_or(d, f) = f(payload) when Some / Ok, d otherwise
            mapped = self._combinator(frame, bi, m.group(1), "map", args[0], args[2], site, entry)
            good = "Ok" if m.group(1) == "Result" else "Some"
            gv = None
            if tag(mapped) == "variant":
                return mapped[3][0] if mapped[2] == good else args[1]
            if tag(mapped) == "vsum":
                gv = dict(mapped[2]).get(good, (None,))[0]
            recv = args[0]
            if gv is not None and tag(recv) == "call" and recv[1].endswith("checked_sub"):
                # Some <=> b <= a: an if-then-else term on that condition (order.eq_cases splits on it)
                return ("ite", as_lin(sub(recv[2][0], recv[2][1])), gv, args[1])
            if gv is not None:
                return self._join_val(gv, args[1], site, ("map_or",))
            return ("call", c, tuple(args))
        # ---- closures
        if re.search(r"ops::(Fn|FnMut|FnOnce)(<.*>)?>?::(call|call_mut|call_once)$", c):
            f = self._deref_val(args[0])
            if tag(f) == "closure":
                cb = self.facts.body(f[1])
                if self._should_inline(cb, f[1]):
                    targs = args[1][1] if tag(args[1]) == "tuple" else (args[1],)
                    a0 = ("ref", ("tmp", f)) if cb.locals[1]["ty"].startswith("&") else f
                    if tag(args[0]) == "ref" and cb.locals[1]["ty"].startswith("&"):
                        a0 = args[0]
                    return self._inline(frame, bi, cb, [a0] + list(targs), entry)
            if tag(f) == "fn":
                fpath = f[1].split("::<")[0]
                fb = self.facts.body(fpath)
                targs = args[1][1] if tag(args[1]) == "tuple" else (args[1],)
                if self._should_inline(fb, f[1]):
                    return self._inline(frame, bi, fb, list(targs), entry)
                if fb is not None and not fb.file.startswith("/") and fb.nargs == len(targs):
                    # a crate function handed over as a value (`give_back: impl FnOnce(..)` = `Self::optimistic_dealloc`) and called: the call of that function
                    entry["callee"] = fpath
                    entry["args"] = list(targs)
                    entry["via_fn_value"] = True
                    self._argtys = [None] * len(targs)
                    return self._model(frame, bi, t, fpath, list(targs), site, entry)
            self._invalidate()
            return ("call", c.split("<")[0] + short, tuple(args), site)
        # ---- conversions
        if re.search(r"convert::(Into|From)(<.*>)?>?::(into|from)$", c) and len(args) == 1 and (_numeric(args[0])):
            return args[0]
        m_tf = re.search(r"convert::num::<impl (?:std|core)::convert::TryFrom<(\w+)> for (\w+)>::try_from$|<(\w+) as (?:std|core)::convert::TryFrom<(\w+)>>::try_from$", c)
        if m_tf and len(args) == 1 and _numeric(args[0]):
            # checked integer conversion: Ok(x) exactly when x fits the target type
            to = m_tf.group(2) or m_tf.group(3)
            if INT_TY.match(to or ""):
                return ("tryfrom", args[0], to)
        if re.search(r"clone::Clone::clone$", c) and t.get("self_ty") and INT_TY.match(t["self_ty"] or ""):
            return self._deref_val(args[0])
        if re.search(r"ops::Deref(Mut)?::deref(_mut)?$", c) or re.search(r"convert::AsRef(<.*>)?::as_ref$", c) and False:
            pass
        # ---- crate-local: inline
        cb = self.facts.body(c)
        if cb is None and t.get("callee") and t.get("resolved") is None:
            cb = None
        if self._should_inline(cb, c):
            if cb.kind == "Closure" and len(args) == 2 and tag(args[1]) == "tuple" and cb.nargs == 1 + len(args[1][1]):
                # a local closure called directly (`let bound = |x| ..; bound(n)`): the call resolves to the closure body, whose arguments arrive as one tuple
                a0 = args[0]
                if cb.locals[1]["ty"].startswith("&") and tag(a0) != "ref":
                    a0 = ("ref", ("tmp", a0))
                elif not cb.locals[1]["ty"].startswith("&") and tag(a0) == "ref":
                    a0 = self._deref_val(a0)
                return self._inline(frame, bi, cb, [a0] + list(args[1][1]), entry)
            return self._inline(frame, bi, cb, args, entry)
        # ---- opaque
        cn = re.sub(r"^<+(?:[^<>]*? as )?", "", c)
        pure = bool(PURE_RE.search(c)) or bool(PURE_RE.search(cn)) or bool(PURE_CRATE_RE.search(c)) or c.startswith(("dbutils::leb128::decode", "either::"))
        entry["opaque"] = True
        entry["pure"] = pure
        if pure:
            vargs = tuple(("ref", ("tmp", self._deref_val(a))) if tag(a) == "ref" and a[1][0] == "loc" else a for a in args)
            return ("call", c, vargs)
        # an opaque callee can only write memory reachable from what it is handed (the crate has no mutable statics);
        # through a shared reference it can only write interior-mutable memory, i.e. never a plain field of a
        # parameter struct
        tys = getattr(self, "_argtys", [None] * len(args))
        scalar = lambda ty: ty == "const" or (ty is not None and (INT_TY.match(ty) or ty in ("bool", "char", "()", "f32", "f64")))
        ptrargs = [a for a, ty in zip(args, tys) if not scalar(ty)]
        mutargs = [a for a, ty in zip(args, tys) if not scalar(ty) and not (ty and ty.startswith("&") and not ty.startswith("&mut "))]
        self._invalidate(args=ptrargs, mutargs=mutargs)
        return ("call", c, tuple(args), site)

    def _combinator(self, frame, bi, kind, op, recv, f, site, entry):
        """Option/Result combinators taking a closure: evaluate the closure body on the matching variant."""
        dj = self._dispatch_join(frame, recv) if tag(recv) == "phi" else None
        if dj is not None and dj[0] == recv and op in ("map", "map_err", "and_then", "or_else", "inspect", "inspect_err"):
            # r = match kind { .. => f(), .. => g() }; r.map(h)  =  match kind { .. => f().map(h), .. => g().map(h) }: one evaluation per alternative, each
            # under the guards of the edge that chose it, joined over the same edges
            ph, jb = dj
            outs = []
            for alt, origin in zip(ph[3], ph[4]):
                n0 = len(self.log)
                e2 = self._log(frame, bi, None, kind="call", callee=entry.get("callee"), decl=None, args=[alt, f], substs=[], self_ty=None, line=entry.get("line"),
                               mac=entry.get("mac"), site=site + ("alt:%s" % origin,))
                outs.append(self._combinator(frame, bi, kind, op, alt, f, site + ("alt:%s" % origin,), e2))
                e2["result"] = outs[-1]
                for e_ in self.log[n0:]:
                    if e_.get("frame") == frame.id or e_ is e2 or True:
                        e_.setdefault("extra_edges", [])
                        if e_["chain"] == frame.chain:
                            e_["extra_edges"].append((origin, jb))
            return ("phi", ph[1], ("comb", bi), tuple(outs), tuple(ph[4]))
        good = "Ok" if kind == "Result" else "Some"
        bad = "Err" if kind == "Result" else "None"
        adt = "std::result::Result" if kind == "Result" else "std::option::Option"
        on_good = op in ("map", "and_then", "inspect")
        fval = self._deref_val(f)
        cb = None
        if tag(fval) == "closure":
            cb = self.facts.body(fval[1])
        elif tag(fval) == "fn":
            cb = self.facts.body(fval[1].split("::<")[0])
        entry["closure"] = fval
        # payload handed to the closure
        if tag(recv) == "variant":
            variants = {recv[2]: recv[3]}
        elif tag(recv) == "vsum":
            variants = dict(recv[2])
        else:
            variants = {good: (self._payload(recv, good, 0),), bad: ((self._payload(recv, bad, 0),) if kind == "Result" else ())}
        tgt = good if on_good else bad
        outv = {}
        and_of = None
        for vn, payload in variants.items():
            if vn != tgt:
                outv[vn] = payload
                continue
            ctor = re.search(r"(?:^|::)(Some|Ok|Err)(?:::<.*>)?$", fval[1]) if tag(fval) == "fn" and isinstance(fval[1], str) else None
            if ctor and len(payload) == 1:
                # `.map(Some)` / `.map_err(Err)`: a tuple-variant constructor used as a function
                nm = ctor.group(1)
                r = ("variant", "std::option::Option" if nm == "Some" else "std::result::Result", nm, (payload[0],))
            elif cb is None or not self._should_inline(cb, cb.path):
                self._invalidate()
                r = ("call", "closure", (fval,) + tuple(payload), site)
            else:
                cself = ("ref", ("tmp", fval)) if cb.locals[1]["ty"].startswith("&") else fval
                cargs = [cself] + list(payload)
                if op in ("inspect", "inspect_err"):
                    cargs = [cself] + [("ref", ("tmp", p)) for p in payload]
                entry2 = self._log(frame, bi, None, kind="closure-call", closure=fval, on=vn, recv=recv)
                r = self._inline(frame, bi, cb, cargs, entry2, guard=("variant-is", recv, vn))
            if op in ("map", "map_err"):
                outv[vn] = (r,)
            elif op in ("inspect", "inspect_err"):
                outv[vn] = payload
            elif op in ("and_then", "or_else"):
                # r is itself an Option/Result
                if tag(r) == "variant":
                    outv.setdefault(r[2], r[3]) if r[2] not in outv else outv.__setitem__(r[2], tuple(self._join_val(x, y, site, ("comb", i)) for i, (x, y) in enumerate(zip(outv[r[2]], r[3]))))
                elif tag(r) == "vsum":
                    for n, p in r[2]:
                        if n in outv and len(outv[n]) == len(p):
                            outv[n] = tuple(self._join_val(x, y, site, ("comb", n, i)) for i, (x, y) in enumerate(zip(outv[n], p)))
                        else:
                            outv[n] = p
                else:
                    outv[good] = (self._payload(r, good, 0),)
                    outv.setdefault(bad, (self._payload(r, bad, 0),) if kind == "Result" else ())
                    if op == "and_then":
                        and_of = (recv, r)
            else:
                outv[vn] = (r,)
        if op == "ok_or_else" and kind == "Option":
            # opt.ok_or_else(f): Some(v) -> Ok(v), None -> Err(f()); the result's variant is decided by the receiver's
            res_ = {}
            if "Some" in outv:
                res_["Ok"] = outv["Some"]
            if "None" in outv:
                res_["Err"] = outv["None"]
            if len(res_) == 1:
                (n, p), = res_.items()
                return ("variant", "std::result::Result", n, p)
            if tag(recv) not in ("variant", "vsum"):
                return ("vsum", "std::result::Result", tuple(sorted(res_.items())), ("maps", recv, (("Err", 0), ("Ok", 1))))
            return ("vsum", "std::result::Result", tuple(sorted(res_.items())))
        if op == "unwrap_or_else":
            # the value itself, not an Option / Result: the good payload, or what the closure made of the other variant
            dflt = outv.get(bad, (None,))[0] if bad in outv else None
            if tag(recv) == "call" and recv[1].endswith("checked_sub") and dflt is not None and is_const(dflt) and as_lin(dflt).c == 0:
                return ("satsub", recv[2][0], recv[2][1])
            if good not in outv:
                return dflt
            if bad not in outv or dflt is None:
                return outv[good][0]
            return self._join_val(outv[good][0], dflt, site, ("unwrap_or_else",))
        if len(outv) == 1:
            (n, p), = outv.items()
            return ("variant", adt, n, p)
        if op in ("map", "map_err", "inspect", "inspect_err") and tag(recv) == "vsum" and len(recv) > 3 and recv[3][0] == "from":
            # the receiver was joined from variant constructions and keeps its variant: so does the result
            return ("vsum", adt, tuple(sorted(outv.items())), recv[3])
        if op in ("map", "map_err", "inspect", "inspect_err") and tag(recv) not in ("variant", "vsum"):
            # the result has the receiver's variant, case by case: remember the receiver, so that `return r.map(f)` can be read as one return per variant
            return ("vsum", adt, tuple(sorted(outv.items())), ("by", recv))
        if and_of is not None and tag(recv) not in ("variant", "vsum"):
            # opt.and_then(f) with neither side known: the result is Some / Ok exactly when the receiver is and f's result is
            return ("vsum", adt, tuple(sorted(outv.items())), ("and", and_of[0], and_of[1], good))
        return ("vsum", adt, tuple(sorted(outv.items())))

    def _inline(self, frame, bi, cb, args, entry, guard=None):
        chain = frame.chain + ((frame.body.path, bi),)
        entry["inlined"] = True
        # pad / trim args to nargs
        args = list(args)[: cb.nargs] + [("undef-arg", i) for i in range(len(args), cb.nargs)]
        sub_res = self._eval_body(cb, args, chain, parent=entry)
        entry["sub"] = sub_res
        if guard is not None:
            for e in sub_res.log:
                e.setdefault("extra_guards", [])
                e["extra_guards"].append(guard)
        return sub_res.ret

    def _invalidate(self, args=None, raw=False, mutargs=None):
        """Forget heap knowledge after an effect we do not model.
        raw=True: a raw write into arena memory - Rust-owned structs reached through a plain parameter
        (handle / arena fields) cannot alias it.  args: an opaque external call can only reach what it is given."""
        self._vcount += 1
        keep = {}
        nv = ("v", self._vcount)
        pver = nv
        if raw or args is not None:
            reach = set()
            for a in (args or ()):
                self._reach(a, reach)
            mreach = reach
            if mutargs is not None:
                mreach = set()
                for a in mutargs:
                    self._reach(a, mreach)
            for k, v in self.heap.items():
                base = k[0]
                if tag(base) == "param" and base not in mreach:
                    keep[k] = v
            if not mreach:
                pver = self.ver[1]
            if args is not None and not reach and not raw:
                # nothing reachable: the call cannot have written anything we track
                self._vcount -= 1
                return
        self.heap = keep
        self.ver = (nv, pver)

    def _reach(self, v, acc, depth=0):
        if depth > 6:
            return
        if isinstance(v, Lin):
            for a in v.m:
                self._reach(a, acc, depth + 1)
        elif isinstance(v, tuple):
            if tag(v) == "param":
                acc.add(v)
            if tag(v) == "ref" and v[1][0] == "loc":
                self._reach(self._deref_val(v), acc, depth + 1)
            for x in v[1:]:
                if isinstance(x, (tuple, Lin)):
                    self._reach(x, acc, depth + 1)

    def _layout(self, ty, idx):
        lay = self.facts.layouts.get(ty)
        if lay is not None:
            return const(lay[idx])
        return ("size_of" if idx == 0 else "align_of", ty)

    # ------------------------------------------------------------------ guards
    def guards(self, res, bb, body=None, _depth=0):
        """Conditions known to hold on entry of block bb of res.body: list of (cond_term, ('eq',v)|('ne',[v..]))."""
        body = body or res.body
        cache = res.__dict__.setdefault("_gcache", {})
        ck = (id(body), bb)
        if ck in cache:
            return list(cache[ck])
        cache[ck] = []      # cycle guard: a block met again while its own guards are being computed contributes nothing (an under-approximation)
        out = []
        for x, cond in res.conds.items():
            t = body.blocks[x]["term"]
            cond = self._int_scrutinee(body, t, cond)
            tgt_vals = {}
            for v, b in t["arms"]:
                tgt_vals.setdefault(b, []).append(int(v))
            arms_all = [int(v) for v, _ in t["arms"]]
            for y in set([b for _, b in t["arms"]] + [t["otherwise"]]):
                if body.blocks[y]["cleanup"]:
                    continue
                if x == bb and False:
                    continue
                if not body.edge_dominates((x, y), bb):
                    continue
                is_other = (y == t["otherwise"])
                vals = tgt_vals.get(y, [])
                if is_other and vals:
                    continue  # ambiguous
                if is_other:
                    opl = place_of(t["op"]) if t.get("op") else None
                    op_ty = body.locals[opl["l"]]["ty"] if opl is not None and not opl["proj"] else None
                    if arms_all == [0] and (op_ty == "bool" or (op_ty is None and self._shape_is_bool(cond))):
                        out.append((cond, ("eq", 1)))
                    else:
                        out.append((cond, ("ne", tuple(arms_all))))
                elif len(vals) == 1:
                    out.append((cond, ("eq", vals[0])))
                else:
                    out.append((cond, _in_rel(body, t, vals, arms_all)))
        if _depth < 3:
            for cond, rel in list(out):
                out.extend(self._flag_phi_guards(res, body, cond, rel, _depth))
        # a join that is not a loop head: what holds on every incoming edge holds in the block (`match k { A => { if c { return } } B => { if c { return } } }; use`)
        preds = [p for p in body.pred[bb] if p in body.reachable]
        if len(preds) >= 2 and not any((p, bb) in set(body.back_edges()) for p in preds):
            sets = [set(self.guards_edge(res, p, bb, body, _depth)) for p in preds]
            have = set(out)
            for g in sorted(set.intersection(*sets) - have, key=repr):
                out.append(g)
        cache[ck] = list(out)
        return out

    def _flag_phi_guards(self, res, body, cond, rel, depth):
        """A branch on a flag that was joined from constants in this frame (`matches!(..)`, `let ok = a && b;`) carries the guards
        common to the incoming edges whose constant satisfies the branch."""
        if tag(cond) == "discr" and tag(cond[1]) == "vsum" and len(cond[1]) > 3 and cond[1][3][0] == "from":
            # the discriminant of a value joined from variant constructions: as a flag whose constants are the variants' discriminants
            v = cond[1]
            alts, origs = [], []
            for nm, o in v[3][2]:
                d = self._variant_discr(v[1], nm)
                if d is None:
                    return []
                alts.append(const(d))
                origs.append(o)
            cond = ("phi", v[3][1], "discr", tuple(alts), tuple(origs))
        if not (tag(cond) == "phi" and len(cond) > 4 and cond[4] and all(o is not None for o in cond[4])):
            return []
        mixed = not all(isinstance(a, Lin) and a.is_const() for a in cond[3])
        if mixed and not all((isinstance(a, Lin) and a.is_const()) or tag(a) in ("cmp", "not") for a in cond[3]):
            return []
        chain = res.frame.chain if res.frame is not None else ()
        site = cond[1]
        if tuple(site) != frame_site(chain, body, str(site[-1]).split("@")[-1]):
            return []
        try:
            jb = int(str(site[-1]).split("@")[-1])
        except ValueError:
            return []

        def sat(v):
            if rel[0] == "eq":
                return v == rel[1]
            if rel[0] == "ne":
                return v not in tuple(rel[1])
            if rel[0] == "in":
                return v in tuple(rel[1])
            return True
        if mixed:
            # `let flag = a && b;` (joined from a comparison and a constant): when only one incoming edge can give the tested value, the test says what that
            # edge says - and, if the edge brought a comparison, that comparison's outcome
            can = [(a, o) for a, o in zip(cond[3], cond[4]) if not (isinstance(a, Lin) and a.is_const()) or sat(a.c)]
            if len(can) != 1 or rel not in (("eq", 0), ("eq", 1), ("ne", (0,)), ("ne", (1,))):
                return []
            a, o = can[0]
            out = list(self.guards_edge(res, o, jb, body, depth + 1))
            if not (isinstance(a, Lin) and a.is_const()):
                out.append((a, ("eq", 1 if rel in (("eq", 1), ("ne", (0,))) else 0)))
            return out
        match = [o for a, o in zip(cond[3], cond[4]) if sat(a.c)]
        if not match or len(match) == len(cond[4]):
            return []
        sets = [set(self.guards_edge(res, o, jb, body, depth + 1)) for o in match]
        return list(set.intersection(*sets))

    def _variant_discr(self, adt, name):
        std = {"None": 0, "Some": 1, "Ok": 0, "Err": 1, "Continue": 0, "Break": 1, "Left": 0, "Right": 1}
        for a in self.facts.adts.values():
            if a["path"] == adt or a["path"].endswith("::" + adt.split("::")[-1]) and a["path"].split("::")[-1] == adt.split("::")[-1]:
                for v in a["variants"]:
                    if v["name"] == name and v["discr"] is not None:
                        return int(v["discr"])
        if adt.split("::")[-1].split("<")[0] in ("Option", "Result", "ControlFlow", "Either"):
            return std.get(name)
        return None

    def guards_edge(self, res, p, j, body=None, _depth=0):
        """guards that hold when control flows along the CFG edge p -> j"""
        body = body or res.body
        gs = list(self.guards(res, p, body, _depth))
        t = body.blocks[p]["term"]
        if t["k"] == "switch" and p in res.conds:
            cond = self._int_scrutinee(body, t, res.conds[p])
            vals = [int(v) for v, b in t["arms"] if b == j]
            arms_all = [int(v) for v, _ in t["arms"]]
            if j == t["otherwise"] and not vals:
                opl = place_of(t["op"]) if t.get("op") else None
                op_ty = body.locals[opl["l"]]["ty"] if opl is not None and not opl["proj"] else None
                gs.append((cond, ("eq", 1)) if arms_all == [0] and (op_ty == "bool" or (op_ty is None and self._shape_is_bool(cond))) else (cond, ("ne", tuple(arms_all))))
            elif len(vals) == 1 and j != t["otherwise"]:
                gs.append((cond, ("eq", vals[0])))
            elif len(vals) > 1 and j != t["otherwise"]:
                gs.append((cond, _in_rel(body, t, vals, arms_all)))      # `A | B => ..`: one arm for several values
        return gs

    def _int_scrutinee(self, body, t, cond):
        """the value a `switch` tests, as a linear term when the operand is an integer variable (`match n { 0 => .., MAX => .. }` on a loop variable): its
        arms then read as comparisons with the pattern constants, like `if n == 0`"""
        if isinstance(cond, Lin) or tag(cond) not in ("phi", "hi", "lo", "param", "field", "hload", "payload", "upvar"):
            return cond
        opl = place_of(t["op"]) if t.get("op") else None
        op_ty = body.locals[opl["l"]]["ty"] if opl is not None and not opl["proj"] else None
        if op_ty is not None and INT_TY.match(op_ty):
            return as_lin(cond)
        return cond

    def _shape_is_bool(self, c):
        """a condition term that can only be a boolean (used when the operand's type is not at hand: a field of a payload)"""
        if isinstance(c, Lin):
            return False
        return tag(c) in ("cmp", "not", "is", "booland", "boolor", "is_null", "needs_drop", "call", "field", "hload", "load", "phi", "upvar", "param")

    def _is_boolish(self, c):
        return tag(c) in ("cmp", "not", "is", "booland", "boolor", "is_null", "needs_drop") or True


def out_heap_in(out, body, v, pos):
    # heap at entry of v from forward preds
    ps = [p for p in body.pred[v] if p in out and pos.get(p, 1 << 30) < pos[v] and (p, v) in out[p][3]]
    if not ps:
        return None
    h, ver = out[ps[0]][1], out[ps[0]][2]
    for p in ps[1:]:
        if out[p][1] != h or out[p][2] != ver:
            return ({}, None)
    return (h, ver)


def _struct_diff(a, b, depth=0):
    """field paths at which two values of the same struct type differ; None when they are not comparable field by field"""
    if a == b:
        return []
    if depth < 4 and tag(a) == "struct" and tag(b) == "struct" and a[1] == b[1] and a[1] != "?partial":
        fa, fb = dict(a[2]), dict(b[2])
        if set(fa) == set(fb):
            out = []
            for k in sorted(fa, key=repr):
                sub_ = _struct_diff(fa[k], fb[k], depth + 1)
                if sub_ is None:
                    out.append((k,))
                else:
                    out.extend((k,) + p for p in sub_)
            return out
    return None if depth == 0 else [()]


def _join_ver(a, b, j, diff=()):
    av = a[0] if a[0] == b[0] and not any(tag(k[0]) != "param" for k in diff) else j
    pv = a[1] if a[1] == b[1] and not any(tag(k[0]) == "param" for k in diff) else j
    return (av, pv)


def _walk_terms(t, f, depth=0):
    if depth > 40:
        return
    if isinstance(t, Lin):
        for a in t.m:
            _walk_terms(a, f, depth + 1)
        return
    if isinstance(t, tuple):
        f(t)
        for x in t:
            if isinstance(x, (tuple, Lin)):
                _walk_terms(x, f, depth + 1)


def _subst(t, old, new, depth=0):
    if t == old:
        return new
    if depth > 40:
        return t
    if isinstance(t, Lin):
        out = const(t.c)
        for a, c in t.m.items():
            out = add(out, scale(_subst(a, old, new, depth + 1), c))
        return out
    if isinstance(t, tuple):
        return tuple(_subst(x, old, new, depth + 1) if isinstance(x, (tuple, Lin)) else x for x in t)
    return t


def frame_site(chain, body, bi):
    return tuple("%s@%s" % (p.split("::")[-1], b) for p, b in chain) + ("%s@%s" % (body.path.split("::")[-1], bi),)


def _numeric(v):
    if isinstance(v, Lin):
        return True
    t = tag(v)
    return t not in ("struct", "tuple", "variant", "vsum", "ref", "closure", "fn", "payloads", "array")


def _in_rel(body, t, vals, arms_all):
    """relation of an arm shared by several values: when the switch lists every value the scrutinee can have (its `otherwise` is unreachable) and the arm leaves
    out fewer values than it takes, the arm reads as `not the others` - `A | B => ..` of a three-variant enum is `_ => ..` next to `C => ..`"""
    ot = t.get("otherwise")
    if ot is not None and body.blocks[ot]["term"]["k"] == "unreachable":
        rest = tuple(v for v in arms_all if v not in vals)
        if rest and len(rest) <= len(vals):
            return ("ne", rest)
    return ("in", tuple(vals))


def _minmax(which, a, b):
    if is_const(a) and is_const(b):
        return const(max(a.c, b.c) if which == "max" else min(a.c, b.c))
    x, y = sorted([a, b], key=repr)
    return (which, x, y)


def _ordering(v):
    if tag(v) == "variant" and v[1].endswith("Ordering"):
        return v[2]
    if tag(v) == "constval":
        m = re.search(r"(Relaxed|Acquire|Release|AcqRel|SeqCst)", v[2])
        if m:
            return m.group(1)
    return ("dynamic", v)


# ----------------------------------------------------------------------------- guard interpretation helpers
def guard_true(g):
    """normalise a guard to (term, truth) for boolean-like conditions"""
    cond, rel = g
    if rel[0] == "eq":
        return cond, bool(rel[1])
    if rel[0] == "ne" and tuple(rel[1]) == (0,):
        return cond, True
    return cond, None


def implied_facts(guards):
    """Expand guards into a set of atomic facts:
       ('cmp',op,a,b) known true ; ('variant',x,name) ; ('is',pred,x,truth)"""
    facts = set()
    for cond, rel in guards:
        t = tag(cond)
        c, truth = guard_true((cond, rel))
        if t == "cmp" and truth is not None:
            op, a, b = cond[1], cond[2], cond[3]
            if not truth:
                op = {"Eq": "Ne", "Ne": "Eq", "Lt": "Ge", "Ge": "Lt", "Gt": "Le", "Le": "Gt"}[op]
            facts.add(("cmp", op, a, b))
            # the mirrored spelling is the same fact: `a > b` and `b < a` must not look different to a rule
            facts.add(("cmp", {"Eq": "Eq", "Ne": "Ne", "Lt": "Gt", "Gt": "Lt", "Le": "Ge", "Ge": "Le"}[op], b, a))
        elif t == "not" and truth is not None:
            facts |= implied_facts([(cond[1], ("eq", 0 if truth else 1))])
        elif t == "booland" and truth:
            facts |= implied_facts([(cond[1], ("eq", 1)), (cond[2], ("eq", 1))])
        elif t == "boolor" and truth is False:
            facts |= implied_facts([(cond[1], ("eq", 0)), (cond[2], ("eq", 0))])
        elif t == "discr":
            facts.add(("discr", cond[1], rel))
            x = cond[1]
            if tag(x) == "rangenext":
                if rel in (("eq", 1), ("ne", (0,))):
                    facts.add(("cmp", "Lt", x[1], x[2]))
                elif rel in (("eq", 0), ("ne", (1,))):
                    facts.add(("cmp", "Ge", x[1], x[2]))
            if tag(x) == "tryfrom":
                # T::try_from(v) is Ok exactly when min(T) <= v <= max(T)
                lo_, hi_ = {"u8": (0, 2**8 - 1), "u16": (0, 2**16 - 1), "u32": (0, 2**32 - 1), "u64": (0, 2**64 - 1), "usize": (0, 2**64 - 1),
                            "i8": (-2**7, 2**7 - 1), "i16": (-2**15, 2**15 - 1), "i32": (-2**31, 2**31 - 1), "i64": (-2**63, 2**63 - 1), "isize": (-2**63, 2**63 - 1)}.get(x[2], (None, None))
                if lo_ is not None and rel in (("eq", 0), ("ne", (1,))):
                    facts |= implied_facts([(("cmp", "Ge", x[1], const(lo_)), ("eq", 1)), (("cmp", "Le", x[1], const(hi_)), ("eq", 1))])
            if tag(x) == "ordcmp":
                facts.discard(("discr", cond[1], rel))      # the comparison fact below says the same in the spelling `a < b` has
                # a.cmp(&b): Less = -1 (255 as an unsigned switch value), Equal = 0, Greater = 1
                a_, b_ = x[1], x[2]
                LESS = (255, -1, 2**8 - 1, 2**64 - 1, 2**128 - 1)
                def one(v):
                    return "Lt" if v in LESS else ("Eq" if v == 0 else ("Gt" if v == 1 else None))
                op = None
                if rel[0] == "eq":
                    op = one(rel[1])
                elif rel[0] in ("ne", "in"):
                    # `Less | Equal => ..` is one arm reached for two values; the `_` arm is reached for the values not named
                    named = set(one(v) for v in rel[1])
                    left = ({"Lt", "Eq", "Gt"} - named) if rel[0] == "ne" else (named - {None})
                    op = {frozenset(["Lt"]): "Lt", frozenset(["Eq"]): "Eq", frozenset(["Gt"]): "Gt", frozenset(["Lt", "Eq"]): "Le", frozenset(["Gt", "Eq"]): "Ge",
                          frozenset(["Lt", "Gt"]): "Ne"}.get(frozenset(left))
                if op is not None:
                    facts |= implied_facts([(("cmp", op, a_, b_), ("eq", 1))])
            if tag(x) == "vsum" and len(x) > 3 and x[3][0] == "and":
                # a.and_then(f) is Some / Ok: a is, and what f returned is
                gname = x[3][3]
                gd = {"Some": 1, "Ok": 0}.get(gname)
                is_good = (rel == ("eq", gd)) or (rel == ("ne", (1 - gd,))) if gd is not None else False
                if is_good:
                    facts |= implied_facts([(("discr", x[3][1]), ("eq", gd)), (("discr", x[3][2]), ("eq", gd))])
            if tag(x) == "vsum" and len(x) > 3 and x[3][0] == "maps":
                # a value whose variant is decided by another value's: the test is one of that value
                names = {"std::result::Result": ("Ok", "Err"), "std::ops::ControlFlow": ("Continue", "Break"), "std::option::Option": ("None", "Some")}.get(x[1])
                mp = dict(x[3][2])
                which = None
                if names is not None:
                    if rel in (("eq", 0), ("ne", (1,))):
                        which = names[0]
                    elif rel in (("eq", 1), ("ne", (0,))):
                        which = names[1]
                if which is not None and mp.get(which) is not None:
                    facts.discard(("discr", cond[1], rel))
                    facts |= implied_facts([(("discr", x[3][1]), ("eq", mp[which]))])
            if tag(x) == "vsum" and len(x) == 3 and str(x[1]).endswith("ControlFlow"):
                # `opaque()?`: Try::branch of a value nothing is known about - Continue <=> Ok / Some, Break <=> Err / None: the test is one of the value itself
                d_ = dict(x[2])
                cont = d_.get("Continue")
                if cont and tag(cont[0]) == "payload" and cont[0][2] in ("Ok", "Some") and str(cont[0][3]) == "0":
                    recv, is_res = cont[0][1], cont[0][2] == "Ok"
                    went_on = rel in (("eq", 0), ("ne", (1,)))
                    broke = rel in (("eq", 1), ("ne", (0,)))
                    if went_on or broke:
                        facts.discard(("discr", cond[1], rel))
                        facts |= implied_facts([(("discr", recv), ("eq", (0 if is_res else 1) if went_on else (1 if is_res else 0)))])
            if tag(x) == "nonzero":
                facts.discard(("discr", cond[1], rel))      # the test says exactly `x != 0` / `x == 0`: one spelling for both ways of writing it
                if rel in (("eq", 1), ("ne", (0,))):
                    facts |= implied_facts([(("cmp", "Ne", x[1], const(0)), ("eq", 1))])
                elif rel in (("eq", 0), ("ne", (1,))):
                    facts |= implied_facts([(("cmp", "Eq", x[1], const(0)), ("eq", 1))])
            if tag(x) == "filter" and rel in (("eq", 1), ("ne", (0,))):
                # Some(..) came out of the filter: the receiver was Some and the predicate held
                facts |= implied_facts([(("discr", x[1]), ("eq", 1)), (x[2], ("eq", 1))])
            if tag(x) == "filter" and rel in (("eq", 0), ("ne", (1,))) and tag(x[1]) == "variant" and x[1][2] == "Some":
                # None came out of a filter over a literal Some(..): the predicate failed
                facts |= implied_facts([(x[2], ("eq", 0))])
            if tag(x) == "call" and x[1].endswith("checked_sub") and (rel[0] == "eq" or rel in (("ne", (0,)), ("ne", (1,)))):
                some = (rel == ("eq", 1)) or (rel == ("ne", (0,)))
                if some:
                    facts.add(("cmp", "Le", x[2][1], x[2][0]))
                    facts.add(("cmp", "Ge", x[2][0], x[2][1]))
                else:
                    facts.add(("cmp", "Lt", x[2][0], x[2][1]))
                    facts.add(("cmp", "Gt", x[2][1], x[2][0]))
        elif t == "is" and truth is not None:
            facts.add(("is", cond[1], cond[2], truth))
        elif t == "variant-is" and truth is not None:
            idx = {"Ok": 0, "Err": 1, "None": 0, "Some": 1, "Continue": 0, "Break": 1}.get(cond[2])
            if idx is not None:
                # the same fact a `match` on the value gives (these enums have two variants: not this one = the other one)
                facts |= implied_facts([(("discr", cond[1]), ("eq", idx if truth else 1 - idx))])
            else:
                facts.add(("bool", cond, truth))
        elif isinstance(cond, Lin) and rel[0] in ("eq", "ne") and not (t in ("cmp", "not", "is", "booland", "boolor")):
            # a `match` on an integer value (`Ok(0) => ..`): the tested value equals / differs from the pattern constants
            def pat(k_):
                # a half of a list word matched against one of the protocol's constants is compared with that constant, whether the source names it
                # (`== REMOVED_SEGMENT_NODE`) or uses it as a pattern (MIR keeps only the number)
                half = cond if tag(cond) in ("hi", "lo") else (list(cond.m)[0] if isinstance(cond, Lin) and cond.c == 0 and len(cond.m) == 1 and list(cond.m.values()) == [1] else None)
                if tag(half) == "lo" and k_ == 2**32 - 1:
                    return ("named", "SENTINEL_SEGMENT_NODE_OFFSET", k_)
                if tag(half) == "hi" and k_ == 2**32 - 1:
                    return ("named", "SENTINEL_SEGMENT_NODE_SIZE", k_)
                if tag(half) in ("hi", "lo") and k_ == 0:
                    return ("named", "REMOVED_SEGMENT_NODE", k_)      # (the marker is written into either half: a marked size, a removed head offset)
                return const(k_)
            if rel[0] == "eq":
                facts |= implied_facts([(("cmp", "Eq", cond, pat(rel[1])), ("eq", 1))])
            else:
                for k_ in rel[1]:
                    facts |= implied_facts([(("cmp", "Ne", cond, pat(k_)), ("eq", 1))])
        elif truth is not None:
            facts.add(("bool", cond, truth))
        else:
            facts.add(("rel", cond, rel))
    return facts
