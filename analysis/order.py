"""ORDR - a tiny order prover over AVN terms (no solver).

Facts are linear inequalities `lin >= 0` derived from dominating guards plus a few axioms
(unsigned atoms are >= 0, 0 <= alignUp(a,x) - x <= a - 1, hi/lo/size_of >= 0, min/max bounds).
`prove_ge0(t)` succeeds when t is a non-negative constant, or t minus a non-negative combination
(coefficients 1, depth <= 3) of facts is a non-negative constant.  Unknown => False, never True.
"""
from sym import Lin, as_lin, add, sub, neg, const, is_const, tag, norm, scale


def lin_atoms(l):
    return list(as_lin(l).m.keys())


def atoms_deep(t, acc=None):
    acc = acc if acc is not None else set()
    if isinstance(t, Lin):
        for a in t.m:
            atoms_deep(a, acc)
    elif isinstance(t, tuple):
        acc.add(t)
        for x in t[1:]:
            if isinstance(x, (tuple, Lin)):
                atoms_deep(x, acc)
    return acc


class Order:
    def __init__(self, facts=(), unsigned=lambda atom: True, extra_ge0=()):
        """facts: iterable of ('cmp',op,a,b) known true"""
        self.ge0 = []  # list of Lin known >= 0
        self.eq0 = []
        self.ne = []   # (a, b) known different
        self._busy = False
        self._ne_done = False
        self._sat_done = set()
        self.unsigned = unsigned
        for f in facts:
            self.add_fact(f)
        for e in extra_ge0:
            self.ge0.append(as_lin(e))

    def add_fact(self, f):
        if tag(f) != "cmp":
            return
        op, a, b = f[1], f[2], f[3]
        try:
            d = as_lin(sub(b, a))  # b - a
        except Exception:
            return
        if op == "Le":
            self.ge0.append(d)
        elif op == "Lt":
            self.ge0.append(as_lin(add(d, const(-1))))
        elif op == "Ge":
            self.ge0.append(as_lin(neg(d)))
        elif op == "Gt":
            self.ge0.append(as_lin(add(neg(d), const(-1))))
        elif op == "Eq":
            self.ge0.append(d)
            self.ge0.append(as_lin(neg(d)))
            self.eq0.append(d)
        elif op == "Ne":
            self.ne.append(d)

    def _derive(self, t):
        """case-free consequences: x != y with x <= y known gives x <= y - 1; satsub(x, y) >= 1 gives satsub(x, y) = x - y"""
        if self._busy:
            return
        self._busy = True
        try:
            if not self._ne_done:
                self._ne_done = True
                for d in self.ne:
                    if self.prove_ge0(d):
                        self.ge0.append(as_lin(add(d, const(-1))))
                    elif self.prove_ge0(neg(d)):
                        self.ge0.append(as_lin(add(neg(d), const(-1))))
            pool = set()
            for l in [t] + list(self.ge0):
                for a in as_lin(l).m:
                    if tag(a) == "satsub" and a not in self._sat_done:
                        pool.add(a)
            for a in pool:
                self._sat_done.add(a)
                if self.prove_ge0(add(a, const(-1))):
                    self.ge0.append(as_lin(sub(sub(a[1], a[2]), a)))   # x - y - satsub(x, y) >= 0
        finally:
            self._busy = False

    def _axioms(self, t):
        """axioms relevant to the atoms of t (and of the facts)"""
        ax = []
        seen = set()
        pool = set()
        for l in [t] + self.ge0:
            for a in as_lin(l).m:
                pool.add(a)
        for a in pool:
            if a in seen:
                continue
            seen.add(a)
            tg = tag(a)
            if tg == "alignUp":
                al, x = a[1], a[2]
                ax.append(as_lin(sub(a, x)))                       # alignUp - x >= 0
                if is_const(al):
                    ax.append(as_lin(add(sub(x, a), const(al.c - 1))))   # x + al-1 - alignUp >= 0
                else:
                    ax.append(as_lin(add(add(sub(x, a), al), const(-1))))
                ax.append(as_lin(a))
            elif tg in ("hi", "lo", "size_of", "satsub", "len", "named"):
                ax.append(as_lin(a))
                if tg == "satsub":
                    ax.append(as_lin(sub(a[1], a)))                # a - satsub(a,b) >= 0
                    ax.append(as_lin(add(sub(a, a[1]), a[2])))     # satsub(a,b) >= a - b
            elif tg == "align_of":
                ax.append(as_lin(add(a, const(-1))))
            elif tg in ("div", "rem") or (tg == "mul" and any(tag(u) == "div" for u in a[1:3])):
                # x = y * (x / y) + x % y,  0 <= x % y <= y - 1   (integer division of unsigned values; y != 0 is asserted by the division itself)
                dv = a if tg == "div" else (("div", a[1], a[2]) if tg == "rem" else [u for u in a[1:3] if tag(u) == "div"][0])
                x_, y_ = dv[1], dv[2]
                try:
                    from sym import mul as _mul
                    prod = _mul(y_, dv)
                    rm = ("rem", x_, y_)
                    ident = as_lin(sub(sub(x_, prod), rm))
                    ax.append(ident)
                    ax.append(as_lin(neg(ident)))
                    ax.append(as_lin(rm))
                    ax.append(as_lin(dv))
                    ax.append(as_lin(add(sub(y_, rm), const(-1))))
                except Exception:
                    pass
            elif tg == "call" and isinstance(a[1], str) and a[1].endswith("::saturating_add") and "<impl u" in a[1] and len(a[2]) == 2:
                p_, q_ = a[2]
                try:
                    ax.append(as_lin(sub(a, p_)))                  # min(p + q, MAX) >= p  (p <= MAX)
                    ax.append(as_lin(sub(a, q_)))
                    ax.append(as_lin(sub(add(p_, q_), a)))         # <= p + q
                    ax.append(as_lin(a))
                except Exception:
                    pass
            elif tg == "max":
                ax.append(as_lin(sub(a, a[1])))
                ax.append(as_lin(sub(a, a[2])))
            elif tg == "min":
                ax.append(as_lin(sub(a[1], a)))
                ax.append(as_lin(sub(a[2], a)))
            elif self.unsigned(a):
                ax.append(as_lin(a))
        return ax

    def prove_ge0(self, t, depth=3):
        t = as_lin(t)
        if t.is_const():
            return t.c >= 0
        self._derive(t)
        facts = self.ge0 + self._axioms(t)
        # only facts sharing an atom with the goal (or with a fact that does) matter; keep it small
        if self._search(t, facts, depth, set()):
            return True
        return fm_refutes(facts, t)

    def _search(self, t, facts, depth, seen):
        if t.is_const():
            return t.c >= 0
        if all(v > 0 for v in t.m.values()) and t.c >= 0 and all(self.unsigned(a) or tag(a) in ("hi", "lo", "size_of", "alignUp", "satsub") for a in t.m):
            return True
        if depth == 0:
            return False
        k = t.key()
        if (k, depth) in seen:
            return False
        seen.add((k, depth))
        tat = set(t.m)
        for f in facts:
            if not (set(f.m) & tat):
                continue
            # subtract f if it cancels a negative atom of t or reduces it
            useful = any(t.m.get(a, 0) * c > 0 for a, c in f.m.items())
            if not useful:
                continue
            if self._search(as_lin(sub(t, f)), facts, depth - 1, seen):
                return True
        return False

    def le(self, a, b):
        return self.prove_ge0(sub(b, a))

    def eq_cases(self, a, b, limit=64):
        """a == b by exhaustive case analysis on the min / max / satsub atoms of both terms (each replaced by the operand the case selects, with
        the case's ordering added as a fact); every case must be proved.  Sound: the cases cover all values."""
        from util import term_map
        todo = [(a, b, [])]
        n = 0
        while todo:
            x, y, extra = todo.pop()
            n += 1
            if n > limit:
                return False
            ats = [t for t in (atoms_deep(x) | atoms_deep(y)) if tag(t) in ("min", "max", "satsub", "ite")]
            inner = [t for t in ats if not any(tag(u) in ("min", "max", "satsub", "ite") for u in atoms_deep(t) if u != t)]
            if not inner:
                o = Order((), self.unsigned)
                o.ge0 = list(self.ge0) + [as_lin(e) for e in extra]
                o.ne = list(self.ne)
                d = as_lin(sub(x, y))
                if not (o.prove_ge0(d) and o.prove_ge0(neg(d))):
                    return False
                continue
            t = sorted(inner, key=repr)[0]
            p, q = t[1], t[2]
            if tag(t) == "ite":
                # ("ite", c, a, b): a when c >= 0, b when c <= -1
                cases = [(t[2], as_lin(t[1])), (t[3], add(neg(as_lin(t[1])), const(-1)))]
            elif tag(t) == "satsub":
                cases = [(sub(p, q), sub(p, q)), (const(0), sub(q, p))]          # (value, fact >= 0)
            elif tag(t) == "max":
                cases = [(p, sub(p, q)), (q, sub(q, p))]
            else:
                cases = [(p, sub(q, p)), (q, sub(p, q))]
            for val, fact in cases:
                rep = lambda u, t=t, val=val: val if u == t else None
                todo.append((term_map(x, rep), term_map(y, rep), extra + [fact]))
        return True

    def eq(self, a, b):
        d = as_lin(sub(a, b))
        if d.is_const():
            return d.c == 0
        return self.prove_ge0(d) and self.prove_ge0(neg(d))


def term_eq(a, b):
    if a == b:
        return True
    try:
        d = as_lin(sub(a, b))
        return d.is_const() and d.c == 0
    except Exception:
        return False


def fm_refutes(facts, goal, max_rows=400, force=False):
    """Fourier-Motzkin over the rationals: True iff {f >= 0 for f in facts} and goal <= -1 have no rational solution (hence no integer one),
    i.e. the facts imply goal >= 0.  Atoms are treated as independent variables (sound: fewer constraints can only make refutation harder)."""
    from fractions import Fraction
    goal = as_lin(goal)
    rel = set(goal.m)
    rows = []
    pool = [as_lin(f) for f in facts]
    changed = True
    used = set()
    if force:
        # plain infeasibility of the facts: every fact takes part, the goal row is dropped below
        for f in pool:
            rel |= set(f.m)
    while changed:
        changed = False
        for i, f in enumerate(pool):
            if i in used or f.is_const():
                continue
            if set(f.m) & rel:
                used.add(i)
                rel |= set(f.m)
                changed = True
    seen_rows = set()
    for i in sorted(used):
        f = pool[i]
        key = f.key()
        if key in seen_rows:
            continue        # both spellings of a comparison give the same row
        seen_rows.add(key)
        rows.append(({a: Fraction(c) for a, c in f.m.items()}, Fraction(f.c)))
    if force:
        max_rows = max(max_rows, 6000)
    ng = {a: Fraction(-c) for a, c in goal.m.items()}
    if not force:
        rows.append((ng, Fraction(-goal.c - 1)))
    for f in pool:
        if f.is_const() and f.c < 0:
            return True
    left = sorted(rel, key=repr)
    while left:
        # eliminate the variable producing the fewest new rows (ties by name: deterministic)
        def cost(v):
            p = sum(1 for r in rows if r[0].get(v, 0) > 0)
            n = sum(1 for r in rows if r[0].get(v, 0) < 0)
            return p * n - p - n
        v = min(left, key=lambda x: (cost(x), repr(x)))
        left.remove(v)
        pos = [r for r in rows if r[0].get(v, 0) > 0]
        negs = [r for r in rows if r[0].get(v, 0) < 0]
        rest = [r for r in rows if r[0].get(v, 0) == 0]
        if len(pos) * len(negs) + len(rest) > max_rows:
            return False
        new = []
        for pm, pc in pos:
            for nm, nc in negs:
                a, b = pm[v], -nm[v]
                m = {}
                for k in set(pm) | set(nm):
                    if k == v:
                        continue
                    val = pm.get(k, 0) * b + nm.get(k, 0) * a
                    if val != 0:
                        m[k] = val
                new.append((m, pc * b + nc * a))
        rows = rest + new
        # drop duplicates / trivially true rows
        seen = set()
        out = []
        for m, c in rows:
            if not m:
                if c < 0:
                    return True
                continue
            key = (tuple(sorted(((repr(k), v2) for k, v2 in m.items()))), c)
            if key in seen:
                continue
            seen.add(key)
            out.append((m, c))
        rows = out
    return any((not m) and c < 0 for m, c in rows)


def infeasible(cmp_facts, unsigned=lambda atom: True):
    """True iff the conjunction of comparison facts ('cmp', op, a, b) has no integer solution that the rational relaxation can exclude (Fourier-Motzkin;
    `!=` is split into `<` / `>`).  Unknown => False."""
    rest = sorted((f for f in cmp_facts if f[1] != "Ne"), key=repr)
    nes, seen = [], set()
    for f in sorted((f for f in cmp_facts if f[1] == "Ne"), key=repr):
        try:
            d = as_lin(sub(f[2], f[3]))
            k = min(repr(d.key()), repr(as_lin(neg(d)).key()))
        except Exception:
            k = repr(f)
        if k not in seen:           # `a != b` and `b != a` are one fact
            seen.add(k)
            nes.append(f)
    nes = nes[:8]

    def refuted(extra):
        o = Order(rest + extra, unsigned)
        ax = []
        for l in o.ge0:
            ax.extend(o._axioms(l))
        return fm_refutes(o.ge0 + ax, const(0), force=True)

    def go(extra, i):
        if refuted(extra):
            return True
        if i == len(nes):
            return False
        f = nes[i]
        return go(extra + [("cmp", "Lt", f[2], f[3])], i + 1) and go(extra + [("cmp", "Gt", f[2], f[3])], i + 1)
    return go([], 0)
