"""Checker self-test (thorough tier): apply each recorded mutant / seeded change for this property to a scratch copy of the
CURRENT /repo tree, re-export, re-run the property's quick check on the copy and compare the violation keys with the
expectation.  A patch that no longer applies is skipped and listed; a mutant that applies and is not reported (or a
behaviour-preserving refactor that is reported) means the checker lost sensitivity / precision: machinery broken (exit 2).
Mutant output is captured, never echoed as VIOLATION lines."""
import os, re, shutil, subprocess, tempfile, concurrent.futures
import export as exporter

VERIF = exporter.VERIF


def expectations(prop):
    out = []
    path = os.path.join(VERIF, "mutants", "expect.tsv")
    if not os.path.exists(path):
        return out
    for line in open(path):
        line = line.rstrip("\n")
        if not line or line.startswith("#"):
            continue
        parts = line.split("\t")
        if len(parts) == 3 and parts[1] == prop:
            out.append((parts[0], parts[2]))
    return out


def run_one(args):
    prop, patch, expect = args
    repo = os.environ.get("VERIF_REPO", exporter.REPO)
    tmp = tempfile.mkdtemp(prefix="rarena-selftest-", dir=os.environ.get("VERIF_TMP", "/var/tmp"))
    try:
        subprocess.run(["rsync", "-a", "--exclude", "target", "--exclude", ".git", repo + "/", tmp + "/"], check=True)
        p = subprocess.run(["patch", "-p1", "-s", "--no-backup-if-mismatch", "-i", os.path.join(VERIF, patch)], cwd=tmp, stdout=subprocess.PIPE, stderr=subprocess.STDOUT, text=True)
        if p.returncode != 0:
            return {"patch": patch, "expect": expect, "status": "skipped", "why": "patch does not apply to the current tree"}
        env = dict(os.environ, VERIF_REPO=tmp, VERIF_NO_EVIDENCE="1", VERIF_TIER="quick", VERIF_SELFTEST_CHILD="1",
                   VERIF_FACTS_CACHE=os.path.join(tmp, ".facts-cache"))
        for attempt in range(2):
            r = subprocess.run([os.path.join(VERIF, "check"), prop, "--tier", "quick"], cwd=VERIF, env=env, stdout=subprocess.PIPE, stderr=subprocess.STDOUT, text=True)
            if "fact export failed" not in r.stdout:
                break   # a transient build failure under load is retried once
        keys = re.findall(r"^  violation (.+)$", r.stdout, re.M)
        broken = re.findall(r"^BROKEN: (.*)", r.stdout, re.M)
        if expect == "SILENT":
            ok = not keys and not broken
        else:
            ok = any(re.search(expect, k) for k in keys)
        return {"patch": patch, "expect": expect, "status": "ok" if ok else "FAILED", "keys": keys[:6], "broken": broken[:2]}
    finally:
        shutil.rmtree(tmp, ignore_errors=True)


def run(prop):
    exps = expectations(prop)
    if not exps or os.environ.get("VERIF_SELFTEST_CHILD"):
        return []
    with concurrent.futures.ThreadPoolExecutor(max_workers=14) as ex:
        return list(ex.map(run_one, [(prop, p, e) for p, e in exps]))
