//! Observations around the zero sized type repairs (2e53dc8, 623e1b5, 1687a10).

use rarena_allocator::{sync, unsync, Allocator, Options};
use std::sync::atomic::{AtomicUsize, Ordering};

static MADE: AtomicUsize = AtomicUsize::new(0);
static DROPS: AtomicUsize = AtomicUsize::new(0);

struct Token(());
impl Token {
  fn new() -> Self {
    MADE.fetch_add(1, Ordering::SeqCst);
    Token(())
  }
}
impl Drop for Token {
  fn drop(&mut self) {
    DROPS.fetch_add(1, Ordering::SeqCst);
  }
}

/// A handle of a zero sized type does not have to be written before it is used (see the `must_use`
/// note of `RefMut`/`Owned`), so a handle that was never written does not own any value.
#[test]
fn never_written_zst_handle_drops_a_value_nobody_made() {
  fn run<A: Allocator>(a: A) {
    let made = MADE.load(Ordering::SeqCst);
    let drops = DROPS.load(Ordering::SeqCst);
    unsafe {
      let h = a.alloc::<Token>().unwrap();
      drop(h);
      let h = a.alloc_owned::<Token>().unwrap();
      drop(h);
    }
    assert_eq!(MADE.load(Ordering::SeqCst) - made, 0);
    assert_eq!(
      DROPS.load(Ordering::SeqCst) - drops,
      0,
      "Token::drop ran although no Token was ever constructed"
    );
  }
  run(Options::new().with_capacity(100).alloc::<sync::Arena>().unwrap());
  run(Options::new().with_capacity(100).alloc::<unsync::Arena>().unwrap());
}

#[repr(align(8))]
struct AlignedZst;

/// `put::<T>` documents that `align_to` is only required when `T` is not a ZST,
/// but it writes through (and returns a reference to) `buffer + len` cast to `*mut T`.
#[test]
fn put_of_an_aligned_zst_at_an_odd_position() {
  let a = Options::new().with_capacity(200).alloc::<unsync::Arena>().unwrap();
  let mut b = a.alloc_bytes(16).unwrap();
  b.put_u8(1).unwrap();
  let r = unsafe { b.put(AlignedZst).unwrap() };
  assert_eq!(r as *mut AlignedZst as usize % 8, 0, "misaligned reference");
}
