//! C14: "align_to yields a pointer aligned for T inside the buffer or an error".
//! When the aligned position is exactly the end of the buffer, `align_to::<T>()` (T not zero sized)
//! returns Ok with a pointer one past the buffer - the first byte of the *next* allocation.
use rarena_allocator::{sync, unsync, Allocator, Buffer, Options};

fn go<A: Allocator>() {
  let arena = Options::new().with_capacity(200).alloc::<A>().unwrap();
  let mut b = arena.alloc_aligned_bytes::<u64>(0).unwrap(); // capacity 8, 8-aligned
  let other = arena.alloc_bytes(8).unwrap(); // the neighbour
  b.put_u64_le(1).unwrap(); // the buffer is full now
  let (start, end) = (b.offset(), b.offset() + b.capacity());
  if let Ok(ptr) = b.align_to::<u64>() {
    let off = unsafe { arena.offset(ptr.as_ptr() as *const u8) };
    assert!(
      off >= start && off < end,
      "align_to::<u64>() on the full buffer [{start}, {end}) returned Ok(pointer to offset {off}); the live neighbour starts at {}",
      other.offset()
    );
  }
}

#[test]
fn align_to_full_buffer_unsync() {
  go::<unsync::Arena>();
}

#[test]
fn align_to_full_buffer_sync() {
  go::<sync::Arena>();
}
