//! Needs `--features memmap`.
#![cfg(feature = "memmap")]
use rarena_allocator::{sync, unsync, Allocator, ArenaPosition, Buffer, Options};

fn make_file<A: Allocator>(dir: &tempfile::TempDir, name: &str, cap: u32, fill: u32) -> std::path::PathBuf {
  let p = dir.path().join(name);
  let a = unsafe {
    Options::new()
      .with_capacity(cap)
      .with_create_new(true)
      .with_read(true)
      .with_write(true)
      .map_mut::<A, _>(&p)
      .unwrap()
  };
  let mut b = a.alloc_bytes(fill).unwrap();
  for i in 0..fill {
    b.put_u8(i as u8 | 1).unwrap();
  }
  unsafe { b.detach() };
  drop(b);
  a.flush().unwrap();
  drop(a);
  p
}

/// C17: rewind on a read-only arena.  `rewind` has no read-only guard (unlike `clear`,
/// `set_minimum_segment_size`, `increase_discarded`, the allocation calls ...): it stores
/// into the header that lives in a PROT_READ mapping -> SIGSEGV.
/// The documented contract of `rewind` (no access to reclaimed memory, single thread) is met.
fn rewind_ro<A: Allocator>(copy: bool) {
  let dir = tempfile::tempdir().unwrap();
  let p = make_file::<A>(&dir, "ro", 4096, 100);
  let ro = unsafe {
    if copy {
      Options::new().with_read(true).map_copy_read_only::<A, _>(&p).unwrap()
    } else {
      Options::new().with_read(true).map::<A, _>(&p).unwrap()
    }
  };
  assert!(ro.read_only());
  let before = ro.allocated();
  // a no-op rewind: Current(0)
  unsafe { ro.rewind(ArenaPosition::Current(0)) };
  assert_eq!(ro.allocated(), before);
}

#[test]
fn rewind_read_only_sync_map() {
  rewind_ro::<sync::Arena>(false);
}
#[test]
fn rewind_read_only_unsync_map() {
  rewind_ro::<unsync::Arena>(false);
}
#[test]
fn rewind_read_only_sync_map_copy_read_only() {
  rewind_ro::<sync::Arena>(true);
}

/// C15: reopen a file with a capacity smaller than what is already allocated in it.
fn reopen_smaller<A: Allocator>() {
  let dir = tempfile::tempdir().unwrap();
  let p = make_file::<A>(&dir, "small", 3 * 4096, 2 * 4096 + 100);
  let ro = unsafe {
    Options::new()
      .with_capacity(4096)
      .with_read(true)
      .map::<A, _>(&p)
      .unwrap()
  };
  assert_eq!(ro.memory().len(), ro.capacity());
  assert!(
    ro.allocated() <= ro.capacity(),
    "allocated() = {} > capacity() = {}: allocated_memory()/data()/get_*() cover {} bytes beyond the mapping",
    ro.allocated(),
    ro.capacity(),
    ro.allocated() - ro.capacity()
  );
}

#[test]
fn reopen_smaller_sync() {
  reopen_smaller::<sync::Arena>();
}
#[test]
fn reopen_smaller_unsync() {
  reopen_smaller::<unsync::Arena>();
}

/// C14 (`align_to` yields an aligned pointer) / alignment in general: `Options::with_offset(n)`
/// with `n` not a multiple of 8.  memmap2 maps from the enclosing page and adds `n % page`
/// to the pointer, so the arena base itself is misaligned.
fn odd_offset<A: Allocator>() {
  let dir = tempfile::tempdir().unwrap();
  let p = dir.path().join("off");
  let a = unsafe {
    Options::new()
      .with_capacity(4096)
      .with_offset(30)
      .with_create_new(true)
      .with_read(true)
      .with_write(true)
      .map_mut::<A, _>(&p)
      .unwrap()
  };
  let mut b = a.alloc_bytes(64).unwrap();
  let ptr = b.align_to::<u64>().unwrap();
  assert_eq!(
    ptr.as_ptr() as usize % 8,
    0,
    "align_to::<u64>() returned {:p}",
    ptr.as_ptr()
  );
}

#[test]
fn odd_offset_sync() {
  odd_offset::<sync::Arena>();
}
#[test]
fn odd_offset_unsync() {
  odd_offset::<unsync::Arena>();
}
