//! C04 / C14: `align_offset::<T>(offset)` computes `offset + align - 1` in `u32` without an
//! overflow check.  On an arena with the maximum capacity (`u32::MAX`) whose cursor is within
//! `align_of::<T>() - 1` bytes of the end the sum overflows:
//!   * debug build: the allocation call panics (`attempt to add with overflow`),
//!   * release build: the sum wraps, the "aligned" offset becomes 0, the request is considered
//!     to fit, the cursor jumps *backwards* to `size_of::<T>()` and a handle at offset 0 (the
//!     reserved / header area) is returned after zeroing it.
//!
//! Needs ~4 GiB of RAM per test (run with `--test-threads=1`).
use rarena_allocator::{sync, unsync, Allocator, Buffer, Error, Freelist, Options};
use std::panic::{catch_unwind, AssertUnwindSafe};

fn nearly_full<A: Allocator>(left: u32) -> A {
  let arena = Options::new()
    .with_capacity(u32::MAX)
    .with_freelist(Freelist::None)
    .alloc::<A>()
    .unwrap();
  let rem = arena.remaining() as u32;
  let mut fill = arena.alloc_bytes(rem - left).unwrap();
  unsafe { fill.detach() };
  drop(fill);
  assert_eq!(arena.remaining(), left as usize);
  arena
}

fn state<A: Allocator>(a: &A) -> (usize, u32, usize) {
  (a.allocated(), a.discarded(), a.remaining())
}

fn typed<A: Allocator>() {
  let arena = nearly_full::<A>(3);
  let before = state(&arena);
  let head: Vec<u8> = arena.memory()[..16].to_vec();
  let res = catch_unwind(AssertUnwindSafe(|| unsafe {
    arena.alloc::<u64>().map(|mut r| {
      r.detach();
      (r.offset(), r.capacity())
    })
  }));
  let res = res.expect("alloc::<u64>() on a nearly full arena panicked");
  match res {
    Err(e) => {
      assert!(matches!(e, Error::InsufficientSpace { .. }));
      assert_eq!(before, state(&arena));
    }
    Ok((off, cap)) => {
      panic!(
        "alloc::<u64>() succeeded with 3 bytes remaining: handle [{off}, {}), state (allocated, discarded, remaining) {:?} -> {:?}, first 16 bytes changed: {}",
        off + cap,
        before,
        state(&arena),
        head != arena.memory()[..16]
      );
    }
  }
}

fn aligned_bytes<A: Allocator>() {
  let arena = nearly_full::<A>(3);
  let before = state(&arena);
  let res = catch_unwind(AssertUnwindSafe(|| {
    arena.alloc_aligned_bytes::<u64>(0).map(|mut r| {
      unsafe { r.detach() };
      (r.offset(), r.capacity())
    })
  }));
  let res = res.expect("alloc_aligned_bytes::<u64>(0) on a nearly full arena panicked");
  match res {
    Err(e) => {
      assert!(matches!(e, Error::InsufficientSpace { .. }));
      assert_eq!(before, state(&arena));
    }
    Ok((off, cap)) => {
      panic!(
        "alloc_aligned_bytes::<u64>(0) succeeded with 3 bytes remaining: handle [{off}, {}), state {:?} -> {:?}",
        off + cap,
        before,
        state(&arena)
      );
    }
  }
}

fn buffer_align_to<A: Allocator>() {
  // C14: align_to on the last buffer of a maximum-size arena
  let arena = nearly_full::<A>(3);
  let mut b = arena.alloc_bytes(3).unwrap();
  let (off, cap) = (b.offset(), b.capacity());
  let res = catch_unwind(AssertUnwindSafe(|| b.align_to::<u64>().map(|p| p.as_ptr() as usize)));
  let res = res.expect("BytesRefMut::align_to::<u64>() panicked");
  match res {
    Err(_) => assert_eq!(b.len(), 0),
    Ok(p) => {
      let base = arena.raw_ptr() as usize;
      assert!(
        p >= base + off && p <= base + off + cap && b.len() <= cap,
        "align_to returned a pointer at arena offset {} for the buffer [{off}, {}), len is now {} (capacity {cap})",
        p.wrapping_sub(base),
        off + cap,
        b.len()
      );
    }
  }
}

#[test]
fn typed_sync() {
  typed::<sync::Arena>();
}
#[test]
fn typed_unsync() {
  typed::<unsync::Arena>();
}
#[test]
fn aligned_bytes_sync() {
  aligned_bytes::<sync::Arena>();
}
#[test]
fn aligned_bytes_unsync() {
  aligned_bytes::<unsync::Arena>();
}
#[test]
fn buffer_align_to_sync() {
  buffer_align_to::<sync::Arena>();
}
#[test]
fn buffer_align_to_unsync() {
  buffer_align_to::<unsync::Arena>();
}
