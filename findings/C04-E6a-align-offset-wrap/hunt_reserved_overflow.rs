//! Outside C04/C14/C15/C17 (arena construction), recorded as a by-catch:
//! `header_meta` / `Options::data_offset_unify` compute `align_offset::<Header>(reserved as u32)`
//! = `reserved + 7` in u32.
use rarena_allocator::{sync, unsync, Allocator, Options};

fn run<A: Allocator>() {
  let opts = Options::new().with_capacity(100).with_unify(true).with_reserved(u32::MAX - 3);
  match opts.alloc::<A>() {
    Err(_) => {}
    Ok(a) => panic!(
      "a 100-byte arena with {} reserved bytes was created: data_offset {}, reserved_slice().len() {}",
      u32::MAX - 3,
      a.data_offset(),
      a.reserved_slice().len()
    ),
  }
}
#[test]
fn sync_reserved() {
  run::<sync::Arena>();
}
#[test]
fn unsync_reserved() {
  run::<unsync::Arena>();
}
