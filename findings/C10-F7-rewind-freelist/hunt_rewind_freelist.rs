//! C04 (+C17 "rewind changes nothing else"): `rewind` moves the cursor below segments that are
//! still linked in the free list.  The reclaimed bytes are handed out again by the bump
//! allocator, the user legitimately writes into them, and the next slow-path allocation
//! interprets the user's bytes as a segment node.
//!
//! Every `unsafe` call below respects its documented contract:
//!  * `rewind`: no handle into the reclaimed range is alive / accessed afterwards, single thread.
use rarena_allocator::{sync, unsync, Allocator, ArenaPosition, Buffer, Freelist, Options};

fn run<A: Allocator>(fl: Freelist) {
  let arena = Options::new()
    .with_capacity(256)
    .with_freelist(fl)
    .with_unify(true) // data_offset is 8-aligned, keeps the demo deterministic
    .alloc::<A>()
    .unwrap();
  let data_offset = arena.data_offset();

  // Build a free list with one segment: `a` is not at the tail when it is dropped.
  let a = arena.alloc_bytes(64).unwrap();
  let a_off = a.offset();
  let b = arena.alloc_bytes(8).unwrap();
  drop(a); // -> free list (segment node written at align8(a_off))
  drop(b); // -> tail, cursor moves back
  assert!(arena.discarded() > 0, "a segment was created");

  // Everything is released, start over.
  unsafe { arena.rewind(ArenaPosition::Start(0)) };
  assert_eq!(arena.allocated(), data_offset);

  // The whole data area is handed out again as one live buffer ...
  let rem = arena.remaining() as u32;
  let mut c = arena.alloc_bytes(rem).unwrap();
  assert_eq!(arena.remaining(), 0);
  // ... and the user stores ordinary data in it: little-endian u32 pairs (0xFFFF_FFFF, 40).
  while c.put_u32_le(u32::MAX).is_ok() && c.put_u32_le(40).is_ok() {}
  let c_range = c.offset()..c.offset() + c.capacity();
  let image: Vec<u8> = arena.memory()[c_range.clone()].to_vec();
  let _ = a_off;

  // The arena is full: this request must fail cleanly (or, at the very least, must not
  // hand out bytes that belong to the live buffer `c`).
  match arena.alloc_bytes(16) {
    Err(_) => {}
    Ok(d) => {
      let d_range = d.offset()..d.offset() + d.capacity();
      let overlap = d_range.start < c_range.end && c_range.start < d_range.end;
      let now: Vec<u8> = arena.memory()[c_range.clone()].to_vec();
      // do not run the destructor of the bogus handle
      core::mem::forget(d);
      assert!(
        !overlap,
        "arena with remaining()==0 returned [{}, {}) which lies inside the live buffer [{}, {}); live buffer modified: {}",
        d_range.start,
        d_range.end,
        c_range.start,
        c_range.end,
        now != image
      );
    }
  }
  core::mem::forget(c);
}

#[test]
fn sync_optimistic() {
  run::<sync::Arena>(Freelist::Optimistic);
}
#[test]
fn sync_pessimistic() {
  run::<sync::Arena>(Freelist::Pessimistic);
}
#[test]
fn unsync_optimistic() {
  run::<unsync::Arena>(Freelist::Optimistic);
}
#[test]
fn unsync_pessimistic() {
  run::<unsync::Arena>(Freelist::Pessimistic);
}

/// Same state, but the user does not even write anything: the bump allocator zeroes the bytes it
/// hands out, so the stale head node reads as `size == 0`, which the lock-free list interprets as
/// "node is being removed by another thread, retry" -- the sync flavour spins forever.
#[test]
fn sync_spins_forever_on_zeroed_stale_node() {
  use std::sync::mpsc;
  let (tx, rx) = mpsc::channel();
  std::thread::spawn(move || {
    let arena = Options::new()
      .with_capacity(256)
      .with_unify(true)
      .alloc::<sync::Arena>()
      .unwrap();
    let a = arena.alloc_bytes(64).unwrap();
    let b = arena.alloc_bytes(8).unwrap();
    drop(a);
    drop(b);
    unsafe { arena.rewind(ArenaPosition::Start(0)) };
    let mut c = arena.alloc_bytes(arena.remaining() as u32).unwrap();
    unsafe { c.detach() };
    let r = arena.alloc_bytes(16).map(|mut d| unsafe { d.detach() });
    tx.send(format!("{r:?}")).unwrap();
  });
  let r = rx.recv_timeout(std::time::Duration::from_secs(10));
  assert!(r.is_ok(), "alloc_bytes(16) on a full arena did not return within 10 s");
}
