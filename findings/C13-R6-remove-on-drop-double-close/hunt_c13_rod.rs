use rarena_allocator::{sync, unsync, Allocator, Options};

fn run<A: Allocator>() {
  let dir = tempfile::tempdir().unwrap();
  let p = dir.path().join("arena");
  let a: A = unsafe {
    Options::new().with_create_new(true).with_read(true).with_write(true).with_capacity(4096)
      .map_mut::<A, _>(&p).unwrap()
  };
  a.remove_on_drop(true);
  assert_eq!(a.refs(), 1);
  drop(a); // last reference: memory + file released here, exactly once
  assert!(!p.exists());
}

#[test]
fn remove_on_drop_releases_file_once_sync() { run::<sync::Arena>(); }
#[test]
fn remove_on_drop_releases_file_once_unsync() { run::<unsync::Arena>(); }

#[test]
fn remove_on_drop_releases_file_once_read_only_map() {
  let dir = tempfile::tempdir().unwrap();
  let p = dir.path().join("arena");
  let a: sync::Arena = unsafe {
    Options::new().with_create_new(true).with_read(true).with_write(true).with_capacity(4096)
      .map_mut::<sync::Arena, _>(&p).unwrap()
  };
  drop(a); // no remove_on_drop: fine
  assert!(p.exists());
  let r: sync::Arena = unsafe { Options::new().with_read(true).map::<sync::Arena, _>(&p).unwrap() };
  r.remove_on_drop(true);
  drop(r);
  assert!(!p.exists());
}
