#![cfg(feature = "memmap")]
// Demonstrates finding C06-K6 against the real code: the file state that a crash between the mark CAS and the
// unlink CAS of a free-list pop leaves behind (head node marked REMOVED, still linked from the sentinel) makes the
// next slow-path allocation on the reopened arena spin for ever.
use rarena_allocator::{sync::Arena, Allocator, Freelist, Options, Buffer};
use std::sync::mpsc;
use std::time::Duration;

#[test]
fn crash_inside_mark_window_hangs_reopened_arena() {
  let dir = tempfile::tempdir().unwrap();
  let p = dir.path().join("k6.arena");
  {
    let a = unsafe {
      Options::new().with_create_new(true).with_read(true).with_write(true).with_capacity(256)
        .with_freelist(Freelist::Optimistic).map_mut::<Arena, _>(&p).unwrap()
    };
    let x = a.alloc_bytes(64).unwrap();
    let mut y = a.alloc_bytes(16).unwrap();
    unsafe { y.detach() };
    let rem = a.remaining() as u32;
    let mut z = a.alloc_bytes(rem).unwrap();
    unsafe { z.detach() };
    drop(x); // not on top -> becomes a free-list segment
    a.flush().unwrap();
  }
  // simulate the crash point: the pop marked the head (size := REMOVED = 0) and died before swinging the sentinel
  let mut bytes = std::fs::read(&p).unwrap();
  let sentinel = u64::from_le_bytes(bytes[8..16].try_into().unwrap());
  let head = (sentinel & 0xffff_ffff) as usize;
  assert_ne!(head as u32, u32::MAX, "free list must not be empty");
  bytes[head + 4..head + 8].copy_from_slice(&0u32.to_le_bytes());
  std::fs::write(&p, &bytes).unwrap();

  let (tx, rx) = mpsc::channel();
  std::thread::spawn(move || {
    let a = unsafe {
      Options::new().with_read(true).with_write(true).with_capacity(256)
        .with_freelist(Freelist::Optimistic).map_mut::<Arena, _>(&p).unwrap()
    };
    let r = a.alloc_bytes(8).map(|b| b.capacity());
    let _ = tx.send(format!("{:?}", r));
  });
  match rx.recv_timeout(Duration::from_secs(5)) {
    Ok(r) => println!("allocation returned: {r}"),
    Err(_) => panic!("HANG: alloc_bytes on the reopened arena did not return within 5 s"),
  }
}
