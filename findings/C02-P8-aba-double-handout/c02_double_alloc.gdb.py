# gdb driver: forces one interleaving of 8 public calls on the unmodified library.
# Stop points (rarena-allocator/src/sync.rs):
#   L_HEAD  = 1407  alloc_slow_path_optimistic: sentinel already loaded (1387), head word not yet loaded
#   L_UNLNK = 1453  alloc_slow_path_optimistic: head marked REMOVED (1438), sentinel CAS not yet executed
#   L_LINK  = 697   optimistic_dealloc: own word stored (695), link CAS not yet executed
#
# pessimistic mode (HUNT_MODE=pessimistic):
#   L_HEAD  = 648   find_prev_and_next: prev (= sentinel) word loaded (615), next word not yet loaded
#   L_UNLNK = 1325  alloc_slow_path_pessimistic: next marked REMOVED (1305), CAS on prev not yet executed
#   L_LINK  = 758   pessimistic_dealloc: own word stored (756), link CAS not yet executed
import gdb, struct, os
PESS = os.environ.get("HUNT_MODE") == "pessimistic"
if PESS:
    L_HEAD, L_UNLNK, L_LINK = "sync.rs:648", "sync.rs:1325", "sync.rs:758"
    OFF = {"H": 32, "X": 144, "B": 312, "A": 528}
else:
    L_HEAD, L_UNLNK, L_LINK = "sync.rs:1407", "sync.rs:1453", "sync.rs:697"
    OFF = {"H": 32, "X": 352, "B": 568, "A": 736}
IDX = {"T1h":0, "S2":1, "T1x":2, "S4":3, "O_X":4, "S7":5, "O_H":6, "T5":7}
gdb.execute("set confirm off"); gdb.execute("set pagination off")
gdb.execute("set breakpoint pending on"); gdb.execute("set print thread-events off")
gdb.execute("break marker_all_spawned"); gdb.execute("run")
gdb.execute("delete")
gdb.execute("set scheduler-locking on")
inf = gdb.selected_inferior()
go_addr = int(gdb.parse_and_eval("(unsigned long)&GO")) if False else None
def addr_of(sym):
    gdb.execute("set language c")
    v = int(gdb.parse_and_eval("(unsigned long)&%s" % sym))
    gdb.execute("set language auto")
    return v
GO = addr_of("GO"); FINAL = addr_of("FINAL")
base = None
def thread_named(n):
    for t in inf.threads():
        if t.name == n: return t
    raise Exception("no thread " + n)
started = set()
def words():
    # sentinel at arena offset 8 of the unified arena; `base` is the arena memory pointer
    global base
    def w(off):
        v = struct.unpack("<Q", bytes(inf.read_memory(base + off, 8)))[0]
        sz, nx = v >> 32, v & 0xffffffff
        f = lambda x: "END" if x == 0xffffffff else str(x)
        return "(%s,%s)" % ("SENT" if sz == 0xffffffff else ("REMOVED" if sz == 0 else str(sz)), f(nx))
    return "sentinel=%s  " % w(8) + "  ".join("%s@%d=%s" % (k, OFF[k], w(OFF[k])) for k in "HXBA")
step_no = 0
def run(name, until, what):
    """run ONLY thread `name` until source line `until` (or until its public call has returned)"""
    global step_no, base
    step_no += 1
    t = thread_named(name); t.switch()
    if name not in started:
        inf.write_memory(GO + IDX[name], b"\x01"); started.add(name)
    if until == "done":
        bp = gdb.Breakpoint("marker_done", temporary=True)
    else:
        bp = gdb.Breakpoint(until, temporary=True)
    gdb.execute("continue", to_string=True)
    fr = gdb.selected_frame(); sal = fr.find_sal()
    where = "%s:%d" % (sal.symtab.filename.split("/")[-1], sal.line) if sal.symtab else "?"
    if base is None:
        f = fr
        while f is not None and base is None:
            try:
                base = int(f.read_var("self")["ptr"])
            except Exception:
                f = f.older()
    print("[step %2d] %-3s runs until %-12s now at %-22s | %s" % (step_no, name, until, where, what))
    if base: print("           " + words())

run("T1h", L_HEAD,  "T1h (alloc) has loaded the sentinel word (SENT,H); H's word not yet loaded")
run("S2",  "done",  "S2 (alloc) pops H completely, legitimately; its handle is passed to O_H")
run("T1x", L_HEAD,  "T1x (alloc) has loaded the sentinel word (SENT,X); X's word not yet loaded")
run("S4",  "done",  "S4 (alloc) pops X completely, legitimately; its handle is passed to O_X")
run("O_X", L_LINK,  "O_X = drop(handle on X): own word (size,A) stored in X, link CAS on the sentinel pending => X is IN FLIGHT")
run("T1x", L_UNLNK, "T1x loaded X's in-flight word and its mark CAS SUCCEEDED on it; CAS on the sentinel pending")
run("S7",  "done",  "S7 = drop(b): B inserted at the head, the sentinel changes")
run("O_X", "done",  "O_X: link CAS fails -> retry: update_next_node stores (size,B) into X = ERASES T1x's mark; X linked at the head; drop returns")
run("O_H", L_LINK,  "O_H = drop(handle on H): own word (size,X) stored in H, link CAS on the sentinel pending => H is IN FLIGHT")
run("T1h", L_UNLNK, "T1h loaded H's in-flight word (next = X) and its mark CAS succeeded; CAS on the sentinel pending")
run("T1x", "done",  "T1x: the sentinel holds (SENT,X) again (ABA) -> CAS succeeds, sentinel -> A; T1x returns a handle on X; X's word is NOT REMOVED")
run("O_H", "done",  "O_H: link CAS fails -> retry: stores (size,A) into H = erases T1h's mark; H linked at the head; drop returns")
run("T1h", "done",  "T1h: the sentinel holds (SENT,H) again (ABA) -> CAS writes T1h's stale next: sentinel -> X, while X is LIVE in T1x")
run("T5",  "done",  "T5 (alloc) finds X at the head with a non-REMOVED word: pops X a second time, zeroes it, returns it")
gdb.execute("set scheduler-locking off")
inf.write_memory(FINAL, b"\x01")
print("[gdb] all public calls have returned; releasing all threads for the final checks")
gdb.execute("continue")
