//! C02 demonstration (optimistic free list, or pessimistic with argument `pessimistic`): one free-list node is handed out to two callers
//! that are live at the same time; the second hand-out zeroes the bytes of the first handle.
//!
//! Eight public calls (5 x alloc_bytes_owned, 3 x drop) made by eight threads. The interleaving is
//! forced from outside by gdb (c02_double_alloc.gdb.py) with breakpoints on lines of the
//! UNMODIFIED library; the program itself contains no knowledge of the library internals except
//! the sizes that make every pop take a whole node.  Without gdb the actors simply run one after
//! the other and the program reports "no violation".
use rarena_allocator::{Allocator, Buffer, BytesMut, Freelist, Options, sync::Arena};
use std::{sync::{Mutex, mpsc}, thread, time::Duration};

#[unsafe(no_mangle)]
pub static mut GO: [u8; 16] = [0; 16];
#[unsafe(no_mangle)]
pub static mut FINAL: u8 = 0;

#[unsafe(no_mangle)]
#[inline(never)]
pub extern "C" fn marker_all_spawned() { std::hint::black_box(()); }
#[unsafe(no_mangle)]
#[inline(never)]
pub extern "C" fn marker_done(actor: usize, off: usize, len: usize) { std::hint::black_box((actor, off, len)); }

fn wait_go(i: usize) {
  while unsafe { std::ptr::read_volatile((&raw const GO as *const u8).add(i)) } == 0 { std::hint::spin_loop(); }
}
fn wait_final() {
  while unsafe { std::ptr::read_volatile(&raw const FINAL) } == 0 { std::hint::spin_loop(); }
}

static SLOT_H2: Mutex<Option<BytesMut<Arena>>> = Mutex::new(None);
static SLOT_X2: Mutex<Option<BytesMut<Arena>>> = Mutex::new(None);
static SLOT_B: Mutex<Option<BytesMut<Arena>>> = Mutex::new(None);

const NAMES: [&str; 8] = ["T1h", "S2", "T1x", "S4", "O_X", "S7", "O_H", "T5"];

fn main() {
  let pess = std::env::args().nth(1).as_deref() == Some("pessimistic");
  let mode = if pess { Freelist::Pessimistic } else { Freelist::Optimistic };
  // sizes of the four initial blocks h, x, b, a and of the five allocation requests
  let init: [u32; 4] = if pess { [112, 168, 216, 320] } else { [320, 216, 168, 112] };
  // requests of T1h, S2, T1x, S4, T5 (every pop takes a whole node, no remainder)
  let req: [u32; 5] = if pess { [90, 104, 150, 160, 148] } else { [300, 312, 196, 208, 190] };
  let arena: Arena = Options::new().with_capacity(2048).with_freelist(mode).with_unify(true).alloc().unwrap();
  let h = arena.alloc_bytes_owned(init[0]).unwrap();
  let x = arena.alloc_bytes_owned(init[1]).unwrap();
  let b = arena.alloc_bytes_owned(init[2]).unwrap();
  let a = arena.alloc_bytes_owned(init[3]).unwrap();
  let rem = arena.remaining() as u32;
  let mut filler = arena.alloc_bytes(rem).unwrap();
  unsafe { filler.detach() };
  println!("mode: {mode:?}");
  println!("setup: h@{} x@{} b@{} a@{}  (bump area exhausted: remaining={})", h.offset(), x.offset(), b.offset(), a.offset(), arena.remaining());
  drop(a);
  drop(x);
  drop(h); // free list (descending): H(312) -> X(208) -> A(104)
  *SLOT_B.lock().unwrap() = Some(b);

  let (tx, rx) = mpsc::channel::<String>();
  let mut ths = Vec::new();
  for i in 0..8usize {
    let arena = arena.clone();
    let tx = tx.clone();
    ths.push(thread::Builder::new().name(NAMES[i].into()).spawn(move || {
      wait_go(i);
      match i {
        // allocations that keep their handle and verify it at the end
        0 | 2 | 7 => {
          let (sz, pat) = match i { 0 => (req[0], 0x11u8), 2 => (req[2], 0xAA), _ => (req[4], 0x55) };
          let mut hd = match arena.alloc_bytes_owned(sz) {
            Ok(hd) => hd,
            Err(e) => {
              marker_done(i, 0, 0);
              tx.send(format!("{}: alloc_bytes_owned({sz}) failed: {e}", NAMES[i])).unwrap();
              wait_final();
              return;
            }
          };
          let n = hd.capacity();
          hd.set_len(n);
          hd.fill(pat);
          marker_done(i, hd.offset(), n);
          tx.send(format!("{}: alloc_bytes_owned({sz}) -> LIVE handle [{}, {}) filled with {pat:#04x}", NAMES[i], hd.offset(), hd.offset() + n)).unwrap();
          wait_final();
          let bad = hd.iter().position(|&v| v != pat);
          match bad {
            None => tx.send(format!("{}: final check: handle [{}, {}) intact", NAMES[i], hd.offset(), hd.offset() + n)).unwrap(),
            Some(j) => tx.send(format!("{}: final check: VIOLATION(C02): bytes of my live handle [{}, {}) were modified: byte +{j} is {:#04x}, expected {pat:#04x}", NAMES[i], hd.offset(), hd.offset() + n, hd[j])).unwrap(),
          }
          unsafe { hd.detach() };
        }
        // legitimate pops whose handle is released later by another thread
        1 | 3 => {
          let sz = if i == 1 { req[1] } else { req[3] };
          let hd = arena.alloc_bytes_owned(sz).unwrap();
          let (o, n) = (hd.offset(), hd.capacity());
          *(if i == 1 { &SLOT_H2 } else { &SLOT_X2 }).lock().unwrap() = Some(hd);
          marker_done(i, o, n);
          tx.send(format!("{}: alloc_bytes_owned({sz}) -> handle [{o}, {})", NAMES[i], o + n)).unwrap();
        }
        // releases
        _ => {
          let slot = match i { 4 => &SLOT_X2, 5 => &SLOT_B, _ => &SLOT_H2 };
          let hd = slot.lock().unwrap().take().unwrap();
          let (o, n) = (hd.offset(), hd.capacity());
          drop(hd);
          marker_done(i, o, n);
          tx.send(format!("{}: drop(handle [{o}, {})) returned", NAMES[i], o + n)).unwrap();
        }
      }
      wait_final();
    }).unwrap());
  }
  drop(tx);
  marker_all_spawned();
  if std::env::var_os("UNDER_GDB").is_none() {
    // sequential schedule: no violation expected
    for i in [1usize, 3, 4, 5, 6, 0, 2, 7] {
      unsafe { std::ptr::write_volatile((&raw mut GO as *mut u8).add(i), 1) };
      thread::sleep(Duration::from_millis(50));
    }
    unsafe { std::ptr::write_volatile(&raw mut FINAL, 1) };
  }
  let mut violation = false;
  let mut live: Vec<(usize, usize, String)> = Vec::new();
  while let Ok(m) = rx.recv() {
    println!("{m}");
    if m.contains("VIOLATION") { violation = true; }
    if let Some(r) = m.split("LIVE handle [").nth(1) {
      let mut it = r.split(|c| c == ',' || c == ')');
      let s: usize = it.next().unwrap().trim().parse().unwrap();
      let e: usize = it.next().unwrap().trim().parse().unwrap();
      for (s2, e2, who) in &live {
        if s < *e2 && *s2 < e {
          println!("VIOLATION(C02): live handle [{s}, {e}) overlaps live handle [{s2}, {e2}) of {who}");
          violation = true;
        }
      }
      live.push((s, e, m.split(':').next().unwrap().to_string()));
    }
  }
  for t in ths { let _ = t.join(); }
  println!("{}", if violation { "RESULT: C02 VIOLATED" } else { "RESULT: no violation" });
  std::process::exit(if violation { 1 } else { 0 });
}
