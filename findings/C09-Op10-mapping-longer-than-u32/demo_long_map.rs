// cargo test --features memmap --test demo_long_map   (copy into rarena-allocator/tests/)
// A file longer than u32::MAX opened without a capacity: before the repair the capacity became len mod 2^32 (here 100),
// while the stored cursor is validated against the un-narrowed length.
use rarena_allocator::{unsync, Allocator, Options};

#[test]
fn file_longer_than_u32_is_refused() {
  let dir = std::env::temp_dir().join(format!("rarena-long-{}", std::process::id()));
  std::fs::create_dir_all(&dir).unwrap();
  let p = dir.join("long.arena");
  {
    let a: unsync::Arena = unsafe {
      Options::new().with_capacity(4096).with_create_new(true).with_read(true).with_write(true).map_mut(&p).unwrap()
    };
    let b = a.alloc_bytes(3000).unwrap();
    core::mem::forget(b);
    a.flush().unwrap();
  }
  // sparse: no disk space is used
  let f = std::fs::OpenOptions::new().write(true).open(&p).unwrap();
  f.set_len((1u64 << 32) + 100).unwrap();
  drop(f);
  let r: std::io::Result<unsync::Arena> = unsafe { Options::new().with_read(true).with_write(true).map_mut(&p) };
  match &r {
    Ok(a) => panic!("opened with capacity {} and allocated {}", a.capacity(), a.allocated()),
    Err(e) => assert_eq!(e.kind(), std::io::ErrorKind::InvalidInput),
  }
  let r: std::io::Result<unsync::Arena> = unsafe { Options::new().with_read(true).map(&p) };
  match &r {
    Ok(a) => panic!("read-only: opened with capacity {} and allocated {}", a.capacity(), a.allocated()),
    Err(e) => assert_eq!(e.kind(), std::io::ErrorKind::InvalidInput),
  }
  std::fs::remove_dir_all(&dir).ok();
}
