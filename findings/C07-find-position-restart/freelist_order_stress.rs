//! Review of 9c8874d ("re-read the predecessor while waiting on a removed free-list node").
//!
//! Several threads release into and allocate from the free list of one full `sync::Arena`
//! (the cursor stays at the capacity, so no node word is ever handed out as fresh memory).
//! After all threads are joined the free list is read from `Allocator::memory()` (unified layout:
//! the header lives in the memory) and must be well formed: finite, no removed marks, ordered (C10).
//! A watchdog reports operations that do not finish (C07).

use rarena_allocator::{sync::Arena, Allocator, Buffer, BytesMut, Freelist, Options};
use std::sync::{
  atomic::{AtomicUsize, Ordering},
  mpsc, Arc, Barrier,
};

const HEADER_OFFSET: usize = 8; // align_offset::<Header>(reserved = 0) + align_of::<Header>()

fn word(mem: &[u8], off: usize) -> (u32, u32) {
  let w = u64::from_ne_bytes(mem[off..off + 8].try_into().unwrap());
  ((w >> 32) as u32, w as u32)
}

/// Returns the (node offset, data size) of every node of the free list.
fn walk(arena: &Arena) -> Result<Vec<(u32, u32)>, String> {
  let mem = arena.memory();
  let mut out = Vec::new();
  let (s, mut next) = word(mem, HEADER_OFFSET);
  if s != u32::MAX {
    return Err(format!("sentinel size is {s}"));
  }
  while next != u32::MAX {
    if next as usize + 8 > mem.len() || next % 8 != 0 {
      return Err(format!("bad node offset {next} after {out:?}"));
    }
    let (size, n) = word(mem, next as usize);
    out.push((next, size));
    if size == 0 {
      return Err(format!("node marked as removed in a quiescent list: {out:?}"));
    }
    if out.len() > 100_000 {
      return Err("cycle".into());
    }
    next = n;
  }
  Ok(out)
}

fn check(arena: &Arena, kind: Freelist) -> Result<(), String> {
  let list = walk(arena)?;
  for (i, w) in list.windows(2).enumerate() {
    let ok = match kind {
      Freelist::Optimistic => w[0].1 >= w[1].1,
      _ => w[0].1 <= w[1].1,
    };
    if !ok {
      let lo = i.saturating_sub(3);
      let hi = (i + 5).min(list.len());
      return Err(format!(
        "free list is not ordered ({kind:?}): {} nodes, nodes {lo}..{hi} as (offset, size) = {:?}",
        list.len(),
        &list[lo..hi]
      ));
    }
  }
  let mut ranges: Vec<(u32, u32)> = list.iter().map(|(o, s)| (*o, *o + 8 + *s)).collect();
  ranges.sort();
  for w in ranges.windows(2) {
    if w[0].1 > w[1].0 {
      return Err(format!("segments overlap: {ranges:?}"));
    }
  }
  Ok(())
}

fn env(name: &str, default: usize) -> usize {
  std::env::var(name).ok().and_then(|s| s.parse().ok()).unwrap_or(default)
}

struct Rng(u64);
impl Rng {
  fn next(&mut self) -> u64 {
    self.0 ^= self.0 << 13;
    self.0 ^= self.0 >> 7;
    self.0 ^= self.0 << 17;
    self.0
  }
}

fn round(kind: Freelist, seed: u64, threads: usize, ops: usize) -> Result<(), String> {
  let arena = Options::new()
    .with_capacity(env("CAP", 8 << 10) as u32)
    .with_unify(true)
    .with_minimum_segment_size(8)
    .with_freelist(kind)
    .alloc::<Arena>()
    .unwrap();

  // fill the arena completely
  let mut rng = Rng(seed | 1);
  let mut blocks: Vec<BytesMut<Arena>> = Vec::new();
  loop {
    let size = 24 + (rng.next() % 25) as u32 * 8;
    if arena.remaining() < size as usize + 64 {
      break;
    }
    let mut b = arena.alloc_bytes_owned(size).unwrap();
    b.set_len(size as usize);
    b.fill(0xEE);
    blocks.push(b);
  }
  // the topmost block is never released: the cursor stays at the capacity.
  let _pin = arena.alloc_bytes_owned(arena.remaining() as u32).unwrap();
  assert_eq!(arena.remaining(), 0);

  let barrier = Arc::new(Barrier::new(threads));
  let done = Arc::new(AtomicUsize::new(0));
  let corrupted = Arc::new(AtomicUsize::new(0));
  let (tx, rx) = mpsc::channel::<()>();
  let mut shares: Vec<Vec<BytesMut<Arena>>> = (0..threads).map(|_| Vec::new()).collect();
  for (i, b) in blocks.into_iter().enumerate() {
    shares[i % threads].push(b);
  }

  let mut handles = Vec::new();
  for (t, mut mine) in shares.into_iter().enumerate() {
    let arena = arena.clone();
    let barrier = barrier.clone();
    let done = done.clone();
    let corrupted = corrupted.clone();
    let tx = tx.clone();
    handles.push(std::thread::spawn(move || {
      let mut rng = Rng(seed.wrapping_mul(0x9E37_79B9_7F4A_7C15) ^ (t as u64 + 1) | 1);
      barrier.wait();
      for _ in 0..ops {
        if !mine.is_empty() && rng.next() % 2 == 0 {
          let i = (rng.next() % mine.len() as u64) as usize;
          let b = mine.swap_remove(i);
          // C02: nobody else may have touched the bytes of a live buffer.
          let tag = b[0];
          if b.iter().any(|x| *x != tag) {
            corrupted.fetch_add(1, Ordering::SeqCst);
          }
          drop(b);
        } else {
          let size = 8 + (rng.next() % 20) as u32 * 8;
          if let Ok(mut b) = arena.alloc_bytes_owned(size) {
            let zeroed = unsafe { arena.get_bytes(b.offset(), b.capacity()) }.iter().all(|x| *x == 0);
            if b.capacity() != size as usize || !zeroed {
              corrupted.fetch_add(1, Ordering::SeqCst);
            }
            let tag = (rng.next() % 255) as u8 + 1;
            b.set_len(size as usize);
            b.fill(tag);
            mine.push(b);
          }
        }
      }
      done.fetch_add(1, Ordering::SeqCst);
      let _ = tx.send(());
      mine
    }));
  }
  drop(tx);

  for _ in 0..threads {
    if rx.recv_timeout(std::time::Duration::from_secs(60)).is_err() {
      // do not join: the threads are stuck inside the arena.
      if std::env::var("HOLD_ON_HANG").is_ok() {
        eprintln!("HANG (pid {}), holding for a debugger", std::process::id());
        std::thread::sleep(std::time::Duration::from_secs(3600));
      }
      return Err(format!(
        "HANG: only {} of {threads} threads finished within 60s",
        done.load(Ordering::SeqCst)
      ));
    }
  }
  let kept: Vec<_> = handles.into_iter().map(|h| h.join().unwrap()).collect();
  if corrupted.load(Ordering::SeqCst) != 0 {
    return Err(format!(
      "{} live buffers were modified by somebody else or were not zeroed",
      corrupted.load(Ordering::SeqCst)
    ));
  }
  let r = if std::env::var("HANG_ONLY").is_ok() { Ok(()) } else { check(&arena, kind) };
  drop(kept);
  r
}

fn run(kind: Freelist, default_rounds: usize) {
  let rounds: usize = env("ROUNDS", default_rounds);
  for seed in 0..rounds as u64 {
    if let Err(e) = round(kind, seed + 1, env("THREADS", 8), env("OPS", 400)) {
      panic!("round {seed}: {e}");
    }
  }
}

#[test]
fn pessimistic_free_list_stays_ordered() {
  // the residual hang shows up about once in 5000 - 20000 rounds
  run(Freelist::Pessimistic, 80_000);
}

#[test]
fn optimistic_free_list_stays_ordered() {
  // the order is lost within a few hundred rounds
  run(Freelist::Optimistic, 5_000);
}
