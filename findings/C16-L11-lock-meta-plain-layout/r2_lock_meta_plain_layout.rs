//! C16: construction must fail exactly when the capacity cannot hold the prefix.
//! With `with_lock_meta(true)` an anonymous map in the plain (non unified) layout locks
//! `size_of::<Header>()` bytes at offset `reserved + 1` of the *map*, although in this layout the
//! header does not live in the map at all. For small capacities the range check of `mlock` fails
//! and the constructor returns InvalidInput although the prefix (reserved + 1 bytes) fits.
use rarena_allocator::{sync, unsync, Allocator, Options};

fn go<A: Allocator>() {
  for cap in [1u32, 2, 10, 24] {
    let plain = Options::new().with_capacity(cap).map_anon::<A>();
    assert!(plain.is_ok(), "capacity {cap} holds the prefix of the plain layout");
    let a = plain.unwrap();
    assert_eq!(a.data_offset(), 1);
    assert_eq!(a.remaining(), cap as usize - 1);

    let locked = Options::new().with_capacity(cap).with_lock_meta(true).map_anon::<A>();
    assert!(
      locked.is_ok(),
      "capacity {cap} (prefix 1) refused with lock_meta: {}",
      locked.err().unwrap()
    );
  }
}

#[test]
fn lock_meta_small_plain_anon_unsync() {
  go::<unsync::Arena>();
}

#[test]
fn lock_meta_small_plain_anon_sync() {
  go::<sync::Arena>();
}
