use rarena_allocator::{sync, unsync, Allocator, Buffer, Options};
use std::cell::Cell;

thread_local! { static DROPS: Cell<u64> = Cell::new(0); }
fn drops() -> u64 { DROPS.with(|d| d.get()) }
/// zero sized, but `mem::needs_drop::<ZD>()` is true (think of a guard / token type)
struct ZD;
impl Drop for ZD { fn drop(&mut self) { DROPS.with(|d| d.set(d.get() + 1)); } }

// "a value of a type that needs dropping is dropped exactly once WHEN ITS non-detached HANDLE IS DROPPED"
fn drop_timing<A: Allocator>() {
  let a: A = Options::new().with_capacity(200).alloc().unwrap();
  let base = drops();
  let mut h = unsafe { a.alloc::<ZD>().unwrap() };
  h.write(ZD);
  let after_write = drops() - base;
  let _still_usable: &ZD = unsafe { h.as_ref() }; // the handle still hands out the "value"
  drop(h);
  let after_drop = drops() - base;
  assert_eq!((after_write, after_drop), (0, 1), "(drops after write, drops after handle drop)");
}
#[test]
fn zst_value_is_dropped_when_the_handle_is_dropped_sync() { drop_timing::<sync::Arena>(); }
#[test]
fn zst_value_is_dropped_when_the_handle_is_dropped_unsync() { drop_timing::<unsync::Arena>(); }

// the protocol documented on Allocator::alloc / RefMut::detach: detach, write, later drop the value yourself
fn detach_protocol<A: Allocator>() {
  let a: A = Options::new().with_capacity(200).alloc().unwrap();
  let base = drops();
  unsafe {
    let mut h = a.alloc::<ZD>().unwrap();
    h.detach();
    h.write(ZD);
    core::ptr::drop_in_place(h.as_mut()); // "drop the value manually", as in the doc example
    drop(h);
  }
  assert_eq!(drops() - base, 1, "one value was created, so exactly one drop is expected");
}
#[test]
fn zst_detach_protocol_drops_once_sync() { detach_protocol::<sync::Arena>(); }
#[test]
fn zst_detach_protocol_drops_once_unsync() { detach_protocol::<unsync::Arena>(); }
