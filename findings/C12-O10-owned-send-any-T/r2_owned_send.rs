//! C12 (no data race caused by the arena itself): `Owned<T, A>` is declared
//! `unsafe impl<A: Allocator + Send, T> Send` / `... + Sync, T> Sync` (object.rs:38-39) without
//! any bound on `T`. `Owned` stores and drops a `T`, and `write` is a safe method, so safe code can
//! move a `!Send` value (an `Rc`) to another thread through an `Owned` handle.
use rarena_allocator::{sync::Arena, Allocator, Options, Owned};
use std::{marker::PhantomData, rc::Rc};

struct Probe<T>(PhantomData<T>);
trait Fallback {
  const IS_SEND: bool = false;
  const IS_SYNC: bool = false;
}
impl<T> Fallback for Probe<T> {}
#[allow(dead_code)]
impl<T: Send> Probe<T> {
  const IS_SEND: bool = true;
}
#[allow(dead_code)]
impl<T: Sync> Probe<T> {
  const IS_SYNC: bool = true;
}

#[test]
fn owned_of_rc_is_not_send() {
  assert!(!Probe::<Rc<u8>>::IS_SEND);
  assert!(
    !Probe::<Owned<Rc<u8>, Arena>>::IS_SEND,
    "Owned<Rc<u8>, sync::Arena> is Send although Rc<u8> is not"
  );
}

#[test]
fn owned_of_cell_is_not_sync() {
  assert!(!Probe::<std::cell::Cell<u8>>::IS_SYNC);
  assert!(
    !Probe::<Owned<std::cell::Cell<u8>, Arena>>::IS_SYNC,
    "Owned<Cell<u8>, sync::Arena> is Sync although Cell<u8> is not"
  );
}

/// the consequence: the non-atomic reference count of an `Rc` is updated from two threads.
#[test]
fn rc_count_race_through_owned() {
  let arena = Options::new().with_capacity(1024).alloc::<Arena>().unwrap();
  let rc = Rc::new(0u8);
  // Safety (contract of `alloc`): the handle is not detached and the arena is not file backed.
  let mut owned = unsafe { arena.alloc_owned::<Rc<u8>>().unwrap() };
  owned.write(rc.clone());
  const N: usize = 2_000_000;
  let t = std::thread::spawn(move || {
    // `owned` (and the Rc inside it) now lives on another thread: only possible because of the unsound impl.
    for _ in 0..N {
      // Safety (contract of `as_ref`): the value has been written.
      let c = unsafe { owned.as_ref() }.clone();
      drop(c);
    }
    owned
  });
  for _ in 0..N {
    let c = rc.clone();
    drop(c);
  }
  let owned = t.join().unwrap();
  let count = Rc::strong_count(&rc);
  std::mem::forget(owned); // do not free with a corrupted count
  assert_eq!(count, 2, "the Rc reference count was corrupted by a data race");
}
