use rarena_allocator::{sync, unsync, Allocator, Options};
use std::panic::{catch_unwind, AssertUnwindSafe};

// C20: discarded() never decreases except through clear(); increase_discarded(n) raises it by n.
#[test]
fn sync_discarded_is_monotone() {
  let a: sync::Arena = Options::new().with_capacity(100).alloc().unwrap();
  a.increase_discarded(u32::MAX - 5);
  let before = a.discarded();
  a.increase_discarded(10); // safe fn, documented only to panic on a read-only arena
  let after = a.discarded();
  assert!(after >= before, "discarded() went DOWN: {before} -> {after}");
}

// C11: same options, same calls => same success/failure and same observable numbers.
#[test]
fn sync_and_unsync_agree_on_increase_discarded() {
  fn drive<A: Allocator>() -> Result<u32, String> {
    let a: A = Options::new().with_capacity(100).alloc().unwrap();
    catch_unwind(AssertUnwindSafe(|| {
      a.increase_discarded(u32::MAX - 5);
      a.increase_discarded(10);
      a.discarded()
    }))
    .map_err(|p| p.downcast_ref::<&str>().map(|s| s.to_string()).or_else(|| p.downcast_ref::<String>().cloned()).unwrap_or_default())
  }
  let s = drive::<sync::Arena>();
  let u = drive::<unsync::Arena>();
  assert_eq!(s, u, "sync vs unsync");
}

// the same wrap is reachable without ever calling increase_discarded: every release through the
// free list adds the 8 byte node overhead, every discard_freelist adds the data sizes, for ever.
#[test]
fn discarded_exceeds_capacity_by_plain_reuse() {
  let a: sync::Arena = Options::new().with_capacity(256).with_minimum_segment_size(1).alloc().unwrap();
  let cap = a.capacity() as u32;
  {
    let _pin = a.alloc_bytes(100).unwrap();
    for _ in 0..100 {
      let x = a.alloc_bytes(100).unwrap();
      let _top = a.alloc_bytes(8).unwrap();
      drop(x); // not on top -> segment; discarded += 8
      // _top dropped -> on top -> cursor goes back, x's segment stays listed
      drop(_top);
      a.discard_freelist().unwrap();
      unsafe { a.rewind(rarena_allocator::ArenaPosition::Start(_pin.buffer_offset() as u32 + 100)); }
    }
  }
  eprintln!("capacity {cap}, discarded {}", a.discarded());
}
use rarena_allocator::Buffer;
