//! C17 / C01 / C10: the "Good practice" example in the documentation of `Allocator::clear`
//! (allocator.rs:452-466) drops the handle *after* `clear()`. The drop releases the handle's
//! extent into the arena that has just been reset, so the cleared arena is not pristine
//! (discarded() != 0, free list not empty, a segment node written above the cursor), and the
//! segment is later handed out on top of a live allocation.
use rarena_allocator::{sync, unsync, Allocator, Buffer, Options};

/// literally the documented example (with the crate's default options).
fn doc_example<A: Allocator>() {
  let arena = Options::new().with_capacity(100).alloc::<A>().unwrap();

  unsafe {
    let mut data = arena.alloc::<Vec<u8>>().unwrap();
    data.write(vec![1, 2, 3]);

    arena.clear().unwrap();
  } // <- `data` is dropped here, after `clear`

  let fresh = Options::new().with_capacity(100).alloc::<A>().unwrap();
  assert_eq!(arena.allocated(), fresh.allocated());
  assert_eq!(
    arena.discarded(),
    fresh.discarded(),
    "after the documented good-practice use of clear() the arena is not pristine"
  );
}

/// same pattern with a larger value: the late release links a segment that lies above the cursor,
/// which is then served on top of a live allocation.
fn overlap<A: Allocator>() {
  let arena = Options::new().with_capacity(200).alloc::<A>().unwrap();
  unsafe {
    let mut data = arena.alloc::<[u64; 12]>().unwrap();
    data.write([7; 12]);
    arena.clear().unwrap();
  }
  assert_eq!(arena.allocated(), arena.data_offset());

  // fresh space of the cleared arena (not zeroed by the arena, so the stale segment node survives;
  // with `alloc_bytes` the zeroing destroys the linked node instead: the unsync flavour then fails
  // the next free-list allocation and the sync flavour spins for ever on the "removed" size 0).
  let x = arena.alloc_aligned_bytes::<u64>(140).unwrap();
  // no fresh space left: before the repair this was served from the stale segment, on top of `x`
  match arena.alloc_bytes(60) {
    Err(_) => {}
    Ok(y) => {
      let (x0, x1) = (x.offset(), x.offset() + x.capacity());
      let (y0, y1) = (y.offset(), y.offset() + y.capacity());
      assert!(
        y1 <= x0 || x1 <= y0,
        "live allocations overlap: x = [{x0}, {x1}), y = [{y0}, {y1})"
      );
    }
  }
}

#[test]
fn clear_doc_example_unsync() {
  doc_example::<unsync::Arena>();
}

#[test]
fn clear_doc_example_sync() {
  doc_example::<sync::Arena>();
}

#[test]
fn clear_then_drop_overlap_unsync() {
  overlap::<unsync::Arena>();
}

#[test]
fn clear_then_drop_overlap_sync() {
  overlap::<sync::Arena>();
}
