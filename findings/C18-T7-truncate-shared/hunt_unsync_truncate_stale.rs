//! C14 / C15 / C17 (unsync flavour): `unsync::Arena::truncate(&mut self, ..)` reallocates the
//! backing storage and refreshes `ptr` / `cap` of *that* `Arena` value only.  Every other
//! handle that shares the same `Memory` -- a `clone()` of the arena, or the private clone held
//! by an owned buffer (`BytesMut`, returned by `alloc_bytes_owned`) -- keeps the old base
//! pointer and the old capacity.  Only safe functions are used here (plus `rewind`, whose
//! contract is respected).
use rarena_allocator::{unsync::Arena, Allocator, ArenaPosition, Buffer, Options};

fn opts() -> Options {
  Options::new().with_capacity(128)
}

#[cfg(feature = "memmap")]
fn truncate(a: &mut Arena, n: usize) {
  a.truncate(n).unwrap();
}
#[cfg(not(feature = "memmap"))]
fn truncate(a: &mut Arena, n: usize) {
  a.truncate(n);
}

/// C14: a put through an owned buffer must land inside `[offset, offset + capacity)` of the arena.
#[test]
fn owned_buffer_writes_outside_the_arena_after_truncate() {
  let mut arena = opts().alloc::<Arena>().unwrap();
  let mut buf = arena.alloc_bytes_owned(16).unwrap();
  truncate(&mut arena, 4096);

  // Where would the next put go?  (Checked *before* writing: actually performing the put
  // scribbles over freed heap memory and the test process dies with SIGSEGV / heap corruption
  // instead of a readable assertion -- see REPORT.md.)
  let off = buf.offset();
  let base = arena.memory().as_ptr() as usize;
  let p = buf.as_mut_ptr() as usize;
  assert!(
    p == base + off,
    "the owned buffer [{off}, {}) writes through {p:#x}, but the arena now lives at [{base:#x}, {:#x}) and the buffer at {:#x}",
    off + buf.capacity(),
    base + arena.capacity(),
    base + off,
  );
  buf.put_u64_le(0xDEAD_BEEF_DEAD_BEEF).unwrap();
  assert_eq!(
    u64::from_le_bytes(arena.memory()[off..off + 8].try_into().unwrap()),
    0xDEAD_BEEF_DEAD_BEEF
  );
}

/// C15: memory() of every handle is `capacity()` bytes of the arena.
#[test]
fn clone_reads_freed_memory_after_truncate() {
  let mut arena = opts().alloc::<Arena>().unwrap();
  let other = arena.clone();
  truncate(&mut arena, 4096);
  assert_eq!(other.capacity(), arena.capacity());
  assert_eq!(other.memory().len(), 4096);
  assert_eq!(
    other.memory().as_ptr(),
    arena.memory().as_ptr(),
    "clone.memory() is a {}-byte slice over the old (freed, 128-byte) allocation",
    other.memory().len()
  );
}

/// C17: End(n) = capacity - n.
#[test]
fn clone_rewinds_to_stale_capacity_after_truncate() {
  let mut arena = opts().alloc::<Arena>().unwrap();
  let other = arena.clone();
  truncate(&mut arena, 4096);
  unsafe { other.rewind(ArenaPosition::End(0)) };
  assert_eq!(
    other.allocated(),
    other.capacity(),
    "rewind(End(0)) must put the cursor at capacity()"
  );
}
