//! C14: "align_to yields a pointer aligned for T inside the buffer or an error".
//! The zero-capacity owned handle (`alloc_bytes_owned(0)`, `alloc_aligned_bytes_owned::<()>(0)`)
//! stores `NonNull::<u8>::dangling()` (address 1) as its base; `align_to::<T>()` "succeeds"
//! (0 > 0 is false) and hands that address back, cast to `*mut T`.
use rarena_allocator::{sync, unsync, Allocator, Options};

fn run<A: Allocator>() {
  let arena = Options::new().with_capacity(100).alloc::<A>().unwrap();
  let mut b = arena.alloc_bytes_owned(0).unwrap();
  match b.align_to::<u64>() {
    Err(_) => {}
    Ok(p) => {
      let base = arena.raw_ptr() as usize;
      let p = p.as_ptr() as usize;
      assert!(
        p % 8 == 0 && p >= base && p <= base + arena.capacity(),
        "align_to::<u64>() returned Ok({p:#x}): not aligned for u64 and not inside the arena [{base:#x}, {:#x})",
        base + arena.capacity()
      );
    }
  }
}

#[test]
fn sync_null_owned() {
  run::<sync::Arena>();
}
#[test]
fn unsync_null_owned() {
  run::<unsync::Arena>();
}
