// cargo test --features memmap --test demo_offset_sum   (copy into rarena-allocator/tests/)
// with_offset takes any u64: before the repair `offset + capacity` was an unchecked u64 addition (panic with overflow
// checks, otherwise a wrapped small length passed to File::set_len before the mapping fails).
use rarena_allocator::{unsync, Options};

#[test]
fn huge_offset_is_an_error_not_a_panic() {
  let dir = std::env::temp_dir().join(format!("rarena-off-{}", std::process::id()));
  std::fs::create_dir_all(&dir).unwrap();
  let p = dir.join("off.arena");
  let r = std::panic::catch_unwind(|| {
    let r: std::io::Result<unsync::Arena> = unsafe {
      Options::new().with_capacity(4096).with_offset(u64::MAX - 4095).with_create_new(true).with_read(true).with_write(true).map_mut(&p)
    };
    r.map(|_| ()).map_err(|e| e.kind())
  });
  std::fs::remove_dir_all(&dir).ok();
  match r {
    Err(_) => panic!("the open panicked"),
    Ok(Ok(())) => panic!("the open succeeded"),
    Ok(Err(k)) => assert_eq!(k, std::io::ErrorKind::InvalidInput),
  }
}
