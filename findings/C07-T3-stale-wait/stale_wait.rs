use rarena_allocator::{sync::Arena, Allocator, Buffer, Freelist, Options};
use std::sync::{atomic::{AtomicBool, AtomicUsize, Ordering}, Arc};
use std::time::{Duration, Instant};

// T inserts into the free list (find_position) while P pops heads and keeps what it gets.
#[test]
fn insertion_terminates_while_another_thread_pops_and_keeps() {
  let deadline = Instant::now() + Duration::from_secs(120);
  let mut trial = 0;
  while Instant::now() < deadline {
    trial += 1;
    let arena = Options::new().with_capacity(1 << 20).with_freelist(Freelist::Optimistic).with_minimum_segment_size(8).alloc::<Arena>().unwrap();
    // fill the arena with 64-byte blocks, remember them
    let mut blocks = vec![];
    while let Ok(mut b) = arena.alloc_bytes(56) { unsafe { b.detach(); } blocks.push((b.offset() as u32, b.capacity() as u32)); }
    let n = blocks.len();
    // free every second block -> n/2 segments on the list
    let (seg, keep): (Vec<_>, Vec<_>) = blocks.into_iter().enumerate().partition(|(i, _)| i % 2 == 0);
    let seg: Vec<(u32, u32)> = seg.into_iter().map(|x| x.1).collect();
    let keep: Vec<(u32, u32)> = keep.into_iter().map(|x| x.1).collect();
    let half = seg.len() / 2;
    for &(o, s) in &seg[..half] { unsafe { arena.dealloc(o, s); } }
    let done_t = Arc::new(AtomicBool::new(false));
    let progress = Arc::new(AtomicUsize::new(0));
    let a1 = arena.clone();
    let p = std::thread::spawn(move || {
      // pop heads and keep them forever
      let mut got = 0;
      while let Ok(mut b) = a1.alloc_bytes(40) { unsafe { b.detach(); } got += 1; }
      got
    });
    let a2 = arena.clone();
    let d2 = done_t.clone(); let pr = progress.clone();
    let rest: Vec<(u32, u32)> = seg[half..].to_vec();
    let t = std::thread::spawn(move || {
      for &(o, s) in &rest { unsafe { a2.dealloc(o, s); } pr.fetch_add(1, Ordering::Relaxed); }
      d2.store(true, Ordering::Release);
    });
    let start = Instant::now();
    let mut last = 0; let mut last_change = Instant::now();
    while !done_t.load(Ordering::Acquire) {
      std::thread::sleep(Duration::from_millis(20));
      let cur = progress.load(Ordering::Relaxed);
      if cur != last { last = cur; last_change = Instant::now(); }
      if last_change.elapsed() > Duration::from_secs(10) {
        panic!("C07: dealloc (free-list insertion) made no progress for 10s in trial {trial} after {cur} insertions ({n} blocks); popper finished: {}", p.is_finished());
      }
    }
    t.join().unwrap(); let _ = p.join().unwrap();
    let _ = (keep, start);
  }
  eprintln!("no hang in {trial} trials");
}
