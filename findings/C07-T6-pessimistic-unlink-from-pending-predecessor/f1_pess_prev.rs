//! F1: pessimistic pop unlinks its victim from a predecessor that is NOT in the list
//! (a segment that is being re-inserted: own word stored, link CAS pending).
//! The victim stays linked from its real predecessor as REMOVED while it is handed to a caller;
//! every later insertion that has to pass it spins for ever (C07).
//!
//! The interleaving is forced with gdb (see f1_pess_prev.gdb.py): the threads wait on gates
//! that the debugger opens, breakpoints are on library lines only.
use rarena_allocator::{sync::Arena, Allocator, Buffer, Freelist, Options};
use std::sync::atomic::{AtomicU32, Ordering::*};
use std::time::{Duration, Instant};

#[unsafe(no_mangle)]
pub static mut GATE_Q: u32 = 0;
#[unsafe(no_mangle)]
pub static mut GATE_D: u32 = 0;
#[unsafe(no_mangle)]
pub static mut GATE_E: u32 = 0;
#[unsafe(no_mangle)]
pub static mut GATE_GO: u32 = 0;

static DONE: [AtomicU32; 3] = [AtomicU32::new(0), AtomicU32::new(0), AtomicU32::new(0)];
static STAGE: [AtomicU32; 3] = [AtomicU32::new(0), AtomicU32::new(0), AtomicU32::new(0)];

fn wait(g: *const u32) {
  while unsafe { core::ptr::read_volatile(g) } == 0 {
    std::thread::sleep(Duration::from_millis(1));
  }
}

#[inline(never)]
#[unsafe(no_mangle)]
pub extern "C" fn mark_main_ready() {}
#[inline(never)]
#[unsafe(no_mangle)]
pub extern "C" fn mark_q_got() {}
#[inline(never)]
#[unsafe(no_mangle)]
pub extern "C" fn mark_e_done() {}

fn dump(arena: &Arena, title: &str) {
  let mem = arena.memory();
  let rd = |o: usize| u64::from_le_bytes(mem[o..o + 8].try_into().unwrap());
  let s = rd(8);
  eprint!("{title}: sentinel -> ");
  let mut cur = (s & 0xffff_ffff) as usize;
  let mut n = 0;
  while cur != u32::MAX as usize && n < 10 {
    let w = rd(cur);
    eprint!("@{cur}(size {}{}) -> ", w >> 32, if w >> 32 == 0 { " = REMOVED" } else { "" });
    cur = (w & 0xffff_ffff) as usize;
    n += 1;
  }
  eprintln!("END   [word@32 = {:#x}, word@104 = {:#x}, word@312 = {:#x}]", rd(32), rd(104), rd(312));
}

fn main() {
  let arena: Arena = Options::new()
    .with_capacity(1024)
    .with_unify(true)
    .with_freelist(Freelist::Pessimistic)
    .with_minimum_segment_size(8)
    .alloc()
    .unwrap();
  let a = arena.alloc_bytes_owned(64).unwrap(); // [32,96)    -> segment X
  let _g1 = arena.alloc_bytes_owned(8).unwrap();
  let b = arena.alloc_bytes_owned(200).unwrap(); // [104,304) -> segment N
  let _g2 = arena.alloc_bytes_owned(8).unwrap();
  let c = arena.alloc_bytes_owned(40).unwrap(); // [312,352)  -> segment Y
  let _g3 = arena.alloc_bytes_owned(8).unwrap();
  let _rest = arena.alloc_bytes_owned(arena.remaining() as u32).unwrap();
  assert_eq!((a.offset(), b.offset(), c.offset()), (32, 104, 312));
  drop(a);
  drop(b);
  dump(&arena, "initial");

  let aq = arena.clone();
  let q = std::thread::Builder::new().name("Q".into()).spawn(move || {
    wait(&raw const GATE_Q);
    STAGE[0].store(1, SeqCst);
    let mut h = aq.alloc_bytes_owned(190).unwrap();
    STAGE[0].store(2, SeqCst);
    eprintln!("Q: got handle offset {} capacity {} (segment node @{})", h.offset(), h.capacity(), h.buffer_offset());
    h.set_len(190);
    h.fill(0x51);
    mark_q_got();
    wait(&raw const GATE_GO);
    std::thread::sleep(Duration::from_millis(1500)); // keep the allocation for a while
    assert!(h.iter().all(|x| *x == 0x51));
    STAGE[0].store(3, SeqCst);
    drop(h);
    STAGE[0].store(4, SeqCst);
    DONE[0].store(1, SeqCst);
  }).unwrap();
  let ad = arena.clone();
  let d = std::thread::Builder::new().name("D".into()).spawn(move || {
    wait(&raw const GATE_D);
    STAGE[1].store(1, SeqCst);
    let x = ad.alloc_bytes_owned(50).unwrap();
    eprintln!("D: got handle offset {} capacity {} (segment node @{})", x.offset(), x.capacity(), x.buffer_offset());
    STAGE[1].store(3, SeqCst);
    drop(x);
    STAGE[1].store(4, SeqCst);
    DONE[1].store(1, SeqCst);
  }).unwrap();
  let e = std::thread::Builder::new().name("E".into()).spawn(move || {
    wait(&raw const GATE_E);
    STAGE[2].store(3, SeqCst);
    drop(c);
    STAGE[2].store(4, SeqCst);
    mark_e_done();
    DONE[2].store(1, SeqCst);
  }).unwrap();
  mark_main_ready();
  if std::env::var("F1_FREE_RUN").is_ok() {
    unsafe {
      GATE_Q = 1; GATE_D = 1; GATE_E = 1; GATE_GO = 1;
    }
  }
  wait(&raw const GATE_GO);
  let t0 = Instant::now();
  loop {
    std::thread::sleep(Duration::from_millis(100));
    let done: Vec<u32> = DONE.iter().map(|x| x.load(SeqCst)).collect();
    if done.iter().all(|x| *x == 1) {
      dump(&arena, "final");
      println!("RESULT: all operations finished");
      q.join().unwrap(); d.join().unwrap(); e.join().unwrap();
      return;
    }
    if t0.elapsed() > Duration::from_secs(8) {
      dump(&arena, "after 8 s");
      for (i, n) in ["Q", "D", "E"].iter().enumerate() {
        eprintln!("  thread {n}: finished = {}, stage = {} (1 = inside alloc, 3 = inside drop of its handle, 4 = returned)", done[i], STAGE[i].load(SeqCst));
      }
      println!("RESULT: HANG (C07): the calls above never return");
      std::process::exit(3);
    }
  }
}
