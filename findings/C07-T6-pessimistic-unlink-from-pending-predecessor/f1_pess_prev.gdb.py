# gdb -q -batch -x f1_pess_prev.gdb.py /tmp/wt-R3/target/hunt/debug/f1_pess_prev
# Forces the schedule of finding F1. Breakpoints are on library lines of rarena-allocator/src/sync.rs only
# (plus empty marker functions of the test program).
import gdb
gdb.execute("set pagination off")
gdb.execute("set confirm off")
gdb.execute("set print thread-events off")
gdb.execute("set breakpoint pending on")
gdb.execute("set language c")

def thr(name):
    for t in gdb.selected_inferior().threads():
        if t.name == name:
            return t
    raise RuntimeError("no thread " + name)

def mem64(off):
    # arena base pointer: read from the frame if possible; else via saved value
    return int(gdb.parse_and_eval("*(unsigned long long*)(%d + %d)" % (BASE, off)))

def show(title):
    s = mem64(8)
    out = "%s: sentinel=(%#x,%d)" % (title, s >> 32, s & 0xffffffff)
    for o in (32, 104, 312):
        w = mem64(o)
        out += "  word@%d=(size %d,next %d)" % (o, w >> 32, w & 0xffffffff)
    print("### " + out)

gdb.execute("break mark_main_ready")
gdb.execute("run")
gdb.execute("set scheduler-locking on")

# ---- step 1: Q starts alloc_bytes(190) and is stopped in find_prev_and_next after it has read the
#      sentinel word (MAX, 32) but before it reads the word of the node @32 (sync.rs:656)
q = thr("Q"); q.switch()
gdb.execute("set var *(unsigned int*)&GATE_Q = 1")
gdb.execute("tbreak sync.rs:656 thread %d" % q.num)
gdb.execute("continue")
BASE = int(gdb.parse_and_eval("self.ptr"))
print("### Q stopped at sync.rs:656 (find_prev_and_next), next_offset = %d, current_node = %#x" % (int(gdb.parse_and_eval("next_offset")), int(gdb.parse_and_eval("current_node"))))
show("step 1")

# ---- step 2: D pops the segment @32 (alloc 50), drops the handle again; the re-insertion is stopped in
#      pessimistic_dealloc after update_next_node (own word stored) and before the link CAS (sync.rs:769)
d = thr("D"); d.switch()
gdb.execute("set var *(unsigned int*)&GATE_D = 1")
gdb.execute("tbreak sync.rs:769 thread %d" % d.num)
gdb.execute("continue")
print("### D stopped at sync.rs:769 (pessimistic_dealloc, before the link CAS): expects predecessor word %#x, own node @%d" % (int(gdb.parse_and_eval("current_node_size_and_next_node_offset")), int(gdb.parse_and_eval("segment_node.ptr_offset"))))
show("step 2")

# ---- step 3: E releases a 40 byte allocation: segment @312 (size 32) is linked at the head
e = thr("E"); e.switch()
gdb.execute("set var *(unsigned int*)&GATE_E = 1")
gdb.execute("tbreak mark_e_done")
gdb.execute("continue")
show("step 3")

# ---- step 4: Q goes on: it takes the node @32 (not in the list!) as predecessor of the node @104
q.switch()
gdb.execute("tbreak sync.rs:1336 thread %d" % q.num)
gdb.execute("continue")
print("### Q at sync.rs:1336 (unlink CAS): prev_node_val = %#x, next_node_offset = %d, next_next_node_offset = %d" % (int(gdb.parse_and_eval("prev_node_val")), int(gdb.parse_and_eval("next_node_offset")), int(gdb.parse_and_eval("next_next_node_offset"))))
show("step 4a (victim @104 marked)")
gdb.execute("tbreak mark_q_got")
gdb.execute("continue")
show("step 4b (Q owns [112,302), node @104 is still linked from @312)")

# ---- step 5: everybody runs freely
gdb.execute("set var *(unsigned int*)&GATE_GO = 1")
gdb.execute("set scheduler-locking off")
gdb.execute("continue")
