#!/bin/bash
# usage: c06_kill_at.sh <file:line in the library> [file to use]
# Runs `c06_crash create` under gdb, stops at the given source line of the unmodified library
# (i.e. BEFORE that line executes), SIGKILLs the process there, then runs the checker.
cd /tmp/wt-H5/_hunt
LOC=$1
F=${2:-/tmp/wt-H5/_hunt/crash.arena}
rm -f "$F"
gdb -q -batch \
  -ex "set confirm off" -ex "set breakpoint pending on" \
  -ex "break $LOC" -ex "run" \
  -ex "echo \n[gdb] stopped at:\n" -ex "frame" \
  -ex "echo [gdb] sending SIGKILL\n" -ex "signal SIGKILL" \
  --args ./target/debug/c06_crash create "$F" 2>&1 | grep -v "^\[Thread\|^Using host\|libthread_db\|^warning: Missing\|^of file\|^Use \`info\|auto-load" | cut -c1-200
echo "--- first 32 bytes of the file after the kill:"
xxd -l 32 "$F"
echo "--- checker:"
./target/debug/c06_crash check "$F"
echo "checker exit code $?"
