//! C06 crash harness (child + checker). The child is run under gdb by the driver script, stopped
//! at a chosen source line of the UNMODIFIED library and killed there (SIGKILL); the checker
//! reopens the file the way an application would after a crash.
//!
//! usage: c06_crash create <path>      create a new file arena (create(true)), allocate, exit
//!        c06_crash check  <path>      reopen with the same options and exercise the arena
use rarena_allocator::{Allocator, Buffer, Freelist, Options, sync::Arena};
use std::{sync::mpsc, thread, time::Duration};

const CAP: u32 = 64 << 10;

fn opts() -> Options {
  Options::new()
    .with_capacity(CAP)
    .with_freelist(Freelist::Optimistic)
    .with_create(true)
    .with_read(true)
    .with_write(true)
}

fn main() {
  let mut a = std::env::args().skip(1);
  let cmd = a.next().unwrap();
  let path = a.next().unwrap();
  match cmd.as_str() {
    "create" => {
      let arena: Arena = unsafe { opts().map_mut(&path) }.unwrap();
      let mut b = arena.alloc_bytes(100).unwrap();
      b.put_slice(b"hello").unwrap();
      unsafe { b.detach() };
      println!("child: created, allocated={} data_offset={}", arena.allocated(), arena.data_offset());
    }
    "clear" => {
      // build a free list, then clear() the arena (no live handles, single thread: the
      // documented precondition of `clear`)
      let arena: Arena = unsafe { opts().map_mut(&path) }.unwrap();
      let a = arena.alloc_bytes_owned(200).unwrap();
      let b = arena.alloc_bytes_owned(300).unwrap();
      let c = arena.alloc_bytes_owned(100).unwrap();
      drop(a);
      drop(b); // a and b are in the free list, c is on top
      drop(c);
      println!("child: before clear: allocated={} header bytes {:02x?}", arena.allocated(), &arena.memory()[8..32]);
      unsafe { arena.clear().unwrap() };
      println!("child: after clear: allocated={} header bytes {:02x?}", arena.allocated(), &arena.memory()[8..32]);
    }
    "check" => {
      let len = std::fs::metadata(&path).map(|m| m.len()).ok();
      println!("check: file length {len:?}");
      let arena: Arena = match unsafe { opts().map_mut(&path) } {
        Ok(a) => a,
        Err(e) => {
          println!("VIOLATION(C06 'the file opens again'): reopen failed: {e}");
          std::process::exit(3);
        }
      };
      let cursor = arena.allocated();
      let data_offset = arena.data_offset();
      println!("check: reopened: cursor={cursor} data_offset={data_offset} capacity={}", arena.capacity());
      let mut bad = false;
      if cursor < data_offset || cursor > arena.capacity() {
        println!("VIOLATION(C06 'cursor lies between data_offset and capacity'): cursor={cursor} data_offset={data_offset}");
        bad = true;
      }
      // exercise the arena under a watchdog
      let (tx, rx) = mpsc::channel();
      let a2 = arena.clone();
      thread::spawn(move || {
        let h = a2.alloc_bytes_owned(64).unwrap();
        tx.send(format!("alloc_bytes(64) -> handle at offset {} len {}", h.offset(), h.capacity())).unwrap();
        let h2 = a2.alloc_bytes_owned(64).unwrap();
        tx.send(format!("alloc_bytes(64) -> handle at offset {} len {}", h2.offset(), h2.capacity())).unwrap();
        drop(h); // not on top: goes to the free list => traversal from the sentinel
        tx.send("drop(first handle) returned".to_string()).unwrap();
        tx.send("done".to_string()).unwrap();
        std::mem::forget(h2);
      });
      loop {
        match rx.recv_timeout(Duration::from_secs(5)) {
          Ok(m) if m == "done" => break,
          Ok(m) => {
            println!("check: {m}");
            if let Some(off) = m.split("offset ").nth(1).and_then(|s| s.split(' ').next()).and_then(|s| s.parse::<usize>().ok()) {
              if off < data_offset {
                println!("VIOLATION(C02/C06): handle at offset {off} lies below data_offset {data_offset}: it overlaps the magic/header of the arena");
                bad = true;
              }
            }
          }
          Err(_) => {
            println!("VIOLATION(C06 'every operation on the reopened arena terminates'): operation did not return within 5s");
            std::process::exit(4);
          }
        }
      }
      std::process::exit(if bad { 5 } else { 0 });
    }
    _ => unreachable!(),
  }
}
