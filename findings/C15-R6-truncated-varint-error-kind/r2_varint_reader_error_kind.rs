//! C15 (letter of the clause): the arena level `*_varint` readers return OutOfBounds only when
//! `offset >= allocated()`; a value that starts below and runs into `allocated()` yields
//! `Error::DecodeVarintError(..)` instead of `OutOfBounds`. (They never read at or above
//! `allocated()`, that part of the clause holds.)
use rarena_allocator::{unsync::Arena, Allocator, Buffer, Error, Options};

#[test]
fn truncated_varint_is_out_of_bounds() {
  let arena = Options::new().with_capacity(100).alloc::<Arena>().unwrap();
  let mut b = arena.alloc_bytes(3).unwrap();
  b.put_slice(&[0xff, 0xff, 0xff]).unwrap(); // three continuation bytes, then the arena ends
  let off = b.offset();
  assert_eq!(off + 3, arena.allocated());
  let r = arena.get_u64_varint(off);
  assert!(
    matches!(r, Err(Error::OutOfBounds { .. })),
    "the value does not lie below allocated(), expected OutOfBounds, got {r:?}"
  );
}
